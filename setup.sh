#!/bin/bash
# Build the overlay venv (python 3.12 + solvers + repo's third-party deps via .pth). Offline.
set -e
cd "$(dirname "$0")"
V=.venv
# concurrent checks on a fresh restore must not build the venv at the same time
exec 9>.venv.lock
flock 9
if [ -x $V/bin/python ] && $V/bin/python -c "import z3, cvc5, ply, jsonschema, deal, crosshair" 2>/dev/null; then
  exit 0
fi
rm -rf $V
/venv/bin/python -m venv $V
PIP_NO_INDEX=1 $V/bin/python -m pip install -q --no-index --find-links /opt/veriftools/wheels \
    z3-solver cvc5 crosshair-tool deal icontract jsonschema hypothesis >/dev/null
SP=$($V/bin/python -c "import site; print(site.getsitepackages()[0])")
echo "import site; site.addsitedir('/venv/lib/python3.12/site-packages')" > $SP/zz_repo_deps.pth
$V/bin/python -c "import z3, cvc5, ply, jsonschema, deal, crosshair; print('venv ok', z3.get_version_string())"

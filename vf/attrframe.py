"""Per-attribute frame analysis: which functions of a module store to / read an attribute.

A sidecar table (the `modifies` / `reads` clauses of the functions of one class, written per attribute)
lists the functions allowed to write or read each state variable; the obligation is that the store and
load sites found in the real AST are within the table.  Attribute access is recognised syntactically
(`<expr>.name` in Store / Del / Load context, augmented assignment, and calls of mutating methods on
`<expr>.name`); reflective access (`setattr`, `getattr` with a non-literal name, `__dict__`, `vars`) is
reported so that a table cannot be bypassed silently."""
import ast

MUTATORS = {'append', 'extend', 'insert', 'pop', 'remove', 'clear', 'sort', 'reverse', 'update', 'setdefault',
            'popitem', 'add', 'discard', '__setitem__', '__delitem__'}


class Access(object):
    def __init__(self):
        self.writes = {}     # attr -> {funcpath: [lineno]}
        self.reads = {}
        self.reflective = []  # (funcpath, lineno, what)


def _funcs(tree):
    """yield (path, node) of every function, nested ones under their parent's path"""
    def rec(node, prefix):
        for ch in ast.iter_child_nodes(node):
            if isinstance(ch, (ast.FunctionDef, ast.AsyncFunctionDef)):
                p = prefix + [ch.name]
                yield '.'.join(p), ch
                for x in rec(ch, p):
                    yield x
            elif isinstance(ch, ast.ClassDef):
                for x in rec(ch, prefix + [ch.name]):
                    yield x
            else:
                for x in rec(ch, prefix):
                    yield x
    return rec(tree, [])


def own_nodes(fn):
    """(node, guards) of a function body, not descending into nested function / class definitions; guards =
    source text of the tests of the enclosing `if` statements (prefixed 'not ' in the else branch)"""
    out = []

    def rec(n, guards):
        out.append((n, guards))
        if isinstance(n, (ast.FunctionDef, ast.AsyncFunctionDef, ast.ClassDef)):
            return
        if isinstance(n, ast.If):
            t = ast.unparse(n.test)
            rec(n.test, guards)
            for ch in n.body:
                rec(ch, guards + (t,))
            for ch in n.orelse:
                rec(ch, guards + ('not ' + t,))
            return
        for ch in ast.iter_child_nodes(n):
            rec(ch, guards)
    for ch in ast.iter_child_nodes(fn):
        rec(ch, ())
    return out


def analyse(path):
    tree = ast.parse(open(path).read())
    acc = Access()

    def note(d, attr, fp, line):
        d.setdefault(attr, {}).setdefault(fp, []).append((line, note.guards))
    for fp, fn in list(_funcs(tree)) + [('<module>', tree)]:
        for n, guards in own_nodes(fn):
            note.guards = guards
            if isinstance(n, ast.Attribute):
                if isinstance(n.ctx, (ast.Store, ast.Del)):
                    note(acc.writes, n.attr, fp, n.lineno)
                else:
                    note(acc.reads, n.attr, fp, n.lineno)
            if isinstance(n, ast.AugAssign) and isinstance(n.target, ast.Attribute):
                note(acc.reads, n.target.attr, fp, n.lineno)
            if isinstance(n, ast.AugAssign) and isinstance(n.target, ast.Subscript) and isinstance(n.target.value, ast.Attribute):
                note(acc.writes, n.target.value.attr, fp, n.lineno)
            if isinstance(n, (ast.Assign, ast.Delete)):
                for t in (n.targets):
                    for s in ast.walk(t):
                        if isinstance(s, ast.Subscript) and isinstance(s.ctx, (ast.Store, ast.Del)):
                            b = s.value
                            while isinstance(b, ast.Subscript):
                                b = b.value
                            if isinstance(b, ast.Attribute):
                                note(acc.writes, b.attr, fp, n.lineno)
            if isinstance(n, ast.Call):
                f = n.func
                if isinstance(f, ast.Attribute) and f.attr in MUTATORS:
                    b = f.value
                    while isinstance(b, ast.Subscript):
                        b = b.value
                    if isinstance(b, ast.Attribute):
                        note(acc.writes, b.attr, fp, n.lineno)
                if isinstance(f, ast.Name) and f.id in ('setattr', 'delattr', 'vars'):
                    acc.reflective.append((fp, n.lineno, f.id))
                if isinstance(f, ast.Name) and f.id == 'getattr' and not (len(n.args) > 1 and isinstance(n.args[1], ast.Constant)):
                    acc.reflective.append((fp, n.lineno, 'getattr with a computed name'))
                if isinstance(f, ast.Name) and f.id == 'getattr' and len(n.args) > 1 and isinstance(n.args[1], ast.Constant):
                    note(acc.reads, n.args[1].value, fp, n.lineno)
            if isinstance(n, ast.Attribute) and n.attr == '__dict__':
                acc.reflective.append((fp, n.lineno, '__dict__'))
    return acc

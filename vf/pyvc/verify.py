"""Driver: verify one contract = generate VCs from the real function and discharge them."""
import importlib
import time
import traceback

import z3

from .. import scratch
from .engine import Engine, load_function, typecases, Unsupported, PathEnd
from .solve import discharge, satisfiable


class FunctionResult(object):
    def __init__(self, qualname):
        self.qualname = qualname
        self.sha = None
        self.obligations = []      # (name, status, solver, ms, detail)
        self.failed = []           # (name, model_info, solver_output)
        self.undecided = []
        self.unsupported = None
        self.paths = 0
        self.covers_failed = []
        self.laws = {}
        self.trusted = {}


def model_inputs(model, eng, typecase):
    """Concrete python values of the parameters in a counter-model (best effort)."""
    if model is None:
        return None
    out = {}
    for name in typecase:
        v = eng.entry.get(name) if hasattr(eng, 'entry') else None
        out[name] = None
    return out


def effective_funcname(c):
    """`Class.method` as the contract names it, or `Sub.method` when the object the contract is stated for (its `self`) is an
    instance of a subclass of the same module that overrides the method: the verified text must be the code that RUNS for that
    object, not the base-class text the contract author looked at (a later override in the subclass would otherwise go unseen)."""
    from .engine import Obj, PObj
    from .sym import Const
    parts = c.funcname.split('.')
    if len(parts) != 2 or c.source is not None:
        return c.funcname
    st = c.params.get('self') if hasattr(c.params, 'get') else None
    cls = getattr(st, 'cls', None) if isinstance(st, Obj) else None
    if cls is None and isinstance(st, Const) and isinstance(getattr(st, 'value', None), PObj):
        cls = st.value.cls
    if not isinstance(cls, type):
        return c.funcname
    try:
        module = importlib.import_module(c.module)
    except Exception:
        return c.funcname
    declared = getattr(module, parts[0], None)
    if not isinstance(declared, type) or cls is declared or not issubclass(cls, declared):
        return c.funcname
    for k in cls.__mro__:
        if parts[1] in k.__dict__:
            if k is not declared and k.__module__ == c.module and issubclass(k, declared) and getattr(module, k.__name__, None) is k:
                return k.__name__ + '.' + parts[1]
            return c.funcname
    return c.funcname


def verify_contract(c, registry, both=False, keep_engine=False):
    """Returns FunctionResult.  Obligations with the same name on several paths are
    grouped: the name is discharged iff every path instance is."""
    res = FunctionResult(c.qualname)
    src = scratch.scratch_src()
    try:
        node, sha, seg = load_function(c.module, effective_funcname(c), src, harness_source=c.source)
    except Unsupported as e:
        res.unsupported = str(e)
        return res
    res.sha = sha
    module = importlib.import_module(c.module)
    groups = {}
    order = []
    covers = {}
    for tc in typecases(c.params):
        eng = Engine(c, registry, node, module)
        try:
            eng.explore(tc)
        except Unsupported as e:
            res.unsupported = '%s [typecase %r]' % (e, tc)
            return res
        except RecursionError:
            res.unsupported = 'recursion limit in engine'
            return res
        res.paths += eng.paths
        for k, v in eng.laws_used.items():
            res.laws[k] = res.laws.get(k, 0) + v
        for k, v in eng.trusted_used.items():
            res.trusted[k] = res.trusted.get(k, 0) + v
        for o in eng.obligations:
            if o.name not in groups:
                groups[o.name] = []
                order.append(o.name)
            groups[o.name].append((o, tc))
        for name, prem in eng.covers:
            covers.setdefault(name, []).append(prem)
    for name in order:
        status, solver, ms, detail = 'unsat', set(), 0.0, None
        for o, tc in groups[name]:
            r = discharge(o.premises, o.goal, both=both)
            ms += r.ms
            solver.add(r.solver)
            if r.status == 'sat':
                status = 'sat'
                detail = dict(path=o.path, typecase=repr(tc), model=model_text(r.model),
                              goal=str(z3.simplify(o.goal))[:600], kind=o.kind)
                break
            if r.status == 'unknown':
                status = 'unknown'
                detail = dict(path=o.path, reason=r.reason, kind=o.kind)
        res.obligations.append((name, status, '+'.join(sorted(solver)), ms, detail, len(groups[name])))
    # vacuity guard: each cover must be reachable on at least one path
    for name, prems in covers.items():
        ok = False
        for p in prems:
            r = satisfiable(p)
            if r != z3.unsat:
                ok = True
                break
        if not ok:
            res.covers_failed.append(name)
    # a loop contract whose loop body is reached on no path of any type case proves nothing about the loop
    if c.loops and not c.hints.get('loops_may_be_unreachable') and not any('.loop' in name and name.endswith('.body') for name in covers):
        res.covers_failed.append('%s.loop.body (no path enters a loop that has a contract)' % c.funcname)
    res.cover_count = len(covers)
    return res


def model_text(model):
    if model is None:
        return None
    out = {}
    for d in model.decls():
        n = d.name()
        if d.arity() == 0:
            out[n] = str(model[d])[:200]
    return out

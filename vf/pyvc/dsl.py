"""Names a sidecar contract file needs."""
import z3  # noqa

from .sym import Int, Bool, Str, Seq, ListOf, Opaque, Const, OneOf, SInt, SBool, SStr, SSeq, Unsupported  # noqa
from .engine import Contract, Loop, SpecFn, Alphabet, EncStr, SEnc, Obj, STR_REPEAT, Helper, MapStrInt, DictWith, PMap, PExt, SameAs, PObj, PExc, PList, Frame  # noqa


class Lemma(object):
    """A lemma proved by well-founded induction with hand-instantiated hypotheses.

    vars:      list of z3 constants the lemma is universally quantified over
    statement: function(*terms) -> z3 Bool   (closed under substitution of vars)
    measure:   function(*terms) -> z3 Int; the order is  t < v  iff  0 <= m(t) < m(v)
    ih:        list of tuples of terms (over vars) at which the induction hypothesis is used
    uses:      other (already proved) lemma instances, as z3 Bools over vars
    The single obligation is:  AND_t [ 0 <= m(t) < m(vars)  =>  statement(t) ]  /\\ uses  =>  statement(vars).
    """

    def __init__(self, name, vars, statement, measure=None, ih=(), uses=(), doc='', cases=()):
        self.name = name
        self.vars = list(vars)
        self.statement = statement
        self.measure = measure
        self.ih = list(ih)
        self.uses = list(uses)
        self.doc = doc
        self.cases = list(cases)   # optional case split (z3 Bools over vars): one obligation per case + exhaustiveness

    def instance(self, *terms):
        return self.statement(*terms)

    def obligation(self):
        prem = []
        if self.ih:
            m0 = self.measure(*self.vars)
            for t in self.ih:
                mt = self.measure(*t)
                prem.append(z3.Implies(z3.And(mt >= 0, mt < m0), self.statement(*t)))
        prem.extend(self.uses)
        return prem, self.statement(*self.vars)

    def obligations(self):
        """[(suffix, premises, goal)]"""
        prem, goal = self.obligation()
        if not self.cases:
            return [('', prem, goal)]
        out = [('.case%d' % i, prem + [c], goal) for i, c in enumerate(self.cases)]
        out.append(('.cases_exhaustive', [], z3.Or(*self.cases)))
        return out

"""Discharging obligations: z3 first (in process), cvc5 takes z3's unknowns (DESIGN 3.2 Solving)."""
import os
import re
import subprocess
import tempfile
import time

import z3

# generous: queries take milliseconds to a second on an idle machine; the limit only matters when every core is busy
Z3_TIMEOUT_MS = int(os.environ.get('VERIF_Z3_MS', '60000'))
CVC5_TIMEOUT_MS = int(os.environ.get('VERIF_CVC5_MS', '120000'))


def to_smt2(premises, goal, logic='ALL'):
    s = z3.Solver()
    for p in premises:
        s.add(p)
    s.add(z3.Not(goal))
    txt = s.to_smt2()
    txt = re.sub(r'\(_ ([A-Za-z_][A-Za-z0-9_!.]*) 0\)', r'\1', txt)   # z3 prints recfun applications as (_ f 0)
    txt = txt.replace('(set-info :status unknown)', '')
    return '(set-logic %s)\n' % logic + txt


def run_cvc5(smt2, timeout_ms=None):
    timeout_ms = timeout_ms or CVC5_TIMEOUT_MS
    with tempfile.NamedTemporaryFile('w', suffix='.smt2', delete=False) as fd:
        fd.write(smt2)
        path = fd.name
    try:
        t0 = time.time()
        try:
            out = subprocess.run(['/usr/bin/cvc5', '--strings-exp', '--tlimit=%d' % timeout_ms, path],
                                 capture_output=True, text=True, timeout=timeout_ms / 1000.0 + 5)
            res = out.stdout.strip().split('\n')[0] if out.stdout.strip() else 'unknown'
            if res not in ('sat', 'unsat', 'unknown'):
                res = 'unknown'
        except subprocess.TimeoutExpired:
            res = 'unknown'
        return res, (time.time() - t0) * 1000.0
    finally:
        os.unlink(path)


_nlmul = z3.Function('nlmul', z3.IntSort(), z3.IntSort(), z3.IntSort())


_nl_cache = {}        # term id -> (term kept alive, abstracted term); premises are shared by many obligations of a path


def abstract_nonlinear(exprs):
    """Replace products of two non-constant terms by an uninterpreted (commutative-normalised)
    function.  Validity with the uninterpreted function implies validity with multiplication.
    Terms without such a product are returned as they are (no rebuilding)."""
    if len(_nl_cache) > 400000:
        _nl_cache.clear()
    cache = _nl_cache

    def walk(e):
        k = e.get_id()
        hit = cache.get(k)
        if hit is not None:
            return hit[1]
        if z3.is_quantifier(e):
            r = e       # left as is
        elif z3.is_app(e) and e.num_args():
            kids = e.children()
            args = [walk(a) for a in kids]
            if e.decl().kind() == z3.Z3_OP_MUL:
                consts = [a for a in args if z3.is_int_value(a)]
                others = [a for a in args if not z3.is_int_value(a)]
                if len(others) >= 2:
                    others.sort(key=lambda t: t.sexpr())
                    acc = others[0]
                    for o in others[1:]:
                        acc = _nlmul(acc, o)
                    for c in consts:
                        acc = c * acc
                    r = acc
                elif any(a.get_id() != b.get_id() for a, b in zip(args, kids)):
                    r = e.decl()(*args)
                else:
                    r = e
            elif any(a.get_id() != b.get_id() for a, b in zip(args, kids)):
                r = e.decl()(*args)
            else:
                r = e
        else:
            r = e
        cache[k] = (e, r)
        return r
    return [walk(e) for e in exprs]


class Result(object):
    __slots__ = ('status', 'solver', 'ms', 'model', 'reason')

    def __init__(self, status, solver, ms, model=None, reason=None):
        self.status = status      # 'unsat' | 'sat' | 'unknown'
        self.solver = solver
        self.ms = ms
        self.model = model
        self.reason = reason


def discharge(premises, goal, use_cvc5=True, z3_ms=None, both=False):
    """Decide premises => goal.  unsat = discharged; sat = counter-model; unknown = undecided."""
    # cheap sound attempts first (each only ever concludes `unsat`):
    #  (1) premises that are bare quantified facts dropped (they slow MBQI down; instances the
    #      engine needs are added explicitly);  (2) additionally nonlinear products abstracted
    #      to an uninterpreted function.
    t0 = time.time()
    noq = [p for p in premises if not z3.is_quantifier(p)]
    tries = []
    if len(noq) != len(premises):
        tries.append(('z3(-quant)', noq, goal))
    try:
        ab = abstract_nonlinear(list(noq) + [goal])
        if any(a.get_id() != b.get_id() for a, b in zip(ab, list(noq) + [goal])):
            tries.append(('z3(nl-abstracted)', ab[:-1], ab[-1]))
    except z3.Z3Exception:
        pass
    for label, prem, g in tries:
        s0 = z3.Solver()
        s0.set('timeout', 8000)
        for p in prem:
            s0.add(p)
        s0.add(z3.Not(g))
        if s0.check() == z3.unsat:
            return Result('unsat', label, (time.time() - t0) * 1000.0)
    s = z3.Solver()
    s.set('timeout', z3_ms or Z3_TIMEOUT_MS)
    for p in premises:
        s.add(p)
    s.add(z3.Not(goal))
    t0 = time.time()
    r = s.check()
    ms = (time.time() - t0) * 1000.0
    if r == z3.unsat:
        if both:
            r2, ms2 = run_cvc5(to_smt2(premises, goal))
            if r2 == 'sat':
                return Result('unknown', 'z3+cvc5', ms + ms2, reason='solvers disagree: z3 unsat, cvc5 sat')
            return Result('unsat', 'z3' + ('+cvc5' if r2 == 'unsat' else ''), ms + ms2)
        return Result('unsat', 'z3', ms)
    if r == z3.sat:
        return Result('sat', 'z3', ms, model=s.model())
    reason = s.reason_unknown()
    if use_cvc5:
        try:
            r2, ms2 = run_cvc5(to_smt2(premises, goal))
        except Exception as e:  # export problem: stays undecided
            return Result('unknown', 'z3', ms, reason='%s; cvc5 export failed: %s' % (reason, e))
        if r2 == 'unsat':
            return Result('unsat', 'cvc5', ms + ms2)
        if r2 == 'sat':
            return Result('sat', 'cvc5', ms + ms2, model=None)
        return Result('unknown', 'z3+cvc5', ms + ms2, reason=reason)
    return Result('unknown', 'z3', ms, reason=reason)


def satisfiable(premises, ms=5000):
    s = z3.Solver()
    s.set('timeout', ms)
    for p in premises:
        s.add(p)
    return s.check()

"""pyvc -- VC generation from the AST of the real functions (back end E1, DESIGN 3.2).

A mixed concrete/symbolic interpreter of a subset of Python.  The function's AST is
read from the scratch copy of /repo/src on every run.  Paths are explored depth first
by re-execution under a decision trail; loops are cut by the sidecar invariants; calls
to functions under contract use the contract (assert pre, havoc, assume post); every
check the contract or Python's semantics demands becomes a named obligation
`premises => goal` that a solver must discharge.
"""
import ast
import builtins
import hashlib
import importlib
import functools
import inspect
import re
import itertools
import types

import z3

from .sym import (Unsupported, Sym, SInt, SBool, SStr, SSeq, SOpaque, T, Int, Bool, Str, Seq, ListOf,
                  Opaque, Const, OneOf, is_sym, term_of, type_of_value)


class PathEnd(Exception):
    """assume(false): this path is finished."""


class PyRaise(Exception):
    """An exception of the interpreted program."""

    def __init__(self, exc):
        Exception.__init__(self, repr(exc))
        self.exc = exc


class _Return(Exception):
    def __init__(self, value):
        self.value = value


class _Break(Exception):
    pass


class _Continue(Exception):
    pass


class PExc(object):
    """Exception value of the interpreted program: real class + (possibly symbolic) args."""

    def __init__(self, cls, args=(), tag=None):
        self.cls = cls
        self.args = tuple(args)
        self.tag = tag

    def __repr__(self):
        return 'PExc(%s%s)' % (getattr(self.cls, '__name__', self.cls), ', tag=%s' % self.tag if self.tag else '')


class PList(object):
    """Mutable list of the interpreted program.  `val`: python list (concrete spine) or SSeq."""

    def __init__(self, val):
        self.val = val

    def __repr__(self):
        return 'PList(%r)' % (self.val,)


class PDict(object):
    """Mutable dict with concrete keys (values may be symbolic)."""

    def __init__(self, val=None):
        self.val = dict(val or {})

    def __repr__(self):
        return 'PDict(%r)' % (self.val,)


class PMap(object):
    """Mutable dict str -> int (or str -> str, `vkind` 'str') with symbolic contents: domain, values, size (z3 arrays / Int)."""

    def __init__(self, dom, val, size, vkind='int'):
        self.dom, self.val, self.size, self.vkind = dom, val, size, vkind

    def copy(self):
        return PMap(self.dom, self.val, self.size, self.vkind)

    def wrap(self, term):
        return SStr(term) if self.vkind == 'str' else SInt(term)

    def unwrap(self, v):
        return term_of(v) if self.vkind == 'str' else Int.unwrap(v)


class PSet(object):
    def __init__(self, val=None):
        self.val = set(val or ())


class PSymSet(object):
    """Mutable set of str with symbolic contents: `arr` is a z3 Array(String -> Bool) (membership)."""

    def __init__(self, arr):
        self.arr = arr

    def copy(self):
        return PSymSet(self.arr)

    def __repr__(self):
        return 'PSymSet(%s)' % (str(self.arr)[:60],)


class PSymGen(object):
    """generator expression over a symbolic set: only `set(...)` consumes it"""

    def __init__(self, symset):
        self.symset = symset


class PMapItems(object):
    """`d.items()` of a symbolic dict (iterated by comprehensions and contract-cut loops only)"""

    def __init__(self, m):
        self.m = m


class SetStr(T):
    """field/parameter type: a set of str with arbitrary (symbolic) contents"""

    def fresh(self, name):
        return PSymSet(z3.FreshConst(z3.ArraySort(z3.StringSort(), z3.BoolSort()), name))

    def __repr__(self):
        return 'SetStr'


class PObj(object):
    """Instance of a (real) class; fields hold values."""

    def __init__(self, cls, fields=None, name=None):
        self.cls = cls
        self.fields = dict(fields or {})
        self.name = name

    def __repr__(self):
        return 'PObj(%s %s)' % (getattr(self.cls, '__name__', self.cls), self.name or '')


class PFunc(object):
    """Closure of the interpreted program."""

    def __init__(self, node, frame, name):
        self.node = node
        self.frame = frame
        self.name = name


class PExt(object):
    """An external callable with an assumed contract: may raise one of `raises` (each a free choice,
    explored as its own path) or returns effect(engine, args, kwargs)."""

    def __init__(self, name, effect=None, raises=(), pure=False, always_raises=False):
        self.name = name
        self.effect = effect
        self.raises = tuple(raises)
        self.pure = pure
        self.always_raises = always_raises


class SameAs(object):
    """parameter type: the very same object as another parameter"""

    def __init__(self, other):
        self.other = other

    def __repr__(self):
        return 'SameAs(%s)' % self.other


class PBound(object):
    def __init__(self, recv, name):
        self.recv = recv
        self.name = name


SHARED_MUTATORS = frozenset(('append', 'extend', 'insert', 'pop', 'remove', 'clear', 'sort', 'reverse', 'add', 'discard', 'update',
                             'setdefault', 'popitem', '__setitem__', '__delitem__'))


class PEnum(object):
    """enumerate(seq) over a symbolic sequence: element i is the pair (i, seq[i])."""

    def __init__(self, seq):
        self.seq = seq


class PGen(object):
    """A generator of the interpreted program, run eagerly: `items` is what it yields
    (PList contents).  Assumes the consumer exhausts it or the body is pure (stated)."""

    def __init__(self, items):
        self.items = items  # python list or SSeq


class PText(object):
    """An immutable text abstracted as its length and an uninterpreted code-point function (linear integer arithmetic +
    UF instead of the string theory).  Supports len() and indexing; an index yields an SChar."""

    def __init__(self, name):
        self.name = name
        self.n = z3.FreshConst(z3.IntSort(), name + '_len')
        self.ch = z3.Function(name + '_cp', z3.IntSort(), z3.IntSort())
        self.entry_facts = [self.n >= 0]


class SChar(Sym):
    """A one-character string given by its code point term."""
    pass


class PLazy(object):
    """A field whose (arbitrary) value is chosen on first read: thunk(engine) -> value."""

    def __init__(self, thunk):
        self.thunk = thunk


class PAbsSeq(object):
    """Input sequence abstracted by its length and uninterpreted element functions: element i is a tuple of
    length kind(i) (one of `kinds`) whose j-th component is f_j(i).  Reading the same index twice gives the same
    element; nothing else is assumed about the contents (plus `elem_facts`, the type invariant of an element)."""

    def __init__(self, name, kinds, width, elem_facts=None, elem=None):
        self.elem = elem            # optional: elem(i_term, kind) -> element value (default: tuple of ints f_j(i))
        self.name = name
        self.n = z3.FreshConst(z3.IntSort(), name + '_len')
        self.kind = z3.Function(name + '_kind', z3.IntSort(), z3.IntSort())
        self.f = [z3.Function('%s_f%d' % (name, j), z3.IntSort(), z3.IntSort()) for j in range(width)]
        self.kinds = tuple(kinds)
        self.elem_facts = elem_facts
        self.entry_facts = [self.n >= 0]


class FoldAbs(object):
    """Contents of a list (PList.val) abstracted by: its length, its last element and the values of user-given
    folds over its elements.  `spec` is a FoldSpec."""

    def __init__(self, spec, n, last_kind, last_fields, folds):
        self.spec, self.n, self.last_kind, self.last_fields, self.folds = spec, n, last_kind, last_fields, folds
        self.last = None        # concrete tuple once known


class FoldSpec(object):
    """type of a list of tuples in a loop contract: `kinds` = possible tuple lengths, `folds` = ordered
    {name: step(folds_dict_of_terms, element_tuple_of_SInt) -> z3 term}"""

    def __init__(self, kinds, width, folds):
        self.kinds, self.width, self.folds = tuple(kinds), width, folds

    def fresh(self, tag):
        n = z3.FreshConst(z3.IntSort(), 'n_' + tag)
        fa = FoldAbs(self, n, z3.FreshConst(z3.IntSort(), 'lastkind_' + tag),
                     [z3.FreshConst(z3.IntSort(), 'last%d_%s' % (j, tag)) for j in range(self.width)],
                     dict((k, z3.FreshConst(z3.IntSort(), '%s_%s' % (k, tag))) for k in self.folds))
        return fa

    def of_list(self, items):
        """fold values of a concrete list of tuples"""
        f = dict((k, z3.IntVal(0)) for k in self.folds)
        for x in items:
            f = dict((k, step(f, x)) for k, step in self.folds.items())
        return f


class Alphabet(object):
    """A concrete string of distinct characters and its inverse dict (e.g. INT_B64 / B64_INT).
    Strings over it are represented by their digit sequences (bijection checked concretely)."""

    def __init__(self, name, chars, inverse):
        if len(set(chars)) != len(chars):
            raise ValueError('alphabet %s has repeated characters' % name)
        if inverse is not None and dict(inverse) != dict((c, i) for i, c in enumerate(chars)):
            raise ValueError('inverse table of alphabet %s is not the inverse of its characters' % name)
        self.name = name
        self.chars = chars
        self.inverse = inverse
        self.n = len(chars)
        self.strfn = z3.Function('str_' + name, z3.SeqSort(z3.IntSort()), z3.StringSort())

    def digits_of(self, text):
        if all(ch in self.chars for ch in text):
            return [self.chars.index(ch) for ch in text]
        return None


class SEnc(Sym):
    """A str all of whose characters are in `alpha`; `t` is its digit sequence (Seq Int)."""
    __slots__ = ('alpha',)

    def __init__(self, t, alpha):
        Sym.__init__(self, t)
        self.alpha = alpha


class SEncMap(Sym):
    """Sequence of one-character alphabet strings, the k-th having digit t[k]."""
    __slots__ = ('alpha',)

    def __init__(self, t, alpha):
        Sym.__init__(self, t)
        self.alpha = alpha


class EncStr(T):
    """Parameter type: str over the alphabet."""

    def __init__(self, alpha):
        self.alpha = alpha

    def sort(self):
        return z3.SeqSort(z3.IntSort())

    def wrap(self, term):
        return SEnc(term, self.alpha)

    def unwrap(self, v):
        if isinstance(v, SEnc) and v.alpha is self.alpha:
            return v.t
        if isinstance(v, str):
            ds = self.alpha.digits_of(v)
            if ds is not None:
                return Seq(Int).unwrap(ds)
        raise Unsupported('expected a string over alphabet %s, got %r' % (self.alpha.name, v))

    def facts(self, v):
        k = z3.FreshConst(z3.IntSort(), 'k')
        return [z3.ForAll([k], z3.Implies(z3.And(k >= 0, k < z3.Length(v.t)),
                                          z3.And(v.t[k] >= 0, v.t[k] < self.alpha.n)))]

    def __repr__(self):
        return 'EncStr(%s)' % self.alpha.name


class MapStrInt(T):
    """field/parameter type: a dict str -> int with arbitrary (symbolic) contents"""

    def fresh(self, name):
        S, I, B = z3.StringSort(), z3.IntSort(), z3.BoolSort()
        return PMap(z3.FreshConst(z3.ArraySort(S, B), name + '_dom'), z3.FreshConst(z3.ArraySort(S, I), name + '_val'),
                    z3.FreshConst(I, name + '_size'))

    def __repr__(self):
        return 'MapStrInt'


class MapStrStr(T):
    """field/parameter type: a dict str -> str with arbitrary (symbolic) contents"""

    def fresh(self, name):
        S, I, B = z3.StringSort(), z3.IntSort(), z3.BoolSort()
        return PMap(z3.FreshConst(z3.ArraySort(S, B), name + '_dom'), z3.FreshConst(z3.ArraySort(S, S), name + '_val'),
                    z3.FreshConst(I, name + '_size'), vkind='str')

    def __repr__(self):
        return 'MapStrStr'


class DictWith(T):
    """field/parameter type: a dict with exactly the given concrete keys (values of the given types)"""

    def __init__(self, items):
        self.items = dict(items)

    def fresh(self, name):
        return PDict(dict((k, ty.fresh('%s_%s' % (name, k))) for k, ty in self.items.items()))

    def __repr__(self):
        return 'DictWith(%s)' % sorted(self.items)


class Obj(T):
    """Parameter type: an instance of real class `cls` owned by the caller, with the listed fields
    (field name -> T | Const).  Fields not listed are looked up on the class."""

    def __init__(self, cls, fields=None, name=None):
        self.cls = cls
        self.fields = dict(fields or {})
        self.name = name

    def fresh(self, name):
        o = PObj(self.cls, name=name)
        for k, ty in self.fields.items():
            if isinstance(ty, ListOf):
                o.fields[k] = PList(ty.seq.fresh('%s_%s' % (name, k)))
            elif isinstance(ty, Obj):
                o.fields[k] = ty.fresh('%s_%s' % (name, k))
            elif callable(getattr(ty, 'make', None)):
                o.fields[k] = ty.make('%s_%s' % (name, k))
            else:
                o.fields[k] = ty.fresh('%s_%s' % (name, k))
        return o

    def __repr__(self):
        return 'Obj(%s)' % getattr(self.cls, '__name__', self.cls)


class Frame(object):
    def __init__(self, parent=None, vars=None):
        self.vars = dict(vars or {})
        self.parent = parent
        self.nonlocal_names = set()

    def lookup(self, name):
        f = self
        while f is not None:
            if name in f.vars:
                return f.vars[name]
            f = f.parent
        raise KeyError(name)

    def has(self, name):
        f = self
        while f is not None:
            if name in f.vars:
                return True
            f = f.parent
        return False

    def store(self, name, value):
        if name in self.nonlocal_names:
            f = self.parent
            while f is not None:
                if name in f.vars:
                    f.vars[name] = value
                    return
                f = f.parent
        self.vars[name] = value


class SpecFn(object):
    """A specification function callable from contract expressions.

    With `body` given, `fn` is an *uninterpreted* z3 function and `body(*terms)` its defining
    right-hand side: definitions are opaque to the solver unless an instance is revealed with
    the contract form `unfold(f(args))`, which assumes  f(args) == body(args)  (DESIGN G4)."""

    def __init__(self, name, fn, argtypes, rettype, body=None):
        self.name = name
        self.fn = fn
        self.argtypes = argtypes
        self.rettype = rettype
        self.body = body

    def unfold(self, *terms):
        return self.fn(*terms) == self.body(*terms)

    def __call__(self, eng, *args):
        if len(args) != len(self.argtypes):
            raise Unsupported('spec function %s arity' % self.name)
        ts = [eng.coerce(a, ty) for a, ty in zip(args, self.argtypes)]
        return self.rettype.wrap(self.fn(*ts))


class Helper(object):
    """A python-level helper usable in contract expressions: fn(engine, *values) -> value."""

    def __init__(self, fn):
        self.fn = fn


class Loop(object):
    def __init__(self, inv=(), variant=None, types=None, index=None, label=None, ghost_pre=None,
                 ghost_step=None, modifies=(), ghost_begin=None):
        self.inv = list(inv)
        self.variant = variant
        self.types = dict(types or {})
        self.index = index
        self.label = label
        self.ghost_pre = ghost_pre or []    # statements (python source) run before the loop on ghost vars
        self.ghost_step = ghost_step or []  # ghost statements run at the end of each iteration
        self.modifies = tuple(modifies)     # names whose objects are changed by calls in the body (not visible syntactically)
        self.ghost_begin = ghost_begin or []  # ghost statements run at the start of each iteration (snapshots)


class Contract(object):
    """Sidecar contract of one real function."""

    def __init__(self, qualname, params, requires=(), ensures=(), loops=(), result=None,
                 raises=None, modifies=(), env=None, lemmas=(), pure=True, yields=None,
                 self_type=None, notes=None, old=(), may_raise=None, hints=None, pow2=(), uses=None, source=None, result_cases=()):
        self.qualname = qualname          # 'calmjs.parse.vlq:encode_vlq'
        self.params = params              # ordered dict name -> T | OneOf
        self.requires = list(requires)
        self.ensures = list(ensures)
        self.loops = list(loops)
        self.result = result              # T of the result for callers (modular use)
        self.raises = dict(raises or {})  # exception class name -> condition (python expr over params) allowed
        self.modifies = list(modifies)
        self.env = dict(env or {})
        self.yields = yields              # elem T if generator
        self.notes = notes
        self.old = list(old)
        self.hints = dict(hints or {})    # lineno-free hints: {'assume_after:<stmt ordinal>': [...]}
        self.pow2 = tuple(pow2)           # names of int variables carrying a ghost 2**n companion
        self.uses = dict(uses or {})      # where -> [lemma instance expressions] (proved lemmas only)
        self.source = source              # glue harness source (composition lemmas over contracts), not repo code
        self.result_cases = list(result_cases)   # [(condition expr, result expr)]: exact result by cases (used by callers, proved for the body)

    @property
    def module(self):
        return self.qualname.split(':')[0]

    @property
    def funcname(self):
        return self.qualname.split(':')[1]


class Obligation(object):
    __slots__ = ('name', 'premises', 'goal', 'kind', 'path', 'line')

    def __init__(self, name, premises, goal, kind, path, line=None):
        self.name = name
        self.premises = premises
        self.goal = goal
        self.kind = kind
        self.path = path
        self.line = line


LOG_NAMES = ('logger',)
STR_REPEAT = z3.Function('str_repeat', z3.StringSort(), z3.IntSort(), z3.StringSort())

PURE_STR_METHODS = ('join', 'split', 'startswith', 'endswith', 'strip', 'rstrip', 'lstrip', 'lower',
                    'upper', 'replace', 'splitlines', 'format', 'find', 'index', 'count', 'isdigit',
                    'encode', 'rsplit', 'partition', 'rpartition', 'isspace')


def is_generator_def(node):
    """does this function definition itself (not a function nested in it) contain a yield"""
    stack = list(node.body)
    while stack:
        n = stack.pop()
        if isinstance(n, (ast.Yield, ast.YieldFrom)):
            return True
        if isinstance(n, (ast.FunctionDef, ast.Lambda, ast.ClassDef)):
            continue
        stack.extend(ast.iter_child_nodes(n))
    return False


def has_sym(v):
    if isinstance(v, (tuple, list)):
        return any(has_sym(x) for x in v)
    return is_sym(v) or isinstance(v, (PList, PDict, PObj, PGen, PMap, PSymSet))


def is_pow2(n):
    return isinstance(n, int) and n > 0 and (n & (n - 1)) == 0


class Engine(object):
    """Explores all paths of one function under one type case."""

    MAX_PATHS = 4000
    MAX_UNROLL = 64

    def __init__(self, contract, registry, fnode, module, source_lines=None, feas_timeout=2000):
        self.c = contract
        self.registry = registry          # qualname -> Contract, for modular calls
        self.fnode = fnode
        self.module = module              # the real imported module
        self.obligations = []
        self.covers = []                  # (name, premises) that must be satisfiable
        self.trusted_used = {}            # assumed model -> count
        self.paths = 0
        self.feas_timeout = feas_timeout
        self._solver = z3.Solver()
        self._feas_timeout = feas_timeout
        self._solver.set('timeout', feas_timeout)
        self.returns_seen = set()
        self.raise_seen = set()
        self.laws_used = {}

    # ------------------------------------------------------------------ paths
    def explore(self, typecase):
        """typecase: dict param -> T.  Runs all paths."""
        stack = [[]]
        while stack:
            prefix = stack.pop()
            self.paths += 1
            if self.paths > self.MAX_PATHS:
                raise Unsupported('more than %d paths' % self.MAX_PATHS)
            self.trail = list(prefix)
            self.replay_len = len(prefix)     # decisions forced by the prefix: what is recorded before they are used up
            self.pos = 0                      # was recorded by the path this one forked from (deterministic re-execution)
            self.alts = []
            self.pc = []
            self._solver.reset()
            self._solver.set('timeout', self._feas_timeout)
            self._asserted = 0
            self.path_id = ''.join('T' if d else 'F' for d in prefix)
            self.loop_ordinal = {}
            try:
                self.run_function(typecase)
            except PathEnd:
                pass
            for a in self.alts:
                stack.append(a)

    def feasible(self, extra):
        # the path condition only grows along a path: it is asserted incrementally, the question is pushed on top
        s = self._solver
        n = getattr(self, '_asserted', 0)
        if n is None or n > len(self.pc):      # the path condition was cut back (local scopes of the comprehension model)
            s.reset()
            s.set('timeout', self._feas_timeout)
            n = 0
        while n < len(self.pc):
            s.add(self.pc[n])
            n += 1
        self._asserted = n
        s.push()
        try:
            s.add(extra)
            r = s.check()
        finally:
            s.pop()
        return r != z3.unsat

    def decide(self, cond, free=False):
        """Branch on a z3 Bool.  Returns the python bool taken on this path.  `free`: cond is a fresh constant, so both
        branches are feasible whenever the path is (no solver call needed)."""
        if isinstance(cond, bool):
            return cond
        sc = z3.simplify(cond)
        if z3.is_true(sc):
            return True
        if z3.is_false(sc):
            return False
        if self.pos < len(self.trail):
            d = self.trail[self.pos]
            self.pos += 1
            self.pc.append(cond if d else z3.Not(cond))
            return d
        t_ok = True if free else self.feasible(cond)
        f_ok = True if free else self.feasible(z3.Not(cond))
        if not t_ok and not f_ok:
            raise PathEnd()
        if t_ok and f_ok:
            self.alts.append(self.trail[:self.pos] + [False])
        d = t_ok
        self.trail.append(d)
        self.pos += 1
        self.pc.append(cond if d else z3.Not(cond))
        return d

    def decide_free(self, label):
        """Non-deterministic choice (e.g. 'this external call raises')."""
        b = z3.FreshConst(z3.BoolSort(), label)
        return self.decide(b, free=True)

    def assume(self, cond):
        if isinstance(cond, bool):
            if not cond:
                raise PathEnd()
            return
        self.pc.append(cond)

    def oblige(self, name, cond, kind='assert', line=None):
        """Record obligation pc => cond, then continue under cond."""
        if isinstance(cond, bool):
            cond = z3.BoolVal(cond)
        if self.pos >= getattr(self, 'replay_len', 0):
            self.obligations.append(Obligation(name, list(self.pc), cond, kind, self.path_id, line))
        self.pc.append(cond)

    def cover(self, name):
        if self.pos >= getattr(self, 'replay_len', 0):
            self.covers.append((name, list(self.pc)))

    # ------------------------------------------------------------------ values
    def coerce(self, v, ty):
        """z3 term of value v at type ty."""
        if isinstance(ty, ListOf):
            if isinstance(v, PList):
                return ty.seq.unwrap(v.val)
            return ty.seq.unwrap(v)
        if ty is Str and isinstance(v, SEnc):
            return v.alpha.strfn(v.t)
        if isinstance(ty, Seq):
            if isinstance(v, SEnc) and ty.et is Int:
                return v.t
            if isinstance(v, PList):
                return ty.unwrap(v.val)
            if isinstance(v, PGen):
                return ty.unwrap(v.items)
            return ty.unwrap(v)
        return ty.unwrap(v)

    def truth(self, v):
        """z3 Bool (or python bool) for the truthiness of v."""
        if isinstance(v, SBool):
            return v.t
        if isinstance(v, SInt):
            return v.t != 0
        if isinstance(v, SStr):
            return z3.Length(v.t) != 0
        if isinstance(v, (SSeq, SEnc)):
            return z3.Length(v.t) != 0
        if isinstance(v, PAbsSeq):
            return v.n != 0
        if isinstance(v, PList) and isinstance(v.val, FoldAbs):
            return v.val.n != 0
        if isinstance(v, PList):
            return self.truth(v.val) if isinstance(v.val, SSeq) else bool(v.val)
        if isinstance(v, (PDict, PSet)):
            return bool(v.val)
        if isinstance(v, PObj) and isinstance(v.cls, type):
            # Python asks __bool__, then __len__: a class that defines one of them decides the truth of its instances
            for special in ('__bool__', '__len__'):
                if isinstance(v.fields.get(special), PExt):
                    r = self.call(v.fields[special], [], {}, None)
                    return self.truth(r) if special == '__bool__' else self.truth(self.compare(ast.NotEq(), r, 0))
                if any(special in vars(k) for k in v.cls.__mro__ if k is not object):
                    r = self.call_method(v, special, [], {}, None)
                    return self.truth(r) if special == '__bool__' else self.truth(self.compare(ast.NotEq(), r, 0))
            return True
        if isinstance(v, (PObj, PFunc, PBound, PExc)):
            return True
        if isinstance(v, PMap):
            return v.size != 0
        if isinstance(v, PSymSet):
            x = z3.FreshConst(z3.StringSort(), 'member')
            return z3.Exists([x], z3.Select(v.arr, x))
        if isinstance(v, Sym):
            raise Unsupported('truth of %r' % v)
        return bool(v)

    def branch(self, v):
        return self.decide(self.truth(v))

    def fresh(self, ty, name):
        if isinstance(ty, OneOf):
            opts = list(ty.alts)
            for o in opts[:-1]:
                if self.decide_free('oneof_' + name):
                    return self.fresh(o, name)
            return self.fresh(opts[-1], name)
        if isinstance(ty, Const):
            return ty.value
        if callable(getattr(ty, 'make', None)):
            if getattr(ty, 'wants_engine', False):
                return ty.make(name, self)
            return ty.make(name)
        if isinstance(ty, ListOf):
            v = ty.seq.fresh(name)
            return PList(v)
        v = ty.fresh(name)
        return v

    # ------------------------------------------------------------------ run
    def run_function(self, typecase):
        c = self.c
        frame = Frame(vars={})
        self.entry = {}
        self.iter_log = []
        reset = c.env.get('__reset__')
        if reset is not None:
            reset()
        for pname, ty in typecase.items():
            if isinstance(ty, SameAs):
                v = frame.vars[ty.other]
                frame.vars[pname] = v
                self.entry[pname] = self.entry[ty.other]
                continue
            v = self.fresh(ty, pname)
            frame.vars[pname] = v
            if isinstance(ty, T):
                for fact in ty.facts(v):
                    self.assume(fact)
            for fact in getattr(v, 'entry_facts', ()):
                self.assume(fact)
            if isinstance(v, PList):
                self.entry[pname] = PList(v.val if isinstance(v.val, SSeq) else list(v.val))
            elif isinstance(v, PObj):
                self.entry[pname] = self.snapshot_obj(v)
            else:
                self.entry[pname] = v
            if pname in c.pow2 and isinstance(v, SInt):
                v.pow2 = z3.FreshConst(z3.IntSort(), 'pow2_' + pname)
        # parameters of the real function the contract does not list take their default value (a call without them)
        fa = getattr(self.fnode, 'args', None)
        if fa is not None and not c.source:
            pos = list(fa.posonlyargs) + list(fa.args)
            dflt = dict(zip([a.arg for a in pos[len(pos) - len(fa.defaults):]], fa.defaults))
            dflt.update((a.arg, d) for a, d in zip(fa.kwonlyargs, fa.kw_defaults) if d is not None)
            for a in pos + list(fa.kwonlyargs):
                if a.arg not in frame.vars and a.arg in dflt:
                    frame.vars[a.arg] = self.ev(dflt[a.arg], Frame(vars={}))
                    self.entry[a.arg] = frame.vars[a.arg]
        self.frame0 = frame
        # parameter names in postconditions / raises-conditions denote the values passed in (objects by
        # reference, so in-place mutation is visible); rebinding a parameter inside the body does not
        # change what the contract talks about
        self.params0 = dict(frame.vars)
        self.yields = PList([]) if c.yields is not None else None
        if isinstance(c.yields, FoldSpec):
            # what the generator yields is abstracted by its length, last element and the contract's folds
            z0 = dict((k, z3.IntVal(0)) for k in c.yields.folds)
            self.yields = PList(FoldAbs(c.yields, z3.IntVal(0), z3.IntVal(0), None, z0))
        for g in c.hints.get('ghost_init', ()):        # ghost variables defined on every path (also early returns)
            self.exec_ghost(g, frame)
        for i, r in enumerate(c.requires):
            self.assume(self.coerce(self.ev_spec(r, frame), Bool))
        self.use_lemmas('entry', frame)
        self.cover('%s.pre' % c.funcname)
        result = None
        exc = None
        try:
            self.exec_block(self.fnode.body, frame)
        except _Return as r:
            result = r.value
        except PyRaise as r:
            exc = r.exc
        if exc is not None:
            self.check_raise(exc, frame)
            return
        if self.yields is not None:
            result = PGen(self.yields.val) if not isinstance(self.yields.val, FoldAbs) else PList(self.yields.val)
        self.cover('%s.return' % c.funcname)
        post = Frame(parent=frame, vars=dict(self.params0, result=result))
        self.use_lemmas('post', post)
        for i, e in enumerate(c.ensures):
            try:
                goal = self.coerce(self.ev_spec(e, post), Bool)
            except PyRaise as r:
                # the clause cannot even be evaluated on the state the function left behind (a missing attribute, key or index):
                # it does not hold.  (On the unchanged tree every clause evaluates; this only arises when the code changed.)
                self.trusted_used['post-condition not evaluable: %s' % (getattr(r.exc.cls, '__name__', r.exc.cls),)] = 1
                goal = z3.BoolVal(False)
            self.oblige('%s.post.%d' % (c.funcname, i), goal, kind='post')
        if c.result_cases:
            matched = False
            for i, (cond, expr) in enumerate(c.result_cases):
                ct = self.coerce(self.ev_spec(cond, Frame(parent=self.entry_frame())), Bool)
                if self.decide(ct):
                    want = self.ev_spec(expr, Frame(parent=self.entry_frame()))
                    eq = self.compare(ast.Eq(), result, want)
                    self.oblige('%s.result.case%d' % (c.funcname, i),
                                z3.BoolVal(eq) if isinstance(eq, bool) else eq.t, kind='post')
                    matched = True
                    break
            if not matched:
                self.oblige('%s.result.cases_exhaustive' % c.funcname, z3.BoolVal(False), kind='post')

    def snapshot_obj(self, o):
        c = PObj(o.cls, name=o.name)
        for k, v in o.fields.items():
            if isinstance(v, PList):
                c.fields[k] = self.snapshot_list(v)
            elif isinstance(v, PObj):
                c.fields[k] = v              # referenced objects keep their identity (snapshot is one level deep)
            elif isinstance(v, PDict):
                c.fields[k] = PDict(v.val)
            elif isinstance(v, (PMap, PSymSet)):
                c.fields[k] = v.copy()
            else:
                c.fields[k] = v
        return c

    def snapshot_list(self, v):
        if isinstance(v.val, (SSeq, FoldAbs)):
            return PList(v.val)          # immutable abstractions: a mutation replaces .val
        return PList([self.snapshot_list(x) if isinstance(x, PList) else x for x in v.val])

    def check_raise(self, exc, frame):
        c = self.c
        name = exc.cls if isinstance(exc.cls, str) else exc.cls.__name__
        names = [name] + [b.__name__ for b in getattr(exc.cls, '__mro__', ())[1:]] if not isinstance(exc.cls, str) else [name]
        for n in names:
            if n in c.raises:
                cond = c.raises[n]
                if cond is True:
                    self.oblige('%s.raises.%s' % (c.funcname, n), z3.BoolVal(True), kind='raises')
                    self.cover('%s.raise.%s' % (c.funcname, n))
                    return
                f = Frame(parent=self.frame0, vars=dict(self.params0, __exc__=exc))
                self.oblige('%s.raises.%s' % (c.funcname, n), self.coerce(self.ev_spec(cond, f), Bool),
                            kind='raises')
                self.cover('%s.raise.%s' % (c.funcname, n))
                return
        # an exception the contract does not allow: the path must be infeasible
        if name == 'AttributeError' and exc.tag and getattr(exc, 'unmodelled', False):
            # the code reads state the contract does not talk about: its result depends on more than the contract's frame
            self.oblige('%s.frame.reads_unmodelled_state[%s]' % (c.funcname, exc.tag), z3.BoolVal(False), kind='frame')
            return
        self.oblige('%s.no_%s%s' % (c.funcname, name, ('.' + exc.tag) if exc.tag else ''),
                    z3.BoolVal(False), kind='safety')

    def use_lemmas(self, where, frame):
        for u in self.c.uses.get(where, ()):
            self.assume(self.coerce(self.ev_spec(u, frame), Bool))

    def entry_frame(self):
        return Frame(vars=dict(self.entry))

    # ------------------------------------------------------------------ spec expressions
    def ev_spec(self, src, frame):
        """Evaluate a contract expression (python source) in `frame` + contract env."""
        node = src if isinstance(src, ast.AST) else ast.parse(src.strip(), mode='eval').body
        envf = Frame(parent=frame)
        envf.is_spec = True
        saved = getattr(self, 'in_spec', False)
        self.in_spec = True
        try:
            return self.ev(node, envf)
        finally:
            self.in_spec = saved

    def exec_ghost(self, src, frame):
        tree = ast.parse(src.strip())
        saved = getattr(self, 'in_spec', False)
        self.in_spec = True
        try:
            self.exec_block(tree.body, frame)
        finally:
            self.in_spec = saved

    # ------------------------------------------------------------------ statements
    def exec_block(self, stmts, frame):
        for s in stmts:
            self.exec_stmt(s, frame)

    def exec_stmt(self, s, frame):
        m = getattr(self, 'st_' + type(s).__name__, None)
        if m is None:
            raise Unsupported('statement %s at line %s' % (type(s).__name__, getattr(s, 'lineno', '?')))
        return m(s, frame)

    def st_Expr(self, s, frame):
        if isinstance(s.value, ast.Constant):
            return  # docstring
        if isinstance(s.value, (ast.Yield,)):
            v = self.ev(s.value.value, frame) if s.value.value is not None else None
            self.do_yield(v)
            return
        if self.is_logging(s.value):
            return
        self.ev(s.value, frame)

    def is_logging(self, e):
        return (isinstance(e, ast.Call) and isinstance(e.func, ast.Attribute) and
                isinstance(e.func.value, ast.Name) and e.func.value.id in LOG_NAMES)

    def do_yield(self, v):
        if self.yields is None:
            raise Unsupported('yield in a function whose contract has no `yields`')
        if isinstance(self.yields.val, list):
            self.yields.val.append(v)
            return
        self.list_append(self.yields, v, None if isinstance(self.c.yields, FoldSpec) else self.c.yields)

    def st_Pass(self, s, frame):
        pass

    def st_Assign(self, s, frame):
        v = self.ev(s.value, frame)
        for tgt in s.targets:
            self.assign(tgt, v, frame)

    def st_AnnAssign(self, s, frame):
        if s.value is not None:
            self.assign(s.target, self.ev(s.value, frame), frame)

    def st_AugAssign(self, s, frame):
        if isinstance(s.target, ast.Name):
            cur = self.ev(ast.Name(id=s.target.id, ctx=ast.Load()), frame)
            v = self.binop(s.op, cur, self.ev(s.value, frame))
            self.assign(s.target, v, frame)
        elif isinstance(s.target, ast.Subscript):
            obj = self.ev(s.target.value, frame)
            idx = self.ev_index(s.target.slice, frame)
            cur = self.subscript(obj, idx, s)
            v = self.binop(s.op, cur, self.ev(s.value, frame))
            self.store_subscript(obj, idx, v, s)
        elif isinstance(s.target, ast.Attribute):
            obj = self.ev(s.target.value, frame)
            cur = self.getattr(obj, s.target.attr)
            v = self.binop(s.op, cur, self.ev(s.value, frame))
            self.setattr(obj, s.target.attr, v)
        else:
            raise Unsupported('augassign target')

    def assign(self, tgt, v, frame):
        if isinstance(tgt, ast.Name):
            if tgt.id in self.c.pow2:
                if isinstance(v, int) and not isinstance(v, bool) and v >= 0:
                    v = SInt(z3.IntVal(v), pow2=z3.IntVal(2 ** v))
                elif not (isinstance(v, SInt) and v.pow2 is not None):
                    raise Unsupported('assignment to 2**n-tracked variable %s loses the ghost' % tgt.id)
            frame.store(tgt.id, v)
        elif isinstance(tgt, (ast.Tuple, ast.List)):
            vals = self.unpack(v, len(tgt.elts))
            for t, x in zip(tgt.elts, vals):
                self.assign(t, x, frame)
        elif isinstance(tgt, ast.Subscript):
            obj = self.ev(tgt.value, frame)
            if isinstance(tgt.slice, ast.Slice):
                sl = tgt.slice
                if sl.lower is None and sl.upper is None and sl.step is None and isinstance(obj, PList):
                    obj.val = self.list_contents(v)
                    return
                raise Unsupported('slice assignment')
            idx = self.ev_index(tgt.slice, frame)
            self.store_subscript(obj, idx, v, tgt)
        elif isinstance(tgt, ast.Attribute):
            obj = self.ev(tgt.value, frame)
            self.setattr(obj, tgt.attr, v)
        else:
            raise Unsupported('assignment target %s' % type(tgt).__name__)

    def list_contents(self, v):
        if isinstance(v, PObj) and isinstance(v.fields.get('__iter__'), PExt):
            return self.iter_contents(v)
        if isinstance(v, PList):
            return list(v.val) if isinstance(v.val, list) else v.val
        if isinstance(v, (list, tuple)):
            return list(v)
        if isinstance(v, SSeq):
            return v
        if isinstance(v, PGen):
            return list(v.items) if isinstance(v.items, list) else v.items
        if isinstance(v, (SEncMap,)):
            return v
        raise Unsupported('list contents of %r' % (v,))

    def unpack(self, v, n):
        if isinstance(v, (tuple, list)):
            if len(v) != n:
                raise PyRaise(PExc(ValueError, tag='unpack'))
            return list(v)
        if isinstance(v, PList) and isinstance(v.val, list):
            if len(v.val) != n:
                raise PyRaise(PExc(ValueError, tag='unpack'))
            return list(v.val)
        raise Unsupported('unpack of %r' % (v,))

    def st_Return(self, s, frame):
        raise _Return(self.ev(s.value, frame) if s.value is not None else None)

    def st_If(self, s, frame):
        if self.branch(self.ev(s.test, frame)):
            self.exec_block(s.body, frame)
        else:
            self.exec_block(s.orelse, frame)

    def st_Break(self, s, frame):
        raise _Break()

    def st_Continue(self, s, frame):
        raise _Continue()

    def st_Raise(self, s, frame):
        if s.exc is None:
            raise PyRaise(frame.lookup('__current_exc__'))
        v = self.ev(s.exc, frame)
        if isinstance(v, type) and issubclass(v, BaseException):
            v = PExc(v)
        if not isinstance(v, PExc):
            raise Unsupported('raise of %r' % (v,))
        raise PyRaise(v)

    def st_FunctionDef(self, s, frame):
        frame.store(s.name, PFunc(s, frame, s.name))

    def st_Nonlocal(self, s, frame):
        frame.nonlocal_names.update(s.names)

    def st_Global(self, s, frame):
        raise Unsupported('global statement')

    def st_Assert(self, s, frame):
        v = self.ev(s.test, frame)
        if getattr(self, 'in_spec', False):
            label = s.msg.value if isinstance(s.msg, ast.Constant) else ast.unparse(s.test)[:60]
            self.oblige('%s.ghost_assert[%s]' % (self.c.funcname, label), self.coerce_bool(v), kind='assert')
            return
        self.oblige('%s.assert@%d' % (self.c.funcname, s.lineno - self.fnode.lineno),
                    self.coerce_bool(v), kind='safety')

    def coerce_bool(self, v):
        t = self.truth(v)
        return z3.BoolVal(t) if isinstance(t, bool) else t

    def st_Delete(self, s, frame):
        for tgt in s.targets:
            if isinstance(tgt, ast.Subscript):
                obj = self.ev(tgt.value, frame)
                idx = self.ev_index(tgt.slice, frame)
                if isinstance(obj, PObj) and isinstance(obj.fields.get('__delitem__'), PExt):
                    self.call(obj.fields['__delitem__'], [idx], {}, s)
                    continue
                if isinstance(obj, PDict) and not is_sym(idx):
                    if idx not in obj.val:
                        raise PyRaise(PExc(KeyError, tag='del'))
                    del obj.val[idx]
                    continue
            raise Unsupported('del target')

    # real implementation of try with finally: separate so PathEnd skips the finally block
    def st_ImportFrom(self, s, frame):
        mods = self.c.env.get('__modules__', {})
        if s.module not in mods:
            raise Unsupported('import of %s inside the function (no model in __modules__)' % s.module)
        m = mods[s.module]
        if m is ImportError:
            raise PyRaise(PExc(ImportError, tag=s.module))
        for a in s.names:
            frame.store(a.asname or a.name, self.getattr(m, a.name))

    def st_Import(self, s, frame):
        mods = self.c.env.get('__modules__', {})
        for a in s.names:
            if a.name not in mods:
                raise Unsupported('import of %s inside the function (no model in __modules__)' % a.name)
            if mods[a.name] is ImportError:
                raise PyRaise(PExc(ImportError, tag=a.name))
            frame.store(a.asname or a.name.split('.')[0], mods[a.name])

    def st_Try(self, s, frame):
        pending = None
        try:
            try:
                self.exec_block(s.body, frame)
            except PyRaise as r:
                handled = False
                for h in s.handlers:
                    if self.exc_matches(r.exc, h.type, frame):
                        handled = True
                        if h.name:
                            frame.store(h.name, r.exc)
                        saved = frame.vars.get('__current_exc__')
                        frame.vars['__current_exc__'] = r.exc
                        try:
                            self.exec_block(h.body, frame)
                        finally:
                            frame.vars['__current_exc__'] = saved
                        break
                if not handled:
                    raise
            else:
                self.exec_block(s.orelse, frame)
        except (PyRaise, _Return, _Break, _Continue) as e:
            pending = e
        if s.finalbody:
            self.exec_block(s.finalbody, frame)   # an exception here replaces `pending`, as in Python
        if pending is not None:
            raise pending

    def exc_matches(self, exc, tnode, frame):
        if tnode is None:
            return True
        t = self.ev(tnode, frame)
        classes = t if isinstance(t, tuple) else (t,)
        for cls in classes:
            if isinstance(exc.cls, str):
                if getattr(cls, '__name__', cls) == exc.cls:
                    return True
            elif isinstance(cls, type) and issubclass(exc.cls, cls):
                return True
        return False

    # ------------------------------------------------------------------ loops
    def loop_contract(self, node):
        k = sum(1 for n in self._loops_in_order() if n.lineno < node.lineno or
                (n.lineno == node.lineno and n.col_offset < node.col_offset))
        if k < len(self.c.loops):
            return k, self.c.loops[k]
        return k, None

    def _loops_in_order(self):
        if not hasattr(self, '_loops'):
            self._loops = [n for n in ast.walk(self.fnode) if isinstance(n, (ast.While, ast.For))]
            self._loops.sort(key=lambda n: (n.lineno, n.col_offset))
        return self._loops

    def written_names(self, body):
        """Names assigned, and names whose object is mutated, in a loop body (syntactic)."""
        assigned, mutated = set(), set()
        for st in body:
            for n in ast.walk(st):
                if isinstance(n, (ast.Assign, ast.AugAssign, ast.AnnAssign)):
                    tgts = n.targets if isinstance(n, ast.Assign) else [n.target]
                    for t in tgts:
                        for x in ast.walk(t):
                            if isinstance(x, ast.Name) and isinstance(x.ctx, ast.Store):
                                assigned.add(x.id)
                            elif isinstance(x, (ast.Subscript, ast.Attribute)) and isinstance(x.ctx, ast.Store):
                                b = x.value
                                while isinstance(b, (ast.Subscript, ast.Attribute)):
                                    b = b.value
                                if isinstance(b, ast.Name):
                                    mutated.add(b.id)
                elif isinstance(n, ast.For):
                    for x in ast.walk(n.target):
                        if isinstance(x, ast.Name):
                            assigned.add(x.id)
                elif isinstance(n, ast.Call) and isinstance(n.func, ast.Attribute):
                    if n.func.attr in ('append', 'extend', 'insert', 'pop', 'remove', 'clear', 'update',
                                       'add', 'setdefault', 'sort', 'reverse', 'discard'):
                        b = n.func.value
                        while isinstance(b, (ast.Subscript, ast.Attribute)):
                            b = b.value
                        if isinstance(b, ast.Name):
                            mutated.add(b.id)
                elif isinstance(n, (ast.Yield, ast.YieldFrom)):
                    mutated.add('__yields__')
                elif isinstance(n, ast.Call) and isinstance(n.func, ast.Name):
                    # call of a local closure: its writes count too
                    pass
        return assigned, mutated

    def havoc(self, names_assigned, names_mutated, L, frame, tag):
        for name in sorted(names_assigned):
            if not frame.has(name) and name not in L.types:
                continue
            ty = L.types.get(name)
            if ty == 'same_kind':
                if not frame.has(name):
                    continue
                cur = frame.lookup(name)
                if cur is None or cur is NotImplemented:
                    continue                 # None stays None in this loop (its type is part of the case split)
                ty = type_of_value(cur)
            if ty is None:
                cur = frame.lookup(name)
                if isinstance(cur, PList):
                    raise Unsupported('loop havoc: list %s needs a type in the loop contract' % name)
                if isinstance(cur, (PObj, PDict, PFunc)) or cur is None or isinstance(cur, (tuple,)):
                    raise Unsupported('loop havoc: variable %s (%r) needs a type in the loop contract' % (name, cur))
                ty = type_of_value(cur)
            v = self.fresh(ty, '%s_%s' % (name, tag))
            if name in self.c.pow2 and isinstance(v, SInt):
                v.pow2 = z3.FreshConst(z3.IntSort(), 'pow2_%s_%s' % (name, tag))
                self.assume(z3.Implies(v.t >= 0, v.pow2 >= 1))     # 2**n >= 1 for n >= 0
            frame.store(name, v)
        for name in sorted(names_mutated):
            if name == '__yields__':
                obj, ty = self.yields, (self.c.yields if isinstance(self.c.yields, FoldSpec) else ListOf(self.c.yields))
            else:
                if name in names_assigned:
                    continue
                # (a recording double the contract keeps in its environment may be named in Loop(modifies=...) too)
                obj = frame.lookup(name) if frame.has(name) or name not in self.c.env else self.c.env[name]
                ty = L.types.get(name)
            if isinstance(obj, PList):
                if ty is None:
                    raise Unsupported('loop havoc: list %s needs a type in the loop contract' % name)
                if isinstance(ty, FoldSpec):
                    obj.val = ty.fresh('%s_%s' % (name, tag))
                    self.assume(obj.val.n >= 0)
                    if ty.kinds:
                        self.assume(z3.Or(*[obj.val.last_kind == k for k in ty.kinds]))
                elif callable(getattr(ty, 'havoc_list', None)):
                    obj.val = ty.havoc_list(self, '%s_%s' % (name, tag))
                else:
                    obj.val = ty.seq.fresh('%s_%s' % (name, tag))
            elif isinstance(obj, PObj) and callable(getattr(L.types.get(name), 'havoc_obj', None)):
                L.types[name].havoc_obj(self, obj, '%s_%s' % (name, tag))
            elif isinstance(obj, PObj):
                fields = L.types.get(name)
                if not isinstance(fields, dict):
                    raise Unsupported('loop havoc: object %s needs field types' % name)
                for fname, fty in fields.items():
                    obj.fields[fname] = self.fresh(fty, '%s_%s_%s' % (name, fname, tag))
            else:
                raise Unsupported('loop havoc of %r' % (obj,))

    def check_inv(self, L, k, frame, phase):
        for i, inv in enumerate(L.inv):
            self.oblige('%s.loop%d.%s.inv%d' % (self.c.funcname, k, phase, i),
                        self.coerce(self.ev_spec(inv, frame), Bool), kind='inv')

    def st_While(self, s, frame):
        k, L = self.loop_contract(s)
        if L is None:
            return self.unroll_while(s, frame)
        for g in L.ghost_pre:
            self.exec_ghost(g, frame)
        self.check_inv(L, k, frame, 'entry')
        assigned, mutated = self.written_names(s.body)
        for g in L.ghost_step:
            a2, m2 = self.written_names(ast.parse(g.strip()).body)
            assigned |= a2
            mutated |= m2
        mutated |= set(L.modifies)
        self.havoc(assigned, mutated, L, frame, 'l%d' % k)
        for inv in L.inv:
            self.assume(self.coerce(self.ev_spec(inv, frame), Bool))
        if self.branch(self.ev(s.test, frame)):
            self.cover('%s.loop%d.body' % (self.c.funcname, k))
            self.use_lemmas('loop%d.body' % k, frame)
            v0 = self.coerce(self.ev_spec(L.variant, frame), Int) if L.variant else None
            try:
                self.exec_block(s.body, frame)
            except _Continue:
                pass
            except _Break:
                return
            for g in L.ghost_step:
                self.exec_ghost(g, frame)
            self.use_lemmas('loop%d.preserve' % k, frame)
            self.check_inv(L, k, frame, 'preserve')
            if v0 is not None:
                v1 = self.coerce(self.ev_spec(L.variant, frame), Int)
                self.oblige('%s.loop%d.variant' % (self.c.funcname, k), z3.And(v0 >= 0, v1 < v0),
                            kind='variant')
            raise PathEnd()
        else:
            self.use_lemmas('loop%d.exit' % k, frame)
            self.exec_block(s.orelse, frame)

    def unroll_while(self, s, frame):
        n = 0
        while True:
            if not self.branch(self.ev(s.test, frame)):
                self.exec_block(s.orelse, frame)
                return
            n += 1
            if n > self.MAX_UNROLL:
                raise Unsupported('while loop without invariant exceeds unroll bound')
            try:
                self.exec_block(s.body, frame)
            except _Continue:
                continue
            except _Break:
                return

    def st_For(self, s, frame):
        it = self.ev(s.iter, frame)
        k, L = self.loop_contract(s)
        seq = self.iter_contents(it)
        if isinstance(seq, list):
            # concrete spine: unrolled exactly (complete, not bounded: the length is concrete)
            for x in seq:
                self.assign(s.target, x, frame)
                try:
                    self.exec_block(s.body, frame)
                except _Continue:
                    continue
                except _Break:
                    return
            self.exec_block(s.orelse, frame)
            return
        if L is None:
            raise Unsupported('for loop over symbolic sequence at line %d needs a loop contract' % s.lineno)
        idx = L.index or '_k'
        frame.store('_iter%d' % k, PList(seq) if isinstance(seq, SSeq) else seq)     # the iterated sequence, for invariants
        for g in L.ghost_pre:
            self.exec_ghost(g, frame)
        frame.store(idx, 0)
        self.check_inv(L, k, frame, 'entry')
        assigned, mutated = self.written_names(s.body)
        for g in list(L.ghost_step) + list(L.ghost_begin):
            a2, m2 = self.written_names(ast.parse(g.strip()).body)
            assigned |= a2
            mutated |= m2
        for x in ast.walk(s.target):
            if isinstance(x, ast.Name):
                assigned.discard(x.id)
        mutated |= set(L.modifies)
        self.havoc(assigned, mutated, L, frame, 'l%d' % k)
        kv = SInt(z3.FreshConst(z3.IntSort(), idx))
        frame.store(idx, kv)
        n = self.seq_len(seq)
        self.assume(z3.And(kv.t >= 0, kv.t <= n))
        for inv in L.inv:
            self.assume(self.coerce(self.ev_spec(inv, frame), Bool))
        if self.decide(kv.t < n):
            self.cover('%s.loop%d.body' % (self.c.funcname, k))
            self.assign(s.target, self.seq_at(seq, kv.t), frame)
            for g in L.ghost_begin:
                self.exec_ghost(g, frame)
            self.use_lemmas('loop%d.body' % k, frame)
            try:
                self.exec_block(s.body, frame)
            except _Continue:
                pass
            except _Break:
                return
            for g in L.ghost_step:
                self.exec_ghost(g, frame)
            frame.store(idx, SInt(kv.t + 1))
            self.use_lemmas('loop%d.preserve' % k, frame)
            self.check_inv(L, k, frame, 'preserve')
            raise PathEnd()
        else:
            self.use_lemmas('loop%d.exit' % k, frame)
            self.exec_block(s.orelse, frame)

    def iter_contents(self, it):
        """list of values (concrete spine) or a symbolic sequence value (SSeq / SStr)."""
        if isinstance(it, PList):
            return list(it.val) if isinstance(it.val, list) else it.val
        if isinstance(it, PGen):
            return list(it.items) if isinstance(it.items, list) else it.items
        if isinstance(it, (list, tuple)):
            return list(it)
        if isinstance(it, (str,)):
            return list(it)
        if isinstance(it, (SSeq, SStr, SEnc, SEncMap, PAbsSeq, PEnum)):
            return it
        if isinstance(it, PObj) and isinstance(it.fields.get('__iter__'), PExt):
            return self.iter_contents(self.call(it.fields['__iter__'], [], {}, None))
        if isinstance(it, SOpaque) and callable(self.c.env.get('__iter_opaque__')):
            return self.c.env['__iter_opaque__'](self, it)
        if isinstance(it, PDict):
            return list(it.val.keys())
        if isinstance(it, (frozenset, set, dict, range)):
            return list(it)
        if isinstance(it, PMapItems):
            # model of dict iteration (assumed): a sequence of (key, value) pairs, each an item of the dict; that every key
            # comes up exactly once is part of the model and not used by the engine
            m = it.m
            self.iter_log.append(m)          # ghost: which tables were iterated on this path (for 'the loop ran over ...' postconditions)
            K = z3.Function('item_key_%d' % len(self.pc), z3.IntSort(), z3.StringSort())
            V = z3.Function('item_value_%d' % len(self.pc), z3.IntSort(), z3.IntSort())
            key = 'model:dict-iteration (pairs are items of the dict, every key once)'
            self.trusted_used[key] = self.trusted_used.get(key, 0) + 1
            return PAbsSeq('items', kinds=(2,), width=2, elem=lambda i, kind: (SStr(K(i)), SInt(V(i))),
                           elem_facts=lambda el: [z3.Select(m.dom, el[0].t), z3.Select(m.val, el[0].t) == el[1].t])
        raise Unsupported('iteration over %r' % (it,))

    def seq_len(self, seq):
        if isinstance(seq, list):
            return len(seq)
        if isinstance(seq, PAbsSeq):
            return seq.n
        if isinstance(seq, PEnum):
            return z3.Length(seq.seq.t)
        return z3.Length(seq.t)

    def seq_at(self, seq, i):
        """element at (non-negative, in range) index term i."""
        if isinstance(seq, PEnum):
            return (SInt(i if not isinstance(i, int) else z3.IntVal(i)), self.seq_at(seq.seq, i))
        if isinstance(seq, PAbsSeq):
            self.assume(z3.Or(*[seq.kind(i) == k for k in seq.kinds]))     # type invariant of the sequence
            for k in seq.kinds:
                if k == seq.kinds[-1] or self.decide(seq.kind(i) == k):
                    if k == seq.kinds[-1]:
                        self.assume(seq.kind(i) == k)
                    elem = seq.elem(i, k) if seq.elem is not None else tuple(SInt(seq.f[j](i)) for j in range(k))
                    if seq.elem_facts is not None:
                        for fact in seq.elem_facts(elem):
                            self.assume(fact)
                    return elem
        if isinstance(seq, SStr):
            return SStr(z3.SubString(seq.t, i, 1))
        if isinstance(seq, SEnc):
            d = seq.t[i]
            self.assume(z3.And(d >= 0, d < seq.alpha.n))   # instance of the type invariant of `seq`
            return SEnc(z3.Unit(d), seq.alpha)
        return seq.et.wrap(seq.t[i])

    # ------------------------------------------------------------------ expressions
    def ev(self, e, frame):
        m = getattr(self, 'ex_' + type(e).__name__, None)
        if m is None:
            raise Unsupported('expression %s at line %s' % (type(e).__name__, getattr(e, 'lineno', '?')))
        return m(e, frame)

    def ex_Constant(self, e, frame):
        return e.value

    def ex_Name(self, e, frame):
        name = e.id
        if name == '_out' and getattr(self, 'in_spec', False) and self.yields is not None:
            # a value, not the live list: ghost snapshots (out0 = _out) must not alias what is yielded later
            return PList(self.yields.val if isinstance(self.yields.val, (SSeq, FoldAbs)) else list(self.yields.val))
        if frame.has(name):
            return frame.lookup(name)
        if name == '__debug__':
            # how the interpreter was started (-O) is not something a contract may depend on: an arbitrary boolean
            return SBool(z3.Const('interpreter_debug_flag', z3.BoolSort()))
        if name in self.c.env:
            return self.c.env[name]
        if hasattr(self.module, name):
            return getattr(self.module, name)
        if name == 'str' or name == 'unicode':
            return str
        if hasattr(builtins, name):
            return getattr(builtins, name)
        raise Unsupported('unbound name %s' % name)

    def ex_Tuple(self, e, frame):
        return tuple(self.ev(x, frame) for x in e.elts)

    def ex_List(self, e, frame):
        return PList([self.ev(x, frame) for x in e.elts])

    def ex_Dict(self, e, frame):
        d = PDict()
        for k, v in zip(e.keys, e.values):
            kk = self.ev(k, frame)
            if is_sym(kk):
                if len(e.keys) == 1 and isinstance(kk, SStr):
                    # {key: n} with a symbolic string key: a str -> int table with one entry
                    vv = self.ev(v, frame)
                    if isinstance(vv, (int, SInt)) and not isinstance(vv, bool):
                        S_ = z3.StringSort()
                        return PMap(z3.Store(z3.K(S_, z3.BoolVal(False)), kk.t, z3.BoolVal(True)),
                                    z3.Store(z3.K(S_, z3.IntVal(0)), kk.t, Int.unwrap(vv)), z3.IntVal(1))
                raise Unsupported('symbolic dict key in display')
            d.val[kk] = self.ev(v, frame)
        return d

    def ex_Set(self, e, frame):
        return PSet([self.ev(x, frame) for x in e.elts])

    def ex_IfExp(self, e, frame):
        if self.branch(self.ev(e.test, frame)):
            return self.ev(e.body, frame)
        return self.ev(e.orelse, frame)

    def ex_BoolOp(self, e, frame):
        if getattr(self, 'in_spec', False):
            # contract expressions: concrete operands short-circuit as in Python, symbolic ones combine logically
            is_and = isinstance(e.op, ast.And)
            terms = []
            for x in e.values:
                v = self.ev(x, frame)
                if isinstance(v, SBool):
                    terms.append(v.t)
                    continue
                if is_sym(v) or isinstance(v, (PObj, PList, PDict)):
                    t = self.truth(v)
                    if isinstance(t, bool):
                        v = t
                    else:
                        terms.append(t)
                        continue
                if is_and and not v:
                    return False if terms or isinstance(v, bool) else v
                if not is_and and v:
                    return True if terms or isinstance(v, bool) else v
            if not terms:
                return is_and
            return SBool(z3.And(*terms) if is_and else z3.Or(*terms))
        v = None
        for x in e.values:
            v = self.ev(x, frame)
            t = self.branch(v)
            if isinstance(e.op, ast.And) and not t:
                return v
            if isinstance(e.op, ast.Or) and t:
                return v
        return v

    def ex_UnaryOp(self, e, frame):
        v = self.ev(e.operand, frame)
        if isinstance(e.op, ast.Not):
            t = self.truth(v)
            return (not t) if isinstance(t, bool) else SBool(z3.Not(t))
        if isinstance(e.op, ast.USub):
            if isinstance(v, SInt):
                return SInt(-v.t)
            return -v
        if isinstance(e.op, ast.UAdd):
            return v
        raise Unsupported('unary %s' % type(e.op).__name__)

    def ex_BinOp(self, e, frame):
        return self.binop(e.op, self.ev(e.left, frame), self.ev(e.right, frame), e)

    def ex_Compare(self, e, frame):
        left = self.ev(e.left, frame)
        result = None
        for op, rn in zip(e.ops, e.comparators):
            right = self.ev(rn, frame)
            r = self.compare(op, left, right)
            if result is None:
                result = r
            else:
                if isinstance(result, bool) and isinstance(r, bool):
                    result = result and r
                else:
                    result = SBool(z3.And(term_of(result), term_of(r)))
            left = right
        return result

    def ex_Lambda(self, e, frame):
        fd = ast.FunctionDef(name='<lambda>', args=e.args, body=[ast.Return(value=e.body)],
                             decorator_list=[], lineno=e.lineno, col_offset=e.col_offset)
        return PFunc(fd, frame, '<lambda>')

    def ex_Attribute(self, e, frame):
        obj = self.ev(e.value, frame)
        return self.getattr(obj, e.attr)

    def ex_Subscript(self, e, frame):
        obj = self.ev(e.value, frame)
        if isinstance(e.slice, ast.Slice):
            lo = self.ev(e.slice.lower, frame) if e.slice.lower is not None else None
            hi = self.ev(e.slice.upper, frame) if e.slice.upper is not None else None
            if e.slice.step is not None:
                raise Unsupported('slice step')
            return self.slice(obj, lo, hi)
        idx = self.ev_index(e.slice, frame)
        return self.subscript(obj, idx, e)

    def ev_index(self, sl, frame):
        return self.ev(sl, frame)

    def ex_JoinedStr(self, e, frame):
        raise Unsupported('f-string')

    def ex_GeneratorExp(self, e, frame):
        return self.comprehension(e, frame, as_list=False)

    def ex_ListComp(self, e, frame):
        return self.comprehension(e, frame, as_list=True)

    def ex_SetComp(self, e, frame):
        return self.comprehension(e, frame, as_list='set')

    def ex_DictComp(self, e, frame):
        return self.comprehension(e, frame, as_list='dict')

    def ex_Call(self, e, frame):
        if self.is_logging(e):
            return None
        # special forms of the contract language
        if isinstance(e.func, ast.Name) and getattr(self, 'in_spec', False):
            nm = e.func.id
            if nm == 'old':
                return self.ev(e.args[0], Frame(parent=None, vars=dict(self.entry, **self.spec_env_vars())))
            if nm == 'forall' or nm == 'exists':
                return self.quantifier(nm, e, frame)
            if nm == 'implies':
                av = self.ev(e.args[0], frame)
                if not is_sym(av) and not isinstance(av, (PObj, PList, PDict)) and not av:
                    return True                      # concretely false antecedent: consequent not evaluated
                a = self.coerce(av if isinstance(av, (SBool, bool)) else bool(self.truth(av)) if not is_sym(av) else av, Bool)
                b = self.coerce(self.ev(e.args[1], frame), Bool)
                return SBool(z3.Implies(a, b))
            if nm == 'unfold':
                call = e.args[0]
                fn = self.ev(call.func, frame)
                if not isinstance(fn, SpecFn) or fn.body is None:
                    raise Unsupported('unfold of something that is not a defined spec function')
                vals = [self.ev(a, frame) for a in call.args]
                ts = [self.coerce(a, ty) for a, ty in zip(vals, fn.argtypes)]
                return SBool(fn.unfold(*ts))
            if nm == 'pow2of':
                v = self.ev(e.args[0], frame)
                if isinstance(v, int):
                    return 2 ** v
                if v.pow2 is None:
                    raise Unsupported('pow2of: value has no 2**n ghost')
                return SInt(v.pow2)
            if nm == 'ite':
                c = self.coerce(self.ev(e.args[0], frame), Bool)
                a = self.ev(e.args[1], frame)
                b = self.ev(e.args[2], frame)
                ty = type_of_value(a) if is_sym(a) else type_of_value(b)
                return ty.wrap(z3.If(c, self.coerce(a, ty), self.coerce(b, ty)))
        fn = self.ev(e.func, frame)
        args = []
        for a in e.args:
            if isinstance(a, ast.Starred):
                v = self.ev(a.value, frame)
                args.extend(self.iter_contents(v))
            else:
                args.append(self.ev(a, frame))
        kwargs = {}
        for kw in e.keywords:
            if kw.arg is None:
                d = self.ev(kw.value, frame)
                d = d.val if isinstance(d, PDict) else d
                if not isinstance(d, dict) or not all(isinstance(k_, str) for k_ in d):
                    raise Unsupported('**kwargs call with a symbolic mapping')
                kwargs.update(d)
                continue
            kwargs[kw.arg] = self.ev(kw.value, frame)
        return self.call(fn, args, kwargs, e)

    def spec_env_vars(self):
        return {}

    def quantifier(self, nm, e, frame):
        lam = e.args[0]
        if not isinstance(lam, ast.Lambda):
            raise Unsupported('forall needs a lambda')
        names = [a.arg for a in lam.args.args]
        bound = [z3.FreshConst(z3.IntSort(), n) for n in names]
        f = Frame(parent=frame, vars={n: SInt(b) for n, b in zip(names, bound)})
        body = self.coerce(self.ev(lam.body, f), Bool)
        return SBool(z3.ForAll(bound, body) if nm == 'forall' else z3.Exists(bound, body))

    # ------------------------------------------------------------------ operators
    def set_array(self, v):
        """z3 membership array of a set-like value of strings, or None"""
        if isinstance(v, PSymSet):
            return v.arr
        if isinstance(v, PMap):
            return v.dom
        if isinstance(v, PSet):
            v = v.val
        if isinstance(v, (set, frozenset, list, tuple)):
            arr = z3.K(z3.StringSort(), z3.BoolVal(False))
            for x in v:
                if not isinstance(x, (str, SStr)):
                    return None
                arr = z3.Store(arr, term_of(x), z3.BoolVal(True))
            return arr
        return None

    def binop(self, op, a, b, node=None):
        if (isinstance(a, (PSymSet, PSet)) and isinstance(b, (PSymSet, PSet))) and (
                isinstance(a, PSymSet) or isinstance(b, PSymSet) or any(is_sym(x) for x in a.val) or any(is_sym(x) for x in b.val)):
            ta, tb = self.set_array(a), self.set_array(b)
            fn = {'BitAnd': z3.SetIntersect, 'BitOr': z3.SetUnion, 'Sub': z3.SetDifference}.get(type(op).__name__)
            if ta is None or tb is None or fn is None:
                raise Unsupported('set operator %s on %r, %r' % (type(op).__name__, a, b))
            return PSymSet(fn(ta, tb))
        if isinstance(a, PSet) and isinstance(b, PSet):
            # sets of concrete hashable values only (symbolic members would need equality case splits)
            if any(is_sym(x) for x in a.val) or any(is_sym(x) for x in b.val):
                raise Unsupported('set operator over symbolic members')
            import operator
            fn = {'BitAnd': operator.and_, 'BitOr': operator.or_, 'Sub': operator.sub, 'BitXor': operator.xor}.get(type(op).__name__)
            if fn is None:
                raise Unsupported('set operator %s' % type(op).__name__)
            return PSet(fn(a.val, b.val))
        if isinstance(a, PList) or isinstance(b, PList) or isinstance(a, SSeq) or isinstance(b, SSeq):
            if isinstance(op, ast.Add):
                return self.seq_concat(a, b)
            if isinstance(op, ast.Mult) and isinstance(a, PList) and isinstance(a.val, list) and isinstance(b, int) and not isinstance(b, bool):
                return PList(list(a.val) * b)        # the same element objects, repeated (as in Python)
            raise Unsupported('list operator %s' % type(op).__name__)
        if not is_sym(a) and not is_sym(b):
            return self.concrete_binop(op, a, b)
        if isinstance(a, SEnc) and isinstance(b, SEnc) and a.alpha is b.alpha and isinstance(op, ast.Add):
            return SEnc(z3.Concat(a.t, b.t), a.alpha)
        if isinstance(a, (SStr, str)) and isinstance(b, (SStr, str)):
            if isinstance(op, ast.Add):
                return SStr(z3.Concat(term_of(a), term_of(b)))
            raise Unsupported('str operator')
        if isinstance(op, ast.Mult) and (isinstance(a, (SStr, str)) and isinstance(b, (SInt, int))) and (is_sym(a) or is_sym(b)):
            st, n = term_of(a), Int.unwrap(b)
            r = STR_REPEAT(st, n)
            # facts of str.__mul__ (assumed model `str-repeat`): length, emptiness, non-positive counts
            self.assume(z3.Length(r) == z3.If(n > 0, z3.Length(st) * n, 0))
            self.assume(z3.Implies(n <= 0, r == z3.StringVal('')))
            self.assume(z3.Implies(n == 1, r == st))
            self.trusted_used['model:str-repeat'] = self.trusted_used.get('model:str-repeat', 0) + 1
            return SStr(r)
        ta, tb = Int.unwrap(a), Int.unwrap(b)
        k = type(op).__name__
        if k == 'Add':
            r = SInt(ta + tb)
            # ghost 2**n companion: n + c
            if isinstance(a, SInt) and a.pow2 is not None and isinstance(b, int) and b >= 0:
                r.pow2 = a.pow2 * (2 ** b)
            elif isinstance(b, SInt) and b.pow2 is not None and isinstance(a, int) and a >= 0:
                r.pow2 = b.pow2 * (2 ** a)
            return r
        if k == 'Sub':
            return SInt(ta - tb)
        if k == 'Mult':
            return SInt(ta * tb)
        if k == 'FloorDiv' or k == 'Mod':
            if isinstance(b, int) and b > 0:
                return SInt(ta / tb) if k == 'FloorDiv' else SInt(ta % tb)
            if isinstance(b, int) and b == 0:
                raise PyRaise(PExc(ZeroDivisionError))
            raise Unsupported('division by a non-constant or negative divisor')
        if k == 'LShift':
            # BL1: x << n == x * 2**n  (n >= 0)
            if isinstance(b, int):
                if b < 0:
                    raise PyRaise(PExc(ValueError, tag='negative shift'))
                self.law('BL1')
                r = SInt(ta * (2 ** b))
                return r
            if isinstance(b, SInt) and b.pow2 is not None:
                self.oblige('%s.shift_nonneg@%s' % (self.c.funcname, self.rel(node)), b.t >= 0, 'safety')
                self.law('BL1')
                return SInt(ta * b.pow2, mult=b.pow2)
            raise Unsupported('<< by a symbolic amount without a 2**n ghost (contract `pow2`)')
        if k == 'RShift':
            if isinstance(b, int):
                if b < 0:
                    raise PyRaise(PExc(ValueError, tag='negative shift'))
                self.law('BL2')
                return SInt(ta / (2 ** b))
            raise Unsupported('>> by a symbolic amount')
        if k == 'BitAnd':
            c, x = (b, ta) if isinstance(b, int) else ((a, tb) if isinstance(a, int) else (None, None))
            if c is None:
                raise Unsupported('& of two symbolic ints')
            if c >= 0 and is_pow2(c + 1):
                self.law('BL3')           # x & (2**k - 1) == x mod 2**k   (all ints, two's complement)
                return SInt(x % (c + 1))
            if is_pow2(c):
                self.law('BL5')           # x & 2**k == 2**k * ((x div 2**k) mod 2)
                return SInt(c * ((x / c) % 2))
            raise Unsupported('& with constant %r' % c)
        if k == 'BitOr':
            # BL4: a | b == a + b when P | a, 0 <= b < P, P a power of two
            for (x, y, tx, ty) in ((a, b, ta, tb), (b, a, tb, ta)):
                if isinstance(x, int) and x >= 0:
                    # largest power of two dividing x (x == 0: result is y)
                    if x == 0:
                        return SInt(ty)
                    P = x & (-x)
                    self.oblige('%s.or_disjoint@%s' % (self.c.funcname, self.rel(node)),
                                z3.And(ty >= 0, ty < P), 'law-side-condition')
                    self.law('BL4')
                    return SInt(tx + ty)
                if isinstance(x, SInt) and x.mult is not None:
                    self.oblige('%s.or_disjoint@%s' % (self.c.funcname, self.rel(node)),
                                z3.And(ty >= 0, ty < x.mult), 'law-side-condition')
                    self.law('BL4')
                    return SInt(tx + ty)
            raise Unsupported('| without a known power-of-two alignment')
        raise Unsupported('int operator %s' % k)

    def rel(self, node):
        if node is None or not hasattr(node, 'lineno'):
            return '?'
        return 'L%d' % (node.lineno - self.fnode.lineno)

    def law(self, name):
        self.laws_used[name] = self.laws_used.get(name, 0) + 1

    def concrete_binop(self, op, a, b):
        import operator
        table = {'Add': operator.add, 'Sub': operator.sub, 'Mult': operator.mul, 'FloorDiv': operator.floordiv,
                 'Mod': operator.mod, 'LShift': operator.lshift, 'RShift': operator.rshift,
                 'BitAnd': operator.and_, 'BitOr': operator.or_, 'BitXor': operator.xor,
                 'Pow': operator.pow, 'Div': operator.truediv}
        k = type(op).__name__
        if isinstance(a, (PObj, PDict, PFunc)) or isinstance(b, (PObj, PDict, PFunc)):
            raise Unsupported('operator on objects')
        if k == 'Mod' and isinstance(a, str):
            args = b if isinstance(b, tuple) else (b,)
            if any(is_sym(x) or isinstance(x, (PObj, PList, PDict, PExc)) for x in args):
                return SStr(z3.FreshConst(z3.StringSort(), 'fmt'))
            return a % b
        try:
            return table[k](a, b)
        except ZeroDivisionError:
            raise PyRaise(PExc(ZeroDivisionError))
        except TypeError:
            raise PyRaise(PExc(TypeError, tag='binop'))

    def seq_concat(self, a, b):
        la = self.list_contents(a) if not isinstance(a, SSeq) else a
        lb = self.list_contents(b) if not isinstance(b, SSeq) else b
        if isinstance(la, list) and isinstance(lb, list):
            return PList(la + lb)
        et = la.et if isinstance(la, SSeq) else lb.et
        ty = Seq(et)
        ta, tb = ty.unwrap(la), ty.unwrap(lb)
        if isinstance(la, list) and not la:
            return SSeq(tb, et)
        if isinstance(lb, list) and not lb:
            return SSeq(ta, et)
        return SSeq(z3.Concat(ta, tb), et)

    def compare(self, op, a, b):
        k = type(op).__name__
        if k in ('Is', 'IsNot'):
            if is_sym(a) or is_sym(b):
                # identity of symbolic scalars with None/NotImplemented etc. is false (types are concrete)
                if a is None or b is None or a is NotImplemented or b is NotImplemented:
                    r = False
                elif isinstance(a, SOpaque) and isinstance(b, SOpaque) and a.ty.name == b.ty.name:
                    r = SBool(a.t == b.t)
                    return r if k == 'Is' else SBool(z3.Not(r.t))
                elif a is b:
                    r = True
                elif (isinstance(a, SStr) or isinstance(b, SStr)) and all(isinstance(x, (SStr, str)) for x in (a, b)):
                    # identity of strings: undetermined, but identical strings are equal
                    ident = z3.FreshConst(z3.BoolSort(), 'is')
                    ta = a.t if isinstance(a, SStr) else z3.StringVal(a)
                    tb = b.t if isinstance(b, SStr) else z3.StringVal(b)
                    self.assume(z3.Implies(ident, ta == tb))
                    r = SBool(ident)
                    return r if k == 'Is' else SBool(z3.Not(ident))
                else:
                    raise Unsupported('identity comparison of symbolic values')
            else:
                r = a is b
            return r if k == 'Is' else (not r)
        if k in ('Eq', 'NotEq') and (isinstance(a, (PObj, PExt)) or isinstance(b, (PObj, PExt))):
            r = a is b
            return r if k == 'Eq' else (not r)
        if k in ('Eq', 'NotEq') and isinstance(a, PSet) and isinstance(b, PSet) and not any(is_sym(x) for x in a.val | b.val):
            return (a.val == b.val) == (k == 'Eq')
        if k not in ('In', 'NotIn') and (isinstance(a, PSymSet) or isinstance(b, PSymSet)):
            ta, tb = self.set_array(a), self.set_array(b)
            if ta is None or tb is None:
                if k in ('Eq', 'NotEq'):
                    return k == 'NotEq'
                raise PyRaise(PExc(TypeError, tag='set comparison'))
            if k in ('Eq', 'NotEq'):
                return SBool(ta == tb if k == 'Eq' else ta != tb)
            if k in ('LtE', 'GtE'):
                return SBool(z3.IsSubset(ta, tb) if k == 'LtE' else z3.IsSubset(tb, ta))
            raise Unsupported('set comparison %s' % k)
        if k in ('Eq', 'NotEq') and (isinstance(a, SChar) or isinstance(b, SChar)):
            def cp(x):
                if isinstance(x, SChar):
                    return x.t
                if isinstance(x, str) and len(x) == 1:
                    return z3.IntVal(ord(x))
                return None
            ca, cb = cp(a), cp(b)
            if ca is None or cb is None:
                if isinstance(a, str) or isinstance(b, str):
                    return k == 'NotEq'       # a one-character string never equals a string of another length
                raise Unsupported('comparison of a character with %r' % ((b if isinstance(a, SChar) else a),))
            return SBool(ca == cb if k == 'Eq' else ca != cb)
        if k in ('In', 'NotIn'):
            r = self.contains(b, a)
            if k == 'In':
                return r
            return (not r) if isinstance(r, bool) else SBool(z3.Not(r.t))
        if (not has_sym(a) and not has_sym(b) and not isinstance(a, (PList, PDict, PGen))
                and not isinstance(b, (PList, PDict, PGen))):
            import operator
            f = {'Eq': operator.eq, 'NotEq': operator.ne, 'Lt': operator.lt, 'LtE': operator.le,
                 'Gt': operator.gt, 'GtE': operator.ge}[k]
            try:
                return f(a, b)
            except TypeError:
                raise PyRaise(PExc(TypeError, tag='compare'))
        # symbolic
        if isinstance(a, (PList, SSeq, PGen)) or isinstance(b, (PList, SSeq, PGen)):
            other = b if isinstance(a, (PList, SSeq, PGen)) else a
            if other is None or isinstance(other, (str, int, PObj, SOpaque)) and k in ('Eq', 'NotEq'):
                return k == 'NotEq'           # a list never equals None, a string, a number or an object
            la = self.list_contents(a) if not isinstance(a, SSeq) else a
            lb = self.list_contents(b) if not isinstance(b, SSeq) else b
            if isinstance(la, list) and isinstance(lb, list):
                if len(la) != len(lb):
                    r = False
                else:
                    parts = [self.compare(ast.Eq(), x, y) for x, y in zip(la, lb)]
                    r = SBool(z3.And(*[z3.BoolVal(p) if isinstance(p, bool) else p.t for p in parts])) if parts else True
            else:
                et = la.et if isinstance(la, SSeq) else lb.et
                ty = Seq(et)
                r = SBool(ty.unwrap(la) == ty.unwrap(lb))
            if k == 'Eq':
                return r
            if k == 'NotEq':
                return (not r) if isinstance(r, bool) else SBool(z3.Not(r.t))
            raise Unsupported('ordering of lists')
        if a is None or b is None:
            # symbolic value vs None: never equal (types are concrete per case)
            if k == 'Eq':
                return False
            if k == 'NotEq':
                return True
            raise PyRaise(PExc(TypeError, tag='compare None'))
        if isinstance(a, tuple) or isinstance(b, tuple):
            if isinstance(a, tuple) and isinstance(b, tuple) and k in ('Eq', 'NotEq'):
                if len(a) != len(b):
                    r = False
                else:
                    parts = [self.compare(ast.Eq(), x, y) for x, y in zip(a, b)]
                    if all(isinstance(p, bool) for p in parts):
                        r = all(parts)
                    else:
                        r = SBool(z3.And(*[z3.BoolVal(p) if isinstance(p, bool) else p.t for p in parts]))
                if k == 'Eq':
                    return r
                return (not r) if isinstance(r, bool) else SBool(z3.Not(r.t))
            if k == 'Eq':
                return False
            if k == 'NotEq':
                return True
            raise Unsupported('tuple ordering')
        if isinstance(a, SEnc) or isinstance(b, SEnc):
            x, y = (a, b) if isinstance(a, SEnc) else (b, a)
            if k not in ('Eq', 'NotEq'):
                raise Unsupported('ordering of alphabet strings')
            if isinstance(y, str):
                ds = x.alpha.digits_of(y)
                r = False if ds is None else SBool(x.t == Seq(Int).unwrap(ds))
            elif isinstance(y, SEnc) and y.alpha is x.alpha:
                r = SBool(x.t == y.t)       # the alphabet is a bijection (checked concretely)
            elif isinstance(y, SStr):
                r = SBool(x.alpha.strfn(x.t) == y.t)
            else:
                r = False
            if k == 'Eq':
                return r
            return (not r) if isinstance(r, bool) else SBool(z3.Not(r.t))
        sa = isinstance(a, (SStr, str))
        sb = isinstance(b, (SStr, str))
        if sa != sb:
            if k == 'Eq':
                return False
            if k == 'NotEq':
                return True
            raise PyRaise(PExc(TypeError, tag='compare'))
        if isinstance(a, SOpaque) or isinstance(b, SOpaque):
            if isinstance(a, SOpaque) and isinstance(b, SOpaque) and k in ('Eq', 'NotEq'):
                r = a.t == b.t
                return SBool(r if k == 'Eq' else z3.Not(r))
            raise Unsupported('comparison of opaque value')
        ta, tb = term_of(a), term_of(b)
        if sa:
            if k == 'Eq':
                return SBool(ta == tb)
            if k == 'NotEq':
                return SBool(ta != tb)
            raise Unsupported('string ordering')
        if z3.is_bool(ta):
            ta = z3.If(ta, 1, 0)
        if z3.is_bool(tb):
            tb = z3.If(tb, 1, 0)
        return SBool({'Eq': ta == tb, 'NotEq': ta != tb, 'Lt': ta < tb, 'LtE': ta <= tb,
                      'Gt': ta > tb, 'GtE': ta >= tb}[k])

    def contains(self, container, x):
        if isinstance(container, PObj) and isinstance(container.fields.get('__contains__'), PExt):
            return self.call(container.fields['__contains__'], [x], {}, None)
        if isinstance(container, PMap):
            return SBool(z3.Select(container.dom, term_of(x)))
        if isinstance(container, PSymSet):
            if not isinstance(x, (str, SStr)):
                raise Unsupported('membership of %r in a set of str' % (x,))
            return SBool(z3.Select(container.arr, term_of(x)))
        if isinstance(container, PList) and isinstance(container.val, list):
            container = container.val
        if isinstance(container, PDict):
            container = list(container.val.keys())
        if isinstance(container, PSet):
            container = list(container.val)
        if isinstance(container, (dict,)):
            container = list(container.keys())
        if isinstance(container, (tuple, list, set, frozenset)):
            items = list(container)
            modelled = (PList, PDict, PGen, PSet)
            if not is_sym(x) and not any(is_sym(i) for i in items) and not isinstance(x, modelled) and not any(isinstance(i, modelled) for i in items):
                return x in container
            parts = []
            for i in items:
                r = self.compare(ast.Eq(), x, i)
                if r is True:
                    return True
                if r is False:
                    continue
                parts.append(r.t)
            if not parts:
                return False
            return SBool(z3.Or(*parts))
        if isinstance(container, str) and isinstance(x, SChar):
            cps = sorted(set(ord(c_) for c_ in container))
            return SBool(z3.Or(*[x.t == c_ for c_ in cps])) if cps else False
        if isinstance(container, str) and isinstance(x, SStr):
            return SBool(z3.Contains(z3.StringVal(container), x.t))
        if isinstance(container, SStr):
            return SBool(z3.Contains(container.t, term_of(x)))
        if isinstance(container, str) and isinstance(x, str):
            return x in container
        raise Unsupported('membership in %r' % (container,))

    # ------------------------------------------------------------------ subscripts / attributes
    def subscript(self, obj, idx, node=None):
        if isinstance(obj, PGen) and getattr(self, 'in_spec', False):
            obj = PList(obj.items) if isinstance(obj.items, list) else obj.items
        if isinstance(obj, PObj) and isinstance(obj.fields.get('__getitem__'), PExt):
            return self.call(obj.fields['__getitem__'], [idx], {}, node)
        if isinstance(obj, PAbsSeq):
            ti = Int.unwrap(idx)
            if not getattr(self, 'in_spec', False):
                self.oblige('%s.index@%s' % (self.c.funcname, self.rel(node)), z3.And(ti >= -obj.n, ti < obj.n), 'safety')
            return self.seq_at(obj, z3.simplify(z3.If(ti >= 0, ti, ti + obj.n)))
        if isinstance(obj, PText):
            ti = Int.unwrap(idx)
            inb = z3.And(ti >= -obj.n, ti < obj.n)
            if self.c.hints.get('index_raises') and not getattr(self, 'in_spec', False):
                if not self.decide(inb):
                    raise PyRaise(PExc(IndexError, tag='str'))
            elif not getattr(self, 'in_spec', False):
                self.oblige('%s.index@%s' % (self.c.funcname, self.rel(node)), inb, 'safety')
            i = z3.If(ti >= 0, ti, ti + obj.n)
            i = z3.simplify(i)
            cp = obj.ch(i)
            self.assume(z3.And(cp >= 0, cp < 0x110000))
            return SChar(cp)
        if isinstance(obj, PList) and isinstance(obj.val, FoldAbs):
            fa = obj.val
            if is_sym(idx) or idx != -1:
                raise Unsupported('only [-1] of a fold-abstracted list')
            self.oblige('%s.index@%s' % (self.c.funcname, self.rel(node)), fa.n > 0, 'safety')
            if fa.last is None and not fa.spec.kinds:
                raise Unsupported('last element of a fold-abstracted list of opaque values before anything was appended')
            if fa.last is None:
                for k in fa.spec.kinds:
                    if k == fa.spec.kinds[-1] or self.decide(fa.last_kind == k):
                        if k == fa.spec.kinds[-1]:
                            self.assume(fa.last_kind == k)
                        fa.last = tuple(SInt(fa.last_fields[j]) for j in range(k))
                        fa.last_kind = z3.IntVal(k)
                        break
            return fa.last
        if isinstance(obj, PList):
            return self.seq_index(obj.val, idx, node, 'list')
        if isinstance(obj, (tuple, list)):
            return self.seq_index(list(obj), idx, node, 'tuple')
        if isinstance(obj, SSeq):
            return self.seq_index(obj, idx, node, 'seq')
        if isinstance(obj, str):
            if not is_sym(idx):
                try:
                    return obj[idx]
                except IndexError:
                    raise PyRaise(PExc(IndexError, tag='str'))
            n = len(obj)
            self.oblige('%s.index@%s' % (self.c.funcname, self.rel(node)),
                        z3.And(idx.t >= -n, idx.t < n), 'safety')
            i = z3.If(idx.t >= 0, idx.t, idx.t + n)
            alpha = self.alphabet_for(obj)
            if alpha is not None:
                return SEnc(z3.Unit(idx.t if z3.is_true(z3.simplify(idx.t >= 0)) else i), alpha)
            return SStr(z3.SubString(z3.StringVal(obj), i, 1))
        if isinstance(obj, SStr):
            n = z3.Length(obj.t)
            ti = Int.unwrap(idx)
            if self.c.hints.get('index_raises') and not getattr(self, 'in_spec', False):
                # the code relies on IndexError: out-of-range is a path of its own, not an obligation
                if not self.decide(z3.And(ti >= -n, ti < n)):
                    raise PyRaise(PExc(IndexError, tag='str'))
            else:
                self.oblige('%s.index@%s' % (self.c.funcname, self.rel(node)),
                            z3.And(ti >= -n, ti < n), 'safety')
            i = z3.If(ti >= 0, ti, ti + n)
            return SStr(z3.SubString(obj.t, i, 1))
        if isinstance(obj, PMap):
            k = term_of(idx)
            if not getattr(self, 'in_spec', False):
                self.oblige('%s.key@%s' % (self.c.funcname, self.rel(node)), z3.Select(obj.dom, k), 'safety')
            return obj.wrap(z3.Select(obj.val, k))
        if isinstance(obj, PDict):
            obj = obj.val
        if isinstance(obj, dict):
            if not is_sym(idx):
                if idx not in obj:
                    raise PyRaise(PExc(KeyError, tag='dict'))
                return obj[idx]
            return self.dict_lookup_sym(obj, idx, node)
        raise Unsupported('subscript of %r' % (obj,))

    def alphabet_for(self, chars=None, inverse=None):
        for a in self.c.env.values():
            if isinstance(a, Alphabet):
                if chars is not None and a.chars == chars:
                    return a
                if inverse is not None and a.inverse is not None and (a.inverse is inverse or a.inverse == inverse):
                    return a
        return None

    def dict_lookup_sym(self, d, key, node):
        """concrete dict, symbolic key: obligation key present, result = ite chain."""
        if isinstance(key, SEnc):
            alpha = self.alphabet_for(inverse=d)
            if alpha is None or alpha is not key.alpha:
                raise Unsupported('lookup of an alphabet string in an unrelated dict')
            # key is a string over the alphabet: present iff it is exactly one character
            self.oblige('%s.key@%s' % (self.c.funcname, self.rel(node)), z3.Length(key.t) == 1, 'safety')
            if z3.is_app(key.t) and key.t.decl().kind() == z3.Z3_OP_SEQ_UNIT:
                return SInt(key.t.arg(0))
            return SInt(key.t[0])
        items = list(d.items())
        kt = term_of(key)
        keys_ok = z3.Or(*[kt == term_of(k) for k, _ in items if self.same_kind(k, key)])
        self.oblige('%s.key@%s' % (self.c.funcname, self.rel(node)), keys_ok, 'safety')
        vals = [v for _, v in items]
        ty = type_of_value(vals[0])
        res = ty.unwrap(vals[-1])
        for k, v in reversed(items[:-1]):
            if self.same_kind(k, key):
                res = z3.If(kt == term_of(k), ty.unwrap(v), res)
        return ty.wrap(res)

    def same_kind(self, k, key):
        return isinstance(k, str) == isinstance(key, (SStr, str))

    def seq_index(self, val, idx, node, what):
        if isinstance(val, list):
            if not is_sym(idx):
                try:
                    return val[idx]
                except IndexError:
                    raise PyRaise(PExc(IndexError, tag=what))
                except TypeError:
                    raise PyRaise(PExc(TypeError, tag=what))
            try:
                val = SSeq(Seq(Int).unwrap(val), Int)
            except Unsupported:
                if getattr(self, 'in_spec', False):
                    raise Unsupported('symbolic index into a concrete-spine list of non-ints (in a specification)')
                # a list of known length whose elements are not integers: one path per position (the index in range is a
                # safety obligation, as for symbolic sequences)
                n_ = len(val)
                ti = Int.unwrap(idx)
                self.oblige('%s.index@%s' % (self.c.funcname, self.rel(node)), z3.And(ti >= -n_, ti < n_), 'safety')
                for i_ in range(n_):
                    if self.branch(SBool(z3.Or(ti == i_, ti == i_ - n_))):
                        return val[i_]
                raise PyRaise(PExc(IndexError, tag=what))
            if getattr(self, 'in_spec', False):
                n = z3.Length(val.t)
                ti = Int.unwrap(idx)
                return val.et.wrap(val.t[z3.If(ti >= 0, ti, ti + n)])   # specs: total (unspecified outside range)
        n = z3.Length(val.t)
        ti = Int.unwrap(idx)
        if getattr(self, 'in_spec', False):
            return val.et.wrap(val.t[ti] if not isinstance(idx, int) or idx >= 0 else val.t[n + idx])
        self.oblige('%s.index@%s' % (self.c.funcname, self.rel(node)), z3.And(ti >= -n, ti < n), 'safety')
        if isinstance(idx, int):
            i = z3.IntVal(idx) if idx >= 0 else n + idx
        else:
            i = z3.If(ti >= 0, ti, ti + n)
        return val.et.wrap(val.t[i])

    def store_subscript(self, obj, idx, v, node=None):
        if isinstance(obj, PObj) and isinstance(obj.fields.get('__setitem__'), PExt):
            self.call(obj.fields['__setitem__'], [idx, v], {}, node)
            return
        if isinstance(obj, PList):
            if isinstance(obj.val, list):
                if is_sym(idx):
                    raise Unsupported('symbolic index store into concrete-spine list')
                try:
                    obj.val[idx] = v
                except IndexError:
                    raise PyRaise(PExc(IndexError, tag='store'))
                return
            val = obj.val
            n = z3.Length(val.t)
            ti = Int.unwrap(idx)
            self.oblige('%s.index@%s' % (self.c.funcname, self.rel(node)), z3.And(ti >= -n, ti < n), 'safety')
            i = z3.simplify(z3.If(ti >= 0, ti, ti + n)) if not isinstance(idx, int) else (
                z3.IntVal(idx) if idx >= 0 else n + idx)
            new = z3.Concat(z3.Extract(val.t, z3.IntVal(0), i), z3.Unit(val.et.unwrap(v)),
                            z3.Extract(val.t, i + 1, n - i - 1))
            obj.val = SSeq(new, val.et)
            return
        if isinstance(obj, PMap):
            k = term_of(idx)
            obj.size = z3.If(z3.Select(obj.dom, k), obj.size, obj.size + 1)
            obj.dom = z3.Store(obj.dom, k, z3.BoolVal(True))
            obj.val = z3.Store(obj.val, k, obj.unwrap(v))
            return
        if isinstance(obj, PDict):
            if is_sym(idx):
                raise Unsupported('symbolic dict key store')
            obj.val[idx] = v
            return
        if isinstance(obj, (dict, list)):
            self.shared_state_write('subscript store', obj)
        raise Unsupported('subscript store on %r' % (obj,))

    def slice(self, obj, lo, hi):
        if isinstance(obj, PList) and isinstance(obj.val, list) and not is_sym(lo) and not is_sym(hi):
            return PList(obj.val[lo:hi])
        if isinstance(obj, (str, tuple, list)) and not is_sym(lo) and not is_sym(hi):
            return obj[lo:hi]
        if isinstance(obj, PList):
            obj = obj.val
        if isinstance(obj, (SSeq, SStr)):
            n = z3.Length(obj.t)

            def norm(x, default):
                if x is None:
                    return default
                t = Int.unwrap(x)
                t = z3.If(t < 0, z3.If(t + n < 0, 0, t + n), z3.If(t > n, n, t))
                return z3.simplify(t)
            l, h = norm(lo, z3.IntVal(0)), norm(hi, n)
            length = z3.If(h - l < 0, 0, h - l)
            if isinstance(obj, SStr):
                return SStr(z3.SubString(obj.t, l, length))
            return SSeq(z3.Extract(obj.t, l, length), obj.et)
        raise Unsupported('slice of %r' % (obj,))

    def getattr(self, obj, name):
        if not isinstance(name, str):
            raise PyRaise(PExc(TypeError, tag='attribute name must be string'))
        if isinstance(obj, PObj):
            if name in obj.fields:
                v = obj.fields[name]
                if isinstance(v, PLazy):
                    # havoc'd state is materialised (and its cases split) only when the code looks at it
                    v = v.thunk(self)
                    obj.fields[name] = v
                return v
            if name == '__class__':
                return obj.cls
            hook = obj.fields.get('__getattr_hook__')
            if callable(hook):
                return hook(self, obj, name)   # class with __getattr__: modelled by its (separately verified) contract
            cls = obj.cls
            if isinstance(cls, type) and hasattr(cls, name):
                a = inspect.getattr_static(cls, name)
                if isinstance(a, (types.FunctionType,)):
                    return PBound(obj, name)
                if isinstance(a, property):
                    # a property getter of the same class: inlined (its body is part of the verified text)
                    from .. import scratch as _scratch
                    owner = [k for k in cls.__mro__ if name in vars(k)][0]
                    pnode, _, _ = load_function(owner.__module__, owner.__qualname__ + '.' + name, _scratch.scratch_src())
                    saved = self.module
                    self.module = importlib.import_module(owner.__module__)
                    try:
                        return self.call_closure(PFunc(pnode, Frame(), name), [obj], {})
                    finally:
                        self.module = saved
                return a
            if obj.cls is object and not getattr(self, 'in_spec', False):
                # a pure double (stand-in for a library object or a neighbour): the code uses a part of it the contract does not
                # model -- outside the model, i.e. undecided (it may be a perfectly good rewrite), never a frame violation
                raise Unsupported('the code uses .%s of %s, which the contract does not model' % (name, obj.name or 'a double'))
            ex = PExc(AttributeError, tag=name)
            ex.unmodelled = True
            raise PyRaise(ex)
        if isinstance(obj, (PList, PDict, PSet, SStr, SSeq, SInt, PGen, SEnc, PSymSet, PMap)):
            return PBound(obj, name)
        if isinstance(obj, PExc):
            if name == 'args':
                return obj.args
            raise Unsupported('exception attribute %s' % name)
        if isinstance(obj, (str, tuple, dict, list, frozenset, set, int)):
            return PBound(obj, name)
        if isinstance(obj, Sym):
            raise Unsupported('attribute %s of %r' % (name, obj))
        if isinstance(obj, re.Pattern) and name in ('sub', 'subn', 'match', 'search', 'fullmatch', 'findall', 'split'):
            return PBound(obj, name)
        if isinstance(obj, types.ModuleType) or isinstance(obj, type):
            try:
                return getattr(obj, name)
            except AttributeError:
                raise PyRaise(PExc(AttributeError, tag=name))
        if type(obj).__module__.split('.')[0] == self.module.__name__.split('.')[0] and name in getattr(obj, '__dict__', {}):
            # a real instance of a class of the package handed in as a constant (e.g. a rule object of a definition): its
            # plain data attributes are read as they are (never written: stores on such objects stay unsupported)
            v = obj.__dict__[name]
            if v is None or isinstance(v, (str, int, float, bool, tuple, type)):
                return v
        raise Unsupported('attribute %s of %r' % (name, obj))

    def setattr(self, obj, name, v):
        if isinstance(obj, PObj):
            hook = obj.fields.get('__setattr_hook__')
            if callable(hook) and name not in obj.fields:
                hook(self, obj, name, v)       # class with __setattr__: modelled by its (separately verified) contract
                return
            obj.fields[name] = v
            return
        raise Unsupported('attribute store on %r (not an object owned by the function)' % (obj,))

    # ------------------------------------------------------------------ lists
    def list_append(self, lst, v, et=None):
        if isinstance(lst.val, FoldAbs):
            fa = lst.val
            if not fa.spec.kinds:
                # opaque elements: only the length, the last element and the user's folds are tracked
                nf = dict((k, step(fa.folds, v)) for k, step in fa.spec.folds.items())
                new = FoldAbs(fa.spec, fa.n + 1, z3.IntVal(0), None, nf)
                new.last = v
                lst.val = new
                return
            if not isinstance(v, tuple) or len(v) not in fa.spec.kinds:
                raise Unsupported('append of %r to a fold-abstracted list' % (v,))
            nf = dict((k, step(fa.folds, v)) for k, step in fa.spec.folds.items())
            new = FoldAbs(fa.spec, fa.n + 1, z3.IntVal(len(v)), None, nf)
            new.last = v
            lst.val = new
            return
        if isinstance(lst.val, list):
            lst.val.append(v)
            return
        et = lst.val.et
        lst.val = SSeq(z3.Concat(lst.val.t, z3.Unit(et.unwrap(v))), et)

    # ------------------------------------------------------------------ comprehensions
    def comprehension(self, e, frame, as_list):
        if len(e.generators) != 1:
            raise Unsupported('nested comprehension')
        g = e.generators[0]
        it = self.ev(g.iter, frame)
        if isinstance(it, (PSymSet, PMap, PMapItems)):
            return self.symset_comprehension(e, g, it, frame, as_list)
        seq = self.iter_contents(it)
        if isinstance(seq, list):
            out = []
            for x in seq:
                f = Frame(parent=frame)
                self.assign(g.target, x, f)
                ok = True
                for cond in g.ifs:
                    if not self.branch(self.ev(cond, f)):
                        ok = False
                        break
                if ok and as_list == 'dict':
                    out.append((self.ev(e.key, f), self.ev(e.value, f)))
                elif ok:
                    out.append(self.ev(e.elt, f))
            if as_list == 'dict':
                if any(is_sym(k) for k, _ in out):
                    raise Unsupported('dict comprehension with symbolic keys')
                return PDict(dict(out))
            if as_list == 'set':
                if any(is_sym(x) for x in out):
                    arr = self.set_array(out)
                    if arr is None:
                        raise Unsupported('set comprehension with symbolic non-string members')
                    return PSymSet(arr)
                return PSet(out)
            return PList(out) if as_list else PGen(out)
        if as_list in ('set', 'dict'):
            raise Unsupported('set/dict comprehension over %r' % (seq,))
        return self.symbolic_map(e, g, seq, frame, as_list)

    def symset_comprehension(self, e, g, it, frame, kind):
        """Comprehension over a symbolic set / dict (keys) / dict items.  Conditions and element are evaluated once for a
        bound variable v (no branching allowed inside).  Result:
          filter   `x for x in X if c(x)`            -> the set {v | X[v] and c(v)}            (exact)
          dict     `{k: val for k, val in M.items() if c(k)}` -> domain as above, values of M  (exact; size left unconstrained >= 0)
          image    `f(x) for x in X if c(x)`         -> a fresh set R with  X[v] and c(v) => R[f(v)]   (lower bound only:
                                                        enough for 'is contained' postconditions; listed as model)"""
        v = z3.FreshConst(z3.StringSort(), 'bv')
        f = Frame(parent=frame)
        if isinstance(it, PMapItems):
            m = it.m
            member = z3.Select(m.dom, v)
            self.assign(g.target, (SStr(v), SInt(z3.Select(m.val, v))), f)
        else:
            m = None
            member = z3.Select(self.set_array(it), v)
            self.assign(g.target, SStr(v), f)
        pos = self.pos
        conds = [member]
        for cond in g.ifs:
            t = self.truth(self.ev(cond, f))
            conds.append(z3.BoolVal(t) if isinstance(t, bool) else t)
        if isinstance(e, ast.DictComp):
            kv, vv = self.ev(e.key, f), self.ev(e.value, f)
            if self.pos != pos:
                raise Unsupported('branching inside a comprehension over a symbolic set')
            if not (isinstance(kv, SStr) and z3.eq(kv.t, v)):
                raise Unsupported('dict comprehension over a symbolic dict that renames keys')
            dom = z3.Lambda([v], z3.And(*conds))
            size = z3.FreshConst(z3.IntSort(), 'size')
            self.assume(size >= 0)
            return PMap(dom, z3.Lambda([v], Int.unwrap(vv)), size)
        ev = self.ev(e.elt, f)
        if self.pos != pos:
            raise Unsupported('branching inside a comprehension over a symbolic set')
        if not isinstance(ev, (str, SStr)):
            raise Unsupported('comprehension element %r over a symbolic set' % (ev,))
        if isinstance(ev, SStr) and z3.eq(ev.t, v):
            res = PSymSet(z3.Lambda([v], z3.And(*conds)))
        else:
            arr = z3.FreshConst(z3.ArraySort(z3.StringSort(), z3.BoolSort()), 'image')
            self.assume(z3.ForAll([v], z3.Implies(z3.And(*conds), z3.Select(arr, term_of(ev)))))
            key = 'model:set-image (members known from below only)'
            self.trusted_used[key] = self.trusted_used.get(key, 0) + 1
            res = PSymSet(arr)
        if kind == 'set':
            return res
        return PSymGen(res)             # `set(<generator>)` picks this up; nothing else can consume it

    def symbolic_map(self, e, g, seq, frame, as_list):
        """(elt for x in seq) over a symbolic sequence.

        Model (assumed, listed as trusted `genexpr-map`): the comprehension yields elt(seq[j]) for
        j = 0..len-1 in order.  The element expression is evaluated once for a fresh index j
        (so every obligation inside it is universally quantified over j).  Supported shape:
        elt(x) is the one-character alphabet string with digit x  ->  the joined result is the
        alphabet string whose digit sequence is `seq` itself."""
        if g.ifs:
            raise Unsupported('filtered comprehension over a symbolic sequence')
        if not isinstance(seq, SSeq) or seq.et is not Int:
            raise Unsupported('comprehension over symbolic %r' % (seq,))
        mark, pos = len(self.pc), self.pos
        j = z3.FreshConst(z3.IntSort(), 'j')
        self.assume(z3.And(j >= 0, j < z3.Length(seq.t)))
        xe = seq.t[j]
        f = Frame(parent=frame)
        self.assign(g.target, SInt(xe), f)
        f.vars['_j'] = SInt(j)
        self.use_lemmas('map.elem', f)
        v = self.ev(e.elt, f)
        if self.pos != pos:
            raise Unsupported('branching inside the element expression of a symbolic comprehension')
        if not isinstance(v, SEnc):
            raise Unsupported('comprehension element %r over a symbolic sequence' % (v,))
        self.trusted_used['model:genexpr-map'] = self.trusted_used.get('model:genexpr-map', 0) + 1
        fm = self.c.env.get('__flatmap__')
        if fm is not None:
            # elements are strings elem(x); the joined result is flatmap(elem)(seq) -- the contract names
            # the spec function `whole` with  whole(xs) = elem(xs[0]) ++ whole(xs[1:])  and its element function
            elem, whole = fm
            self.oblige('%s.flatmap_elem@%s' % (self.c.funcname, self.rel(e)), v.t == elem(xe),
                        'model-side-condition')
            del self.pc[mark:]
            self._asserted = None
            return PGen(SEncMap(whole(seq.t), v.alpha))
        self.oblige('%s.map_elem@%s' % (self.c.funcname, self.rel(e)), v.t == z3.Unit(xe), 'model-side-condition')
        del self.pc[mark:]
        self._asserted = None
        return PGen(SEncMap(seq.t, v.alpha))

    # ------------------------------------------------------------------ calls
    def call(self, fn, args, kwargs, node):
        if isinstance(fn, SpecFn):
            return fn(self, *args)
        if isinstance(fn, Helper):
            return fn.fn(self, *args)
        if isinstance(fn, PExt):
            if fn.always_raises:
                raise PyRaise(PExc(fn.raises[0], tag=fn.name))
            for exc in fn.raises:
                if self.decide_free('raises_%s_in_%s' % (getattr(exc, '__name__', exc), fn.name)):
                    raise PyRaise(PExc(exc, tag=fn.name))
            self.trusted_used['external:' + fn.name] = self.trusted_used.get('external:' + fn.name, 0) + 1
            return fn.effect(self, args, kwargs) if fn.effect else None
        if hasattr(fn, 'instance') and hasattr(fn, 'statement'):
            ts = [term_of(a) if not isinstance(a, (PList, SSeq, SEnc, PGen)) else self.coerce(a, Seq(Int)) for a in args]
            return SBool(fn.instance(*ts))
        if isinstance(fn, PObj) and isinstance(fn.fields.get('__call__'), PExt):
            return self.call(fn.fields['__call__'], args, kwargs, node)
        if isinstance(fn, PFunc):
            return self.call_closure(fn, args, kwargs)
        if isinstance(fn, PBound):
            return self.call_method(fn.recv, fn.name, args, kwargs, node)
        q = self.qualname_of(fn)
        if isinstance(fn, types.MethodType):
            args = [fn.__self__] + list(args)
        if q is not None and q in self.registry and self.registry[q] is not self.c:
            return self.call_contract(self.registry[q], args, kwargs, node)
        if q is not None and q == self.c.qualname:
            return self.call_contract(self.c, args, kwargs, node)  # recursion: by contract
        if (q is not None and isinstance(fn, types.FunctionType) and fn.__module__ == self.c.module
                and '<locals>' not in fn.__qualname__ and getattr(self, '_inline_depth', 0) < 4):
            # a function of the module under verification without a contract of its own: its body is verified in place
            from .. import scratch as _scratch
            pnode, _, _ = load_function(fn.__module__, fn.__qualname__, _scratch.scratch_src())
            key = 'inlined(no contract of its own):' + q
            self.trusted_used[key] = self.trusted_used.get(key, 0) + 1
            depth = getattr(self, '_inline_depth', 0)
            self._inline_depth = depth + 1
            try:
                return self.call_closure(PFunc(pnode, Frame(), fn.__name__), list(args), kwargs)
            finally:
                self._inline_depth = depth
        return self.call_builtin(fn, args, kwargs, node)

    def qualname_of(self, fn):
        if isinstance(fn, types.FunctionType):
            return '%s:%s' % (fn.__module__, fn.__qualname__)
        if isinstance(fn, types.MethodType):
            return '%s:%s' % (fn.__func__.__module__, fn.__func__.__qualname__)
        return None

    def call_closure(self, fn, args, kwargs):
        node = fn.node
        f = Frame(parent=fn.frame)
        params = [a.arg for a in node.args.args]
        defaults = node.args.defaults
        nd = len(params) - len(defaults)
        for i, p in enumerate(params):
            if i < len(args):
                f.vars[p] = args[i]
            elif p in kwargs:
                f.vars[p] = kwargs[p]
            elif i >= nd:
                f.vars[p] = self.ev(defaults[i - nd], fn.frame)
            else:
                raise PyRaise(PExc(TypeError, tag='missing argument'))
        if is_generator_def(node):
            if not getattr(self, 'in_spec', False):
                raise Unsupported('nested generator function')
            # a generator closure called from a contract expression: evaluated as a whole (what iterating it to the end
            # yields, with the effects of doing so); the code under verification itself never gets this eager reading
            saved = self.yields
            self.yields = PList([])
            try:
                try:
                    self.exec_block(node.body, f)
                except _Return:
                    pass
                return PGen(list(self.yields.val))
            finally:
                self.yields = saved
        try:
            self.exec_block(node.body, f)
        except _Return as r:
            return r.value
        return None

    def call_contract(self, c, args, kwargs, node):
        """Modular call: assert pre, havoc result/modifies, assume post."""
        names = list(c.params.keys())
        vals = {}
        for i, n in enumerate(names):
            if i < len(args):
                vals[n] = args[i]
            elif n in kwargs:
                vals[n] = kwargs[n]
            else:
                raise Unsupported('call of %s: missing argument %s (defaults not modelled)' % (c.funcname, n))
        f = Frame(vars=vals)
        where = self.rel(node)
        saved_c, saved_entry = self.c, getattr(self, 'entry', {})
        callee_frame = Frame(vars=dict(vals))
        # evaluate the callee's clauses in the callee's environment (its env + module)
        self_c = self.c
        try:
            self.c = _ContractView(c, self_c)
            self.entry = dict(vals)
            mod_saved = self.module
            self.module = importlib.import_module(c.module)
            for i, r in enumerate(c.requires):
                self.c = self_c
                t = self._with_contract(c, lambda: self.coerce(self.ev_spec(r, callee_frame), Bool))
                self.oblige('%s.call_%s@%s.pre%d' % (self_c.funcname, c.funcname, where, i), t, 'call-pre')
            self.entry = dict((k, self.snapshot_obj(v) if isinstance(v, PObj) else v) for k, v in vals.items())
            res = None
            picked = False
            if c.result_cases:
                old_frame = Frame(vars=dict(self.entry))
                for cond, expr in c.result_cases:
                    ct = self._with_contract(c, lambda: self.coerce(self.ev_spec(cond, old_frame), Bool))
                    if self.decide(ct):
                        res = self._with_contract(c, lambda: self.ev_spec(expr, old_frame))
                        if c.yields is not None:
                            res = PGen(self.list_contents(res))
                        picked = True
                        break
                if not picked:
                    raise PathEnd()
            for m in c.modifies:
                pname, fname = m.split('.')
                obj = vals[pname]
                cur = obj.fields.get(fname)
                if isinstance(cur, PList):
                    if not isinstance(cur.val, SSeq):
                        cur.val = Seq(Int).wrap(Seq(Int).unwrap(cur.val))
                    cur.val = SSeq(z3.FreshConst(cur.val.t.sort(), '%s_%s' % (pname, fname)), cur.val.et)
                else:
                    obj.fields[fname] = type_of_value(cur).fresh('%s_%s' % (pname, fname))
            if picked:
                pass
            elif c.yields is not None:
                res = PGen(Seq(c.yields).fresh('ret_' + c.funcname))
            elif c.result is None:
                res = None
            else:
                res = self.fresh(c.result, 'ret_' + c.funcname)
            post = Frame(parent=callee_frame, vars={'result': res})
            for e in c.ensures:
                t = self._with_contract(c, lambda: self.coerce(self.ev_spec(e, post), Bool))
                self.assume(t)
        finally:
            self.c = saved_c
            self.entry = saved_entry
            self.module = mod_saved
        self.trusted_used['contract:' + c.qualname] = self.trusted_used.get('contract:' + c.qualname, 0) + 1
        return res

    def _with_contract(self, c, thunk):
        saved = self.c
        self.c = _ContractView(c, saved)
        try:
            return thunk()
        finally:
            self.c = saved

    def call_method(self, recv, name, args, kwargs, node):
        if isinstance(recv, PList):
            return self.list_method(recv, name, args, node)
        if isinstance(recv, PDict):
            return self.dict_method(recv, name, args, node)
        if isinstance(recv, PSymSet):
            if name == 'add' and len(args) == 1 and isinstance(args[0], (str, SStr)):
                recv.arr = z3.Store(recv.arr, term_of(args[0]), z3.BoolVal(True))
                return None
            if name == 'discard' and len(args) == 1 and isinstance(args[0], (str, SStr)):
                recv.arr = z3.Store(recv.arr, term_of(args[0]), z3.BoolVal(False))
                return None
            if name == 'copy' and not args:
                return recv.copy()
            raise Unsupported('set.%s on a symbolic set' % name)
        if isinstance(recv, PMap):
            if name == 'get' and 1 <= len(args) <= 2 and isinstance(args[0], (str, SStr)):
                kt = term_of(args[0])
                if len(args) == 1 or args[1] is None:
                    # None for a missing key: the two cases are two paths
                    if self.decide(z3.Select(recv.dom, kt)):
                        return recv.wrap(z3.Select(recv.val, kt))
                    return None
                return recv.wrap(z3.If(z3.Select(recv.dom, kt), z3.Select(recv.val, kt), recv.unwrap(args[1])))
            if name == 'items' and not args:
                return PMapItems(recv)
            if name == 'keys' and not args:
                return PSymSet(recv.dom)
            if name == 'copy' and not args:
                return recv.copy()
            if name == 'update' and len(args) == 1 and isinstance(args[0], PMap) and not kwargs:
                o = args[0]
                k_ = z3.FreshConst(z3.StringSort(), 'k')
                recv.val = z3.Lambda([k_], z3.If(z3.Select(o.dom, k_), z3.Select(o.val, k_), z3.Select(recv.val, k_)))
                recv.dom = z3.SetUnion(recv.dom, o.dom)
                size = z3.FreshConst(z3.IntSort(), 'size')
                self.assume(z3.And(size >= recv.size, size >= o.size, size <= recv.size + o.size))
                recv.size = size
                return None
            raise Unsupported('dict.%s on a symbolic dict' % name)
        if isinstance(recv, PObj):
            a = inspect.getattr_static(recv.cls, name)
            q = '%s:%s' % (a.__module__, a.__qualname__)
            if q in self.registry:
                return self.call_contract(self.registry[q], [recv] + list(args), kwargs, node)
            if q in self.c.env.get('__extern__', {}):
                return self.call(self.c.env['__extern__'][q], [recv] + list(args), kwargs, node)
            if q in self.c.env.get('__inline__', ()):
                # a private helper of the same class, inlined: its body is part of the verified text (stated)
                from .. import scratch as _scratch
                pnode, _, _ = load_function(a.__module__, a.__qualname__, _scratch.scratch_src())
                self.trusted_used['inlined:' + q] = self.trusted_used.get('inlined:' + q, 0) + 1
                return self.call_closure(PFunc(pnode, Frame(), name), [recv] + list(args), kwargs)
            # a method of the receiver's class without a contract of its own: its body is part of the text being
            # verified -- inlined (bounded depth; recursion is not followed)
            depth = getattr(self, '_inline_depth', 0)
            if depth < 4 and isinstance(a, types.FunctionType) and (q != self.c.qualname or self.c.hints.get('inline_self_recursion')):
                from .. import scratch as _scratch
                pnode, _, _ = load_function(a.__module__, a.__qualname__, _scratch.scratch_src())
                self.trusted_used['inlined(no contract of its own):' + q] = self.trusted_used.get('inlined(no contract of its own):' + q, 0) + 1
                saved = self.module
                self.module = importlib.import_module(a.__module__)
                self._inline_depth = depth + 1
                try:
                    return self.call_closure(PFunc(pnode, Frame(), name), [recv] + list(args), kwargs)
                finally:
                    self._inline_depth = depth
                    self.module = saved
            raise Unsupported('method %s without contract' % q)
        if isinstance(recv, re.Pattern):
            if not any(is_sym(a) or isinstance(a, (PList, PObj, PFunc)) for a in args):
                return getattr(recv, name)(*args, **kwargs)
            if name == 'sub':
                # over-approximation: any string may come out (a proof that goes through holds for the real substitution)
                key = 'model:re.Pattern.sub (over-approximated: any string)'
                self.trusted_used[key] = self.trusted_used.get(key, 0) + 1
                return SStr(z3.FreshConst(z3.StringSort(), 'resub'))
            raise Unsupported('re.Pattern.%s on symbolic text' % name)
        if isinstance(recv, str) and name == 'join':
            if callable(self.c.env.get('__str_join_hook__')):
                key = 'model:str.join (contract-supplied)'
                self.trusted_used[key] = self.trusted_used.get(key, 0) + 1
                return self.c.env['__str_join_hook__'](self, recv, args[0])
            return self.str_join(recv, args[0], node)
        if isinstance(recv, (str, SStr)) and name in PURE_STR_METHODS:
            return self.str_method(recv, name, args, kwargs, node)
        if isinstance(recv, (dict,)) and name in ('get', 'keys', 'values', 'items'):
            if name == 'get' and not is_sym(args[0]):
                return recv.get(*args)
            if name == 'get':
                return self.dict_get_sym(recv, args[0], args[1] if len(args) > 1 else None, node)
            return list(getattr(recv, name)())
        if isinstance(recv, (tuple, frozenset)) and not any(is_sym(a) for a in args):
            return getattr(recv, name)(*args)
        if isinstance(recv, (list, dict, set)) and name in SHARED_MUTATORS:
            self.shared_state_write(name, recv)
        raise Unsupported('method %s on %r' % (name, recv))

    def shared_state_write(self, how, obj):
        """A container of the real module / class (values the interpreted code allocates are modelled objects, never raw
        Python containers) is written to: state shared by every call, outside the frame of any contract here."""
        self.oblige('%s.frame.writes_shared_state[%s of a module- or class-level %s]' % (self.c.funcname, how, type(obj).__name__),
                    z3.BoolVal(False), kind='frame')
        raise PathEnd()

    def dict_get_sym(self, d, key, default, node):
        """concrete dict, symbolic key, default: ite chain (no obligation: .get never raises)"""
        items = [(k, v) for k, v in d.items() if self.same_kind(k, key)]
        kt = term_of(key)
        if not items:
            return default
        ty = type_of_value(items[0][1])
        res = ty.unwrap(default) if default is not None else None
        if res is None:
            raise Unsupported('dict.get with symbolic key and None default')
        for k, v in reversed(items):
            res = z3.If(kt == term_of(k), ty.unwrap(v), res)
        return ty.wrap(res)

    def list_method(self, lst, name, args, node):
        if name == 'append':
            self.list_append(lst, args[0])
            return None
        if name == 'extend':
            other = self.list_contents(args[0])
            if isinstance(lst.val, list) and isinstance(other, list):
                lst.val.extend(other)
            else:
                r = self.seq_concat(lst, other if isinstance(other, SSeq) else PList(other))
                lst.val = r.val if isinstance(r, PList) else r
            return None
        if name == 'pop' and isinstance(lst.val, list):
            if not lst.val:
                raise PyRaise(PExc(IndexError, tag='pop'))
            return lst.val.pop(*args)
        if name == 'pop' and isinstance(lst.val, SSeq) and not args:
            n = z3.Length(lst.val.t)
            self.oblige('%s.pop_nonempty@%s' % (self.c.funcname, self.rel(node)), n > 0, 'safety')
            v = lst.val.et.wrap(lst.val.t[n - 1])
            lst.val = SSeq(z3.Extract(lst.val.t, z3.IntVal(0), n - 1), lst.val.et)
            return v
        if name == 'insert' and isinstance(lst.val, list) and not is_sym(args[0]):
            lst.val.insert(args[0], args[1])
            return None
        if name == 'clear':
            lst.val = []
            return None
        raise Unsupported('list.%s' % name)

    def dict_method(self, d, name, args, node):
        if name == 'get':
            k = args[0]
            if is_sym(k):
                # a symbolic string looked up in a dict with concrete string keys: one path per key, one for "none of them"
                if isinstance(k, SStr) and all(isinstance(x, str) for x in d.val):
                    for x in list(d.val):
                        if self.branch(SBool(k.t == z3.StringVal(x))):
                            return d.val[x]
                    return args[1] if len(args) > 1 else None
                raise Unsupported('symbolic key')
            return d.val.get(k, args[1] if len(args) > 1 else None)
        if name in ('keys', 'values', 'items'):
            return list(getattr(d.val, name)())
        if name == 'pop' and not is_sym(args[0]):
            if args[0] in d.val:
                return d.val.pop(args[0])
            if len(args) > 1:
                return args[1]
            raise PyRaise(PExc(KeyError, tag='pop'))
        if name == 'setdefault' and not is_sym(args[0]):
            return d.val.setdefault(args[0], args[1] if len(args) > 1 else None)
        if name == 'update' and isinstance(args[0], PDict):
            d.val.update(args[0].val)
            return None
        raise Unsupported('dict.%s' % name)

    def str_join(self, sep, it, node):
        seq = self.iter_contents(it)
        jm = self.c.env.get('__join_model__')
        if jm is not None and isinstance(seq, list) and sep != '' and not all(isinstance(x, str) for x in seq):
            self.trusted_used['model:str.join / str.split (contract-supplied)'] = self.trusted_used.get('model:str.join / str.split (contract-supplied)', 0) + 1
            return jm(self, sep, seq)
        if isinstance(seq, list):
            if all(isinstance(x, str) for x in seq):
                return sep.join(seq)
            if seq and all(isinstance(x, SEnc) for x in seq) and sep == '':
                t = seq[0].t if len(seq) == 1 else z3.Concat(*[x.t for x in seq])
                return SEnc(t, seq[0].alpha)
            if not all(isinstance(x, (str, SStr)) for x in seq):
                raise PyRaise(PExc(TypeError, tag='join'))
            parts = []
            for i, x in enumerate(seq):
                if i and sep:
                    parts.append(z3.StringVal(sep))
                parts.append(term_of(x))
            if not parts:
                return ''
            return SStr(parts[0] if len(parts) == 1 else z3.Concat(*parts))
        return self.join_symbolic(sep, seq, node)

    def join_symbolic(self, sep, seq, node):
        if isinstance(seq, SEncMap) and sep == '':
            self.trusted_used['model:str.join'] = self.trusted_used.get('model:str.join', 0) + 1
            return SEnc(seq.t, seq.alpha)
        if callable(self.c.env.get('__join_symbolic__')):
            key = 'model:str.join (contract-supplied)'
            self.trusted_used[key] = self.trusted_used.get(key, 0) + 1
            return self.c.env['__join_symbolic__'](self, sep, seq)
        if isinstance(seq, SSeq):
            key = 'model:str.join over an unknown list (over-approximated: any string)'
            self.trusted_used[key] = self.trusted_used.get(key, 0) + 1
            return SStr(z3.FreshConst(z3.StringSort(), 'joined'))
        raise Unsupported('join over a symbolic sequence (no model registered)')

    def str_method(self, recv, name, args, kwargs, node):
        if isinstance(recv, str) and not any(is_sym(a) or isinstance(a, (PList, PObj)) for a in args):
            r = getattr(recv, name)(*args, **kwargs)
            if isinstance(r, list):
                return PList(r)
            return r
        if isinstance(recv, (SStr, str)) and not kwargs and all(isinstance(a, (SStr, str)) for a in args):
            rt = recv.t if isinstance(recv, SStr) else z3.StringVal(recv)
            at = [a.t if isinstance(a, SStr) else z3.StringVal(a) for a in args]
            if name in ('startswith', 'endswith') and len(at) == 1:
                return SBool((z3.PrefixOf if name == 'startswith' else z3.SuffixOf)(at[0], rt))
            if name in ('strip', 'lstrip', 'rstrip') and len(at) <= 1:
                # over-approximation: only the necessary facts about the result are assumed, so a proof that
                # goes through holds for the real method; a counter-model has to be replayed on the real code
                key = 'model:str.%s (over-approximated: result is a %s of the receiver)' % (
                    name, {'strip': 'substring', 'lstrip': 'suffix', 'rstrip': 'prefix'}[name])
                self.trusted_used[key] = self.trusted_used.get(key, 0) + 1
                r = z3.FreshConst(z3.StringSort(), name)
                self.assume({'strip': z3.Contains(rt, r), 'lstrip': z3.SuffixOf(r, rt), 'rstrip': z3.PrefixOf(r, rt)}[name])
                return SStr(r)
            if name in ('splitlines', 'split', 'rsplit') and len(at) <= 2:
                key = 'model:str.%s (over-approximated: any list of strings)' % name
                self.trusted_used[key] = self.trusted_used.get(key, 0) + 1
                return PList(Seq(Str).fresh(name))
            if name in ('lower', 'upper', 'replace', 'title', 'capitalize', 'swapcase', 'casefold', 'expandtabs',
                        'translate', 'format', 'zfill', 'center', 'ljust', 'rjust'):
                key = 'model:str.%s (over-approximated: any string)' % name
                self.trusted_used[key] = self.trusted_used.get(key, 0) + 1
                return SStr(z3.FreshConst(z3.StringSort(), name))
        model = self.c.env.get('__str_methods__', {}).get(name)
        if model is not None and isinstance(recv, SStr):
            key = 'model:str.%s (contract-supplied)' % name
            self.trusted_used[key] = self.trusted_used.get(key, 0) + 1
            return model(self, recv, args, kwargs)
        raise Unsupported('str.%s on symbolic string' % name)

    def call_builtin(self, fn, args, kwargs, node):
        if fn is len:
            return self.builtin_len(args[0])
        if fn is isinstance:
            return self.builtin_isinstance(args[0], args[1])
        if fn is issubclass and len(args) == 2 and isinstance(args[0], type) and (isinstance(args[1], type) or (
                isinstance(args[1], tuple) and all(isinstance(x, type) for x in args[1]))):
            return issubclass(args[0], args[1])
        if fn is tuple or fn is list:
            if not args:
                return () if fn is tuple else PList([])
            c = self.list_contents(args[0]) if not isinstance(args[0], (str,)) else list(args[0])
            if isinstance(c, list):
                return tuple(c) if fn is tuple else PList(c)
            return c if fn is tuple else PList(c)     # symbolic: immutable SSeq stands for the tuple
        if fn is next:
            return self.builtin_next(args[0], node)
        if fn is functools.partial and args:
            # functools.partial(f, *a, **k): a callable that calls f with the stored arguments in front
            f0, a0, k0 = args[0], list(args[1:]), dict(kwargs)
            return PExt('partial(%s)' % getattr(f0, 'name', getattr(f0, '__name__', 'f')),
                        lambda e, a2, k2: e.call(f0, a0 + list(a2), dict(k0, **k2), node))
        if fn is iter and len(args) == 1:
            # a fresh one-shot iterator over the contents (consumed by next() / for); iter(it) of an iterator is the iterator
            if isinstance(args[0], PGen):
                return args[0]
            c = self.iter_contents(args[0])
            return PGen(list(c) if isinstance(c, list) else c)
        if fn is type and len(args) == 1:
            v = args[0]
            if isinstance(v, PExc):
                return v.cls
            if isinstance(v, PObj):
                return v.cls
            if not is_sym(v) and not isinstance(v, (PList, PDict)):
                return type(v)
            raise Unsupported('type() of %r' % (v,))
        if fn is callable:
            if isinstance(args[0], PExt):
                return True
            return isinstance(args[0], (PFunc, PBound)) or (not is_sym(args[0]) and not isinstance(args[0], (PObj, PList, PDict)) and callable(args[0]))
        if fn is getattr:
            if is_sym(args[1]):
                raise Unsupported('getattr with symbolic name')
            if len(args) > 2 and isinstance(args[0], PObj) and args[0].cls is object and args[1] not in args[0].fields \
                    and not callable(args[0].fields.get('__getattr_hook__')):
                return args[2]           # a double without that attribute: the default (the contract decides what the double has)
            try:
                return self.getattr(args[0], args[1])
            except PyRaise:
                if len(args) > 2:
                    return args[2]
                raise
        if fn is sorted or fn is reversed or fn is enumerate or fn is zip or fn is range or fn is min or fn is max or fn is sum or fn is abs or fn is all or fn is any:
            cargs = []
            if fn is enumerate and len(args) == 1 and not kwargs and isinstance(args[0], (PList, PGen)) and isinstance(self.list_contents(args[0]), SSeq):
                return PEnum(self.list_contents(args[0]))     # pairs (i, element i) over a sequence of any length
            for a in args:
                if isinstance(a, (PList, PGen)):
                    c = self.list_contents(a)
                    if not isinstance(c, list):
                        raise Unsupported('%s over symbolic sequence' % fn.__name__)
                    a = c
                if is_sym(a):
                    raise Unsupported('%s of symbolic value' % fn.__name__)
                cargs.append(a)
            cargs = [list(a) if isinstance(a, tuple) else a for a in cargs]
            if any(is_sym(x) for a in cargs if isinstance(a, list) for x in a):
                if fn is sum and all(isinstance(x, (SInt, int)) and not isinstance(x, bool) for x in cargs[0]):
                    acc = cargs[1] if len(cargs) > 1 else 0
                    for x in cargs[0]:
                        acc = self.binop(ast.Add(), acc, x, node)
                    return acc
                if fn in (enumerate, zip, reversed):
                    return PList([tuple(x) if isinstance(x, tuple) else x for x in fn(*cargs)])
                raise Unsupported('%s over symbolic elements' % fn.__name__)
            if fn in (sorted, min, max) and isinstance(kwargs.get('key'), PFunc):
                # a key function written in the interpreted program: evaluated per element; the keys must come out concrete
                kf = kwargs['key']
                keyed = []
                for x_ in cargs[0]:
                    kv = self.call_closure(kf, [x_], {})
                    if is_sym(kv) or (isinstance(kv, tuple) and any(is_sym(y_) for y_ in kv)):
                        raise Unsupported('%s with a symbolic key' % fn.__name__)
                    keyed.append((kv, x_))
                kwargs = dict(kwargs, key=lambda pair: pair[0])
                r = fn(keyed, **kwargs)
                return PList([p_[1] for p_ in r]) if fn is sorted else r[1]
            r = fn(*cargs, **kwargs)
            if fn in (sorted, reversed, enumerate, zip, range):
                return PList(list(r))
            return r
        if fn is str and args and isinstance(args[0], (PExc, PObj, SOpaque)):
            return SStr(z3.FreshConst(z3.StringSort(), 'str'))
        if fn is str:
            if not args:
                return ''
            if isinstance(args[0], (str, SStr)):
                return args[0]
            if not is_sym(args[0]) and isinstance(args[0], (int,)):
                return str(args[0])
            return SStr(z3.FreshConst(z3.StringSort(), 'str'))
        if fn is int and args and isinstance(args[0], (int, SInt)):
            return args[0]
        if fn is bool:
            t = self.truth(args[0])
            return t if isinstance(t, bool) else SBool(t)
        if fn is repr:
            return SStr(z3.FreshConst(z3.StringSort(), 'repr'))
        if fn is dict and not args and not kwargs:
            return PDict()
        if fn is set and not args:
            return PSet()
        if fn is set and len(args) == 1 and not kwargs and isinstance(args[0], PSymGen):
            return args[0].symset.copy()
        if fn is set and len(args) == 1 and not kwargs and isinstance(args[0], (PSymSet, PMap)):
            return PSymSet(self.set_array(args[0]))
        if fn is set and len(args) == 1 and not kwargs and isinstance(args[0], PSet):
            return PSet(args[0].val)
        if fn is set and len(args) == 1 and not kwargs and isinstance(args[0], (PList, tuple, list, set, frozenset)):
            items = args[0].val if isinstance(args[0], PList) else list(args[0])
            if isinstance(items, list) and not any(is_sym(x) or isinstance(x, (PList, PDict, PObj)) for x in items):
                return PSet(items)
        if isinstance(fn, type) and issubclass(fn, BaseException):
            return PExc(fn, args)
        if (isinstance(fn, type) and type(fn) is type and fn.__module__.split('.')[0] == self.module.__name__.split('.')[0]
                and not any('__new__' in vars(k) for k in fn.__mro__ if k is not object)
                and not any(issubclass(fn, b) for b in (tuple, list, dict, set, str, int))):
            # instantiation of a plain class of the package under verification: a fresh object owned by the caller,
            # initialised by the class's __init__ (its contract if it has one, else its body inlined)
            obj = PObj(fn, name='new_%s' % fn.__name__)
            init = inspect.getattr_static(fn, '__init__')
            if isinstance(init, types.FunctionType):
                self.call_method(obj, '__init__', list(args), kwargs, node)
            elif args or kwargs:
                raise PyRaise(PExc(TypeError, tag='object() takes no arguments'))
            return obj
        if isinstance(fn, type) and issubclass(fn, tuple) and hasattr(fn, '_fields'):
            if kwargs:
                args = list(args) + [kwargs[f] for f in fn._fields[len(args):]]
            if len(args) != len(fn._fields):
                raise PyRaise(PExc(TypeError, tag='namedtuple arity'))
            return tuple(args)           # a namedtuple is its tuple of fields
        raise Unsupported('call of %r (no contract, no model)' % (fn,))

    def builtin_len(self, v):
        if isinstance(v, PObj) and isinstance(v.fields.get('__len__'), PExt):
            return self.call(v.fields['__len__'], [], {}, None)
        if isinstance(v, PText):
            return SInt(v.n)
        if isinstance(v, SChar):
            return 1
        if isinstance(v, PAbsSeq):
            return SInt(v.n)
        if isinstance(v, PList) and isinstance(v.val, FoldAbs):
            return SInt(v.val.n)
        if isinstance(v, PList):
            v = v.val
        if isinstance(v, PDict):
            return len(v.val)
        if isinstance(v, PMap):
            return SInt(v.size)
        if isinstance(v, PGen):
            if getattr(self, 'in_spec', False):
                return self.builtin_len(v.items if isinstance(v.items, list) else v.items)
            raise PyRaise(PExc(TypeError, tag='len(generator)'))
        if isinstance(v, (SSeq, SStr, SEnc)):
            return SInt(z3.Length(v.t))
        if is_sym(v):
            raise PyRaise(PExc(TypeError, tag='len'))
        return len(v)

    def builtin_isinstance(self, v, cls):
        classes = cls if isinstance(cls, tuple) else (cls,)
        for c in classes:
            if c is int and isinstance(v, (SInt, SBool)):
                return True
            if c is bool and isinstance(v, SBool):
                return True
            if c is str and isinstance(v, (SStr, SEnc)):
                return True
            if c is list and isinstance(v, PList):
                return True
            if getattr(c, '__name__', '') == 'Iterable' and getattr(c, '__module__', '').startswith('collections') and isinstance(v, (PList, PGen, tuple, list, str, SStr, SSeq)):
                return True
            if c is dict and isinstance(v, PDict):
                return True
            if c is tuple and isinstance(v, SSeq):
                return True
            if isinstance(v, PObj) and isinstance(v.cls, type) and issubclass(v.cls, c):
                return True
            if isinstance(v, PExc) and isinstance(v.cls, type) and issubclass(v.cls, c):
                return True
            if isinstance(v, SOpaque) and self.c.env.get('__opaque_classes__', {}).get(v.ty.name) is not None:
                oc = self.c.env['__opaque_classes__'][v.ty.name]
                if isinstance(oc, type) and isinstance(c, type) and issubclass(oc, c):
                    return True
        if is_sym(v) or isinstance(v, (PList, PDict, PObj, PExc, PFunc, PGen)):
            return False
        return isinstance(v, cls)

    def builtin_next(self, g, node):
        if isinstance(g, PObj) and isinstance(g.fields.get('__next__'), PExt):
            return self.call(g.fields['__next__'], [], {}, node)
        if not isinstance(g, PGen):
            raise Unsupported('next() of %r' % (g,))
        consume = (self.c.hints or {}).get('next_consumes')
        if isinstance(g.items, list):
            if not g.items:
                raise PyRaise(PExc(StopIteration))
            head = g.items[0]
            if consume:
                g.items = g.items[1:]
            return head
        if consume and isinstance(g.items, SSeq):
            # hint next_consumes: next() on an exhausted iterator is a path (StopIteration), not a safety obligation, and the
            # iterator loses its head (a later `for` continues behind it)
            t = g.items.t
            if self.decide(z3.Length(t) == 0):
                raise PyRaise(PExc(StopIteration))
            g.items = SSeq(z3.Extract(t, z3.IntVal(1), z3.Length(t) - 1), g.items.et)
            return g.items.et.wrap(t[0])
        self.oblige('%s.next_nonempty@%s' % (self.c.funcname, self.rel(node)),
                    z3.Length(g.items.t) > 0, 'safety')
        return g.items.et.wrap(g.items.t[0])


class _ContractView(object):
    """While evaluating a callee's clauses: its env, the caller's everything else."""

    def __init__(self, callee, caller):
        self._callee = callee
        self._caller = caller

    def __getattr__(self, name):
        if name == 'env':
            return self._callee.env
        if name in ('funcname', 'qualname', 'module'):
            return getattr(self._caller, name)
        return getattr(self._callee, name)


# ---------------------------------------------------------------------------

def load_function(modname, funcname, src_root, harness_source=None):
    """(module, FunctionDef node, sha of its source segment) from the scratch copy."""
    import os
    if harness_source is not None:
        text = harness_source
    else:
        path = os.path.join(src_root, *modname.split('.')) + '.py'
        with open(path) as fd:
            text = fd.read()
    tree = ast.parse(text)
    parts = funcname.split('.')
    body = tree.body
    node = None
    klass = None
    for p in parts:
        node = None
        for n in body:
            if isinstance(n, (ast.FunctionDef, ast.ClassDef)) and n.name == p:
                node = n
                break
        if node is None:
            raise Unsupported('function %s not found in %s' % (funcname, modname))
        if isinstance(node, ast.ClassDef):
            klass = node.name
        body = node.body
    seg = ast.get_source_segment(text, node) or ''
    if klass is not None:
        # private name mangling, as the compiler does it for code inside a class body: __x -> _Class__x
        pre = '_' + klass.lstrip('_')
        for n in ast.walk(node):
            if isinstance(n, ast.Attribute) and n.attr.startswith('__') and not n.attr.endswith('__'):
                n.attr = pre + n.attr
            elif isinstance(n, ast.Name) and n.id.startswith('__') and not n.id.endswith('__'):
                n.id = pre + n.id
    sha = hashlib.sha256(seg.encode('utf8')).hexdigest()[:16]
    return node, sha, seg


def expand_type(ty):
    """all concrete alternatives of a (possibly nested) type with OneOf choices"""
    if isinstance(ty, OneOf):
        out = []
        for a in ty.alts:
            out.extend(expand_type(a))
        return out
    if isinstance(ty, Obj) and any(isinstance(f, (OneOf, Obj)) for f in ty.fields.values()):
        names = list(ty.fields)
        alts = [expand_type(ty.fields[n]) for n in names]
        return [Obj(ty.cls, dict(zip(names, combo)), name=ty.name) for combo in itertools.product(*alts)]
    return [ty]


def typecases(params):
    names = list(params.keys())
    alts = [expand_type(p) for p in params.values()]
    for combo in itertools.product(*alts):
        yield dict(zip(names, combo))

"""Symbolic values and type descriptors for the pyvc engine (back end E1).

Python values are either concrete Python objects (computed natively) or one of
the wrappers below carrying a z3 term.  Python `int` <-> SMT Int (exact);
`str` <-> SMT String; list contents <-> SMT Seq.
"""
import z3


class Unsupported(Exception):
    """The real code left the subset the engine models (extraction failure, never a violation)."""


class Sym(object):
    __slots__ = ('t',)

    def __init__(self, t):
        self.t = t

    def __repr__(self):
        return '%s(%s)' % (type(self).__name__, self.t)

    def __bool__(self):
        raise Unsupported('implicit truth value of symbolic %r taken by the engine itself' % self)


class SInt(Sym):
    """Symbolic int.  `pow2`: optional ghost term equal to 2**self (DESIGN 3.2);
    `mult`: optional (term P) such that P is a power of two and P divides self."""
    __slots__ = ('pow2', 'mult')

    def __init__(self, t, pow2=None, mult=None):
        Sym.__init__(self, t)
        self.pow2 = pow2
        self.mult = mult


class SBool(Sym):
    pass


class SStr(Sym):
    pass


class SSeq(Sym):
    """Immutable symbolic sequence (contents of a list/tuple); `et` = element type descriptor."""
    __slots__ = ('et',)

    def __init__(self, t, et):
        Sym.__init__(self, t)
        self.et = et


class SOpaque(Sym):
    """Value of an uninterpreted sort (objects the code only passes around)."""
    __slots__ = ('ty',)

    def __init__(self, t, ty):
        Sym.__init__(self, t)
        self.ty = ty


# ---------------------------------------------------------------------------
# type descriptors: map between Python-level values and z3 sorts

class T(object):
    def sort(self):
        raise NotImplementedError

    def wrap(self, term):
        raise NotImplementedError

    def unwrap(self, value):
        raise NotImplementedError

    def fresh(self, name):
        return self.wrap(z3.FreshConst(self.sort(), name))

    def facts(self, value):
        """Type invariants of a fresh value (list of z3 bools)."""
        return []


class _TInt(T):
    def sort(self):
        return z3.IntSort()

    def wrap(self, term):
        return SInt(term)

    def unwrap(self, value):
        if isinstance(value, bool):
            return z3.IntVal(int(value))
        if isinstance(value, int):
            return z3.IntVal(value)
        if isinstance(value, SInt):
            return value.t
        if isinstance(value, SBool):
            return z3.If(value.t, z3.IntVal(1), z3.IntVal(0))
        raise Unsupported('expected int, got %r' % (value,))

    def __repr__(self):
        return 'Int'


class _TBool(T):
    def sort(self):
        return z3.BoolSort()

    def wrap(self, term):
        return SBool(term)

    def unwrap(self, value):
        if isinstance(value, bool):
            return z3.BoolVal(value)
        if isinstance(value, SBool):
            return value.t
        raise Unsupported('expected bool, got %r' % (value,))

    def __repr__(self):
        return 'Bool'


class _TStr(T):
    def sort(self):
        return z3.StringSort()

    def wrap(self, term):
        return SStr(term)

    def unwrap(self, value):
        if isinstance(value, str):
            return z3.StringVal(value)
        if isinstance(value, SStr):
            return value.t
        raise Unsupported('expected str, got %r' % (value,))

    def __repr__(self):
        return 'Str'


Int = _TInt()
Bool = _TBool()
Str = _TStr()


class Seq(T):
    """Immutable sequence of `et` (tuple of unknown length / list contents)."""

    def __init__(self, et):
        self.et = et

    def sort(self):
        return z3.SeqSort(self.et.sort())

    def wrap(self, term):
        return SSeq(term, self.et)

    def unwrap(self, value):
        if isinstance(value, SSeq):
            return value.t
        if isinstance(value, (list, tuple)):
            if not value:
                return z3.Empty(self.sort())
            units = [z3.Unit(self.et.unwrap(v)) for v in value]
            return units[0] if len(units) == 1 else z3.Concat(*units)
        if isinstance(value, (SStr, str)) and isinstance(self.et, _TStr):
            raise Unsupported('str used as sequence of chars')
        raise Unsupported('expected sequence, got %r' % (value,))

    def __repr__(self):
        return 'Seq(%r)' % (self.et,)


class ListOf(T):
    """A *mutable* Python list whose contents are a symbolic Seq(et). Only as parameter/havoc type."""

    def __init__(self, et):
        self.et = et
        self.seq = Seq(et)

    def sort(self):
        return self.seq.sort()

    def __repr__(self):
        return 'ListOf(%r)' % (self.et,)


class Opaque(T):
    """Uninterpreted sort named `name` (e.g. AST nodes that are only passed around)."""
    _sorts = {}

    def __init__(self, name):
        self.name = name

    def sort(self):
        if self.name not in Opaque._sorts:
            Opaque._sorts[self.name] = z3.DeclareSort(self.name)
        return Opaque._sorts[self.name]

    def wrap(self, term):
        return SOpaque(term, self)

    def unwrap(self, value):
        if isinstance(value, SOpaque) and value.ty.name == self.name:
            return value.t
        raise Unsupported('expected opaque %s, got %r' % (self.name, value))

    def __repr__(self):
        return 'Opaque(%s)' % self.name


class Const(T):
    """A parameter fixed to one concrete Python value (None, NotImplemented, a constant...)."""

    def __init__(self, value):
        self.value = value

    def fresh(self, name):
        return self.value

    def __repr__(self):
        return 'Const(%r)' % (self.value,)


class OneOf(object):
    """Type-case split: the function is verified once per alternative (DESIGN: unions are
    resolved by case analysis on the Python type, so `is None` / `isinstance` are concrete)."""

    def __init__(self, *alts):
        self.alts = alts

    def __repr__(self):
        return 'OneOf%r' % (self.alts,)


def is_sym(v):
    return isinstance(v, Sym)


def term_of(v):
    """z3 term of an int/bool/str-like value."""
    if isinstance(v, Sym):
        return v.t
    if isinstance(v, bool):
        return z3.BoolVal(v)
    if isinstance(v, int):
        return z3.IntVal(v)
    if isinstance(v, str):
        return z3.StringVal(v)
    raise Unsupported('no term for %r' % (v,))


def type_of_value(v):
    if isinstance(v, (SInt,)) or (isinstance(v, int) and not isinstance(v, bool)):
        return Int
    if isinstance(v, (SBool, bool)):
        return Bool
    if isinstance(v, (SStr, str)):
        return Str
    if isinstance(v, SSeq):
        return Seq(v.et)
    if isinstance(v, SOpaque):
        return v.ty
    raise Unsupported('no symbolic type for %r' % (v,))

"""E3 `charclass`: exact code-point interval algebra from the real compiled regexes (DESIGN 3.4).

A set of code points is a sorted list of disjoint inclusive intervals.  Sets of the implementation
are obtained by asking the real compiled pattern about each of the 0x110000 code points; sets of
the specification come from `unicodedata`.  A claim `A subset-of B` is decided by interval
difference and cross-checked by z3 over Int (two independent deciders must agree).
"""
import re
import unicodedata

import z3

MAXCP = 0x110000


def from_pred(pred):
    out = []
    start = None
    for cp in range(MAXCP):
        if pred(cp):
            if start is None:
                start = cp
        elif start is not None:
            out.append((start, cp - 1))
            start = None
    if start is not None:
        out.append((start, MAXCP - 1))
    return out


def from_chars(chars):
    cps = sorted(set(ord(c) for c in chars))
    out = []
    for cp in cps:
        if out and out[-1][1] == cp - 1:
            out[-1] = (out[-1][0], cp)
        else:
            out.append((cp, cp))
    return out


def from_regex(pattern, flags=0):
    """code points c with re.fullmatch(pattern, c)"""
    rx = re.compile(pattern, flags) if isinstance(pattern, str) else pattern
    fm = rx.fullmatch
    return from_pred(lambda cp: fm(chr(cp)) is not None)


def union(a, b):
    items = sorted(a + b)
    out = []
    for lo, hi in items:
        if out and lo <= out[-1][1] + 1:
            out[-1] = (out[-1][0], max(out[-1][1], hi))
        else:
            out.append((lo, hi))
    return out


def complement(a):
    out = []
    prev = 0
    for lo, hi in a:
        if lo > prev:
            out.append((prev, lo - 1))
        prev = hi + 1
    if prev < MAXCP:
        out.append((prev, MAXCP - 1))
    return out


def intersect(a, b):
    out = []
    i = j = 0
    while i < len(a) and j < len(b):
        lo = max(a[i][0], b[j][0])
        hi = min(a[i][1], b[j][1])
        if lo <= hi:
            out.append((lo, hi))
        if a[i][1] < b[j][1]:
            i += 1
        else:
            j += 1
    return out


def minus(a, b):
    return intersect(a, complement(b))


def size(a):
    return sum(hi - lo + 1 for lo, hi in a)


def contains(a, cp):
    return any(lo <= cp <= hi for lo, hi in a)


def show(a, limit=6):
    parts = ['U+%04X' % lo if lo == hi else 'U+%04X-U+%04X' % (lo, hi) for lo, hi in a[:limit]]
    return ', '.join(parts) + (' ... (%d intervals, %d code points)' % (len(a), size(a)) if len(a) > limit else '')


def z3_member(x, a):
    return z3.Or(*[z3.And(x >= lo, x <= hi) if lo != hi else x == lo for lo, hi in a]) if a else z3.BoolVal(False)


def z3_subset(a, b):
    """True iff z3 proves a subset-of b (over Int code points)."""
    x = z3.Int('cp')
    s = z3.Solver()
    s.set('timeout', 20000)
    s.add(x >= 0, x < MAXCP, z3_member(x, a), z3.Not(z3_member(x, b)))
    return s.check() == z3.unsat


def category_set(*cats):
    cats = set(cats)
    return from_pred(lambda cp: unicodedata.category(chr(cp)) in cats)


# ---- ES5 lexical classes (ECMA-262 5.1, 7.2, 7.3, 7.6) ----------------------------------------

def es5_sets():
    ws = union(from_chars('\t\x0b\x0c \xa0\ufeff'), category_set('Zs'))
    lt = from_chars('\n\r\u2028\u2029')
    letter = category_set('Lu', 'Ll', 'Lt', 'Lm', 'Lo', 'Nl')
    id_start = union(letter, from_chars('$_'))
    id_part = union(union(id_start, category_set('Mn', 'Mc', 'Nd', 'Pc')), from_chars('\u200c\u200d'))
    return dict(WhiteSpace=ws, LineTerminator=lt, UnicodeLetter=letter, IdentifierStart=id_start,
                IdentifierPart=id_part, unicode_version=unicodedata.unidata_version)

"""E3 `charclass`: exact code-point interval algebra from the real compiled regexes (DESIGN 3.4).

A set of code points is a sorted list of disjoint inclusive intervals.  Sets of the implementation
are obtained by asking the real compiled pattern about each of the 0x110000 code points; sets of
the specification come from `unicodedata`.  A claim `A subset-of B` is decided by interval
difference and cross-checked by z3 over Int (two independent deciders must agree).
"""
import re
import unicodedata

import z3

MAXCP = 0x110000


def rule_pattern(rule):
    """pattern text of a ply token rule: the rule is a string, or a function whose pattern is its `regex` attribute (set by
    ply.lex.TOKEN) or its docstring"""
    if isinstance(rule, str):
        return rule
    pat = getattr(rule, 'regex', None) or getattr(rule, '__doc__', None)
    if not isinstance(pat, str):
        raise TypeError('no pattern on token rule %r' % (rule,))
    return pat


def from_pred(pred):
    out = []
    start = None
    for cp in range(MAXCP):
        if pred(cp):
            if start is None:
                start = cp
        elif start is not None:
            out.append((start, cp - 1))
            start = None
    if start is not None:
        out.append((start, MAXCP - 1))
    return out


def from_chars(chars):
    cps = sorted(set(ord(c) for c in chars))
    out = []
    for cp in cps:
        if out and out[-1][1] == cp - 1:
            out[-1] = (out[-1][0], cp)
        else:
            out.append((cp, cp))
    return out


def from_regex(pattern, flags=0):
    """code points c with re.fullmatch(pattern, c)"""
    rx = re.compile(pattern, flags) if isinstance(pattern, str) else pattern
    fm = rx.fullmatch
    return from_pred(lambda cp: fm(chr(cp)) is not None)


def union(a, b):
    items = sorted(a + b)
    out = []
    for lo, hi in items:
        if out and lo <= out[-1][1] + 1:
            out[-1] = (out[-1][0], max(out[-1][1], hi))
        else:
            out.append((lo, hi))
    return out


def complement(a):
    out = []
    prev = 0
    for lo, hi in a:
        if lo > prev:
            out.append((prev, lo - 1))
        prev = hi + 1
    if prev < MAXCP:
        out.append((prev, MAXCP - 1))
    return out


def intersect(a, b):
    out = []
    i = j = 0
    while i < len(a) and j < len(b):
        lo = max(a[i][0], b[j][0])
        hi = min(a[i][1], b[j][1])
        if lo <= hi:
            out.append((lo, hi))
        if a[i][1] < b[j][1]:
            i += 1
        else:
            j += 1
    return out


def minus(a, b):
    return intersect(a, complement(b))


def size(a):
    return sum(hi - lo + 1 for lo, hi in a)


def contains(a, cp):
    return any(lo <= cp <= hi for lo, hi in a)


def show(a, limit=6):
    parts = ['U+%04X' % lo if lo == hi else 'U+%04X-U+%04X' % (lo, hi) for lo, hi in a[:limit]]
    return ', '.join(parts) + (' ... (%d intervals, %d code points)' % (len(a), size(a)) if len(a) > limit else '')


def z3_member(x, a):
    return z3.Or(*[z3.And(x >= lo, x <= hi) if lo != hi else x == lo for lo, hi in a]) if a else z3.BoolVal(False)


def z3_subset(a, b):
    """True iff z3 proves a subset-of b (over Int code points)."""
    x = z3.Int('cp')
    s = z3.Solver()
    s.set('timeout', 20000)
    s.add(x >= 0, x < MAXCP, z3_member(x, a), z3.Not(z3_member(x, b)))
    return s.check() == z3.unsat


def category_set(*cats):
    cats = set(cats)
    return from_pred(lambda cp: unicodedata.category(chr(cp)) in cats)


# ---- ES5 lexical classes (ECMA-262 5.1, 7.2, 7.3, 7.6) ----------------------------------------

def es5_sets():
    ws = union(from_chars('\t\x0b\x0c \xa0\ufeff'), category_set('Zs'))
    lt = from_chars('\n\r\u2028\u2029')
    letter = category_set('Lu', 'Ll', 'Lt', 'Lm', 'Lo', 'Nl')
    id_start = union(letter, from_chars('$_'))
    id_part = union(union(id_start, category_set('Mn', 'Mc', 'Nd', 'Pc')), from_chars('\u200c\u200d'))
    return dict(WhiteSpace=ws, LineTerminator=lt, UnicodeLetter=letter, IdentifierStart=id_start,
                IdentifierPart=id_part, unicode_version=unicodedata.unidata_version)


def pattern_may_match(pattern, flags, chars):
    """Sound over-approximation: can a string matched by `pattern` contain one of `chars`?
    Structural walk over the parsed pattern (sre parser): a literal, a class (also negated), `.`, or a
    category that admits one of the characters answers yes.  False is a proof that no match contains them."""
    try:
        import re._parser as sre_parse
        import re._constants as C
    except ImportError:  # pragma: no cover
        import sre_parse
        import sre_constants as C
    tree = sre_parse.parse(pattern, flags)
    cps = [ord(c) for c in chars]

    def cat_admits(cat, cp):
        ch = chr(cp)
        name = str(cat)
        table = {'CATEGORY_DIGIT': ch.isdigit(), 'CATEGORY_NOT_DIGIT': not ch.isdigit(), 'CATEGORY_SPACE': ch.isspace(),
                 'CATEGORY_NOT_SPACE': not ch.isspace(), 'CATEGORY_WORD': ch.isalnum() or ch == '_',
                 'CATEGORY_NOT_WORD': not (ch.isalnum() or ch == '_')}
        return table.get(name, True)

    def in_admits(items, cp):
        negate = False
        hit = False
        for op, av in items:
            if op is C.NEGATE:
                negate = True
            elif op is C.LITERAL:
                hit = hit or av == cp
            elif op is C.RANGE:
                hit = hit or av[0] <= cp <= av[1]
            elif op is C.CATEGORY:
                hit = hit or cat_admits(av, cp)
            else:
                return True
        return hit != negate

    def walk(sub):
        for op, av in sub:
            if op is C.LITERAL:
                if av in cps:
                    return True
            elif op is C.NOT_LITERAL:
                if any(cp != av for cp in cps):
                    return True
            elif op is C.ANY:
                if flags & re.S or any(cp != 10 for cp in cps):
                    return True
            elif op is C.IN:
                if any(in_admits(av, cp) for cp in cps):
                    return True
            elif op is C.CATEGORY:
                if any(cat_admits(av, cp) for cp in cps):
                    return True
            elif op is C.BRANCH:
                if any(walk(b) for b in av[1]):
                    return True
            elif op in (C.MAX_REPEAT, C.MIN_REPEAT) or str(op) == 'POSSESSIVE_REPEAT':
                if walk(av[2]):
                    return True
            elif op is C.SUBPATTERN:
                if walk(av[-1]):
                    return True
            elif str(op) == 'ATOMIC_GROUP':
                if walk(av):
                    return True
            elif op in (C.ASSERT, C.ASSERT_NOT, C.AT):
                continue        # zero-width: contributes no characters to the match
            elif op is C.GROUPREF:
                continue        # repeats text already matched by a group that was walked
            elif op is C.GROUPREF_EXISTS:
                if walk(av[1]) or (av[2] is not None and walk(av[2])):
                    return True
            else:
                return True     # unknown construct: assume it may
        return False
    return walk(tree)

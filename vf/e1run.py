"""Runs the E1 (pyvc) part of a property check: lemmas + function contracts -> Run records.

Failure protocol (DESIGN 3.6): an obligation whose negation is satisfiable is a failed proof
obligation.  The counter-model's parameter values (when the obligation is at function level) and
the bounded stand-in's inputs are replayed on the real function; a reproduced contract failure is a
replayed violation, otherwise the violation is reported with `no-failing-input-found`.
`unknown`/timeouts and extraction failures are *undecided*, never violations.
"""
import importlib
import re
import time
import traceback

import z3

from . import scratch
from .pyvc.verify import verify_contract
from .pyvc.solve import discharge, satisfiable


class Concrete(object):
    """Executable form of a function contract (bounded stand-in E4 and replay).

    call(args) -> result           runs the REAL function
    pre(args) -> bool
    post(args, result) -> None | str   (None = ok, str = what is wrong)
    inputs(tier, seed) -> iterable of args tuples
    from_model(model dict) -> args tuple | None
    """

    def __init__(self, qualname, call, post, inputs, pre=None, from_model=None, bound=''):
        self.qualname = qualname
        self.call = call
        self.pre = pre or (lambda args: True)
        self.post = post
        self.inputs = inputs
        self.from_model = from_model
        self.bound = bound

    def check_one(self, args):
        """None if fine, else dict describing the failure."""
        try:
            if not self.pre(args):
                return None
        except Exception:
            return None
        try:
            res = self.call(args)
        except Exception as e:  # the contract decides whether an exception is allowed
            why = self.post(args, e)
            if why is None:
                return None
            return dict(args=repr(args), observed='raised %s: %s' % (type(e).__name__, e), required=why)
        why = self.post(args, res)
        if why is None:
            return None
        return dict(args=repr(args), observed=repr(res)[:400], required=why)


def prove_lemmas(run, lemmas, both=False):
    ok = True
    for l in lemmas:
        for suf, prem, goal in l.obligations():
            name = 'lemma.%s%s' % (l.name, suf)
            # vacuity: the premises (IH instances + revealed definitions) must be satisfiable
            if prem and satisfiable(prem, 20000) == z3.unsat:
                run.failed(name, 'E1/pyvc', 'vacuous', dict(reason='lemma premises are contradictory'),
                           replayed=False, solver_output='premises unsat')
                ok = False
                continue
            r = discharge(prem, goal, both=both)
            if r.status == 'unsat':
                run.discharged(name, 'E1/pyvc', r.solver, r.ms, detail=l.doc or None)
            elif r.status == 'sat':
                run.failed(name, 'E1/pyvc', 'counter-model', dict(model=str(r.model)[:1500] if r.model else None),
                           replayed=False, solver_output='sat: %s' % (str(r.model)[:1500] if r.model else ''),
                           ms=r.ms, solver=r.solver)
                ok = False
            else:
                run.undecided(name, 'E1/pyvc', r.reason or 'unknown')
    return ok


def run_bounded(run, conc, tier, name=None, limit=None):
    """Bounded stand-in on one function: returns first failure dict or None."""
    n = 0
    first = None
    for args in conc.inputs(tier, run.seed):
        n += 1
        f = conc.check_one(args)
        if f is not None and first is None:
            first = f
            break
        if limit and n >= limit:
            break
    run.bounded_check(name or ('rt.' + conc.qualname.split(':')[1]), conc.bound, n)
    return first


_PAR = {}


def _verify_one(i):
    c, registry, both = _PAR['contracts'][i], _PAR['registry'], _PAR['both']
    try:
        res = verify_contract(c, registry, both=both)
        res_err = None
    except Exception:
        res, res_err = None, traceback.format_exc()[-400:]
    return i, res, res_err


def verify_functions(run, contracts, registry, concretes=None, tier='quick', both=False):
    """Verify each contract; record obligations; replay failures.  Contracts are independent: with several of them
    the VC generation and solving run in forked worker processes (results are plain data), recording stays here."""
    import multiprocessing
    import os
    concretes = concretes or {}
    contracts = list(contracts)
    results = {}
    if len(contracts) > 1 and os.environ.get('VERIF_E1_PARALLEL', '1') != '0':
        _PAR.update(contracts=contracts, registry=registry, both=both)
        try:
            ctx = multiprocessing.get_context('fork')
            with ctx.Pool(min(int(os.environ.get('VERIF_E1_WORKERS', '8')), len(contracts))) as pool:
                for i, res, err in pool.imap_unordered(_verify_one, range(len(contracts))):
                    results[i] = (res, err)
        except Exception:
            results = {}
    for i, c in enumerate(contracts):
        t0 = time.time()
        if i in results:
            res, err = results[i]
            if err is not None:
                run.undecided('%s.engine' % c.funcname, 'E1/pyvc', 'engine error: ' + err)
                continue
        else:
            try:
                res = verify_contract(c, registry, both=both)
            except Exception:
                run.undecided('%s.engine' % c.funcname, 'E1/pyvc', 'engine error: ' + traceback.format_exc()[-400:])
                continue
        if res.sha:
            run.function(c.qualname, res.sha)
        for k, v in res.laws.items():
            run.trust('bit-op law %s (x%d in %s)' % (k, v, c.funcname))
        for k, v in res.trusted.items():
            run.trust('%s (x%d in %s)' % (k, v, c.funcname))
        if res.unsupported:
            # extraction failure: the function left the modelled subset -> undecided, bounded stand-in only
            run.undecided('%s.extraction' % c.funcname, 'E1/pyvc', 'outside the subset: ' + res.unsupported)
            continue
        for cf in res.covers_failed:
            # vacuity guard: a contract part that no path reaches proves nothing -- the function is *undecided* (never a violation:
            # the code may simply have been restructured, e.g. a loop turned into a comprehension)
            run.undecided('%s.cover.%s' % (c.funcname, cf), 'E1/pyvc', 'vacuity guard: no path reaches %s under the precondition' % cf)
        if not res.obligations:
            run.undecided('%s.vacuous' % c.funcname, 'E1/pyvc', 'no obligations generated')
        for (name, status, solver, ms, detail, n) in res.obligations:
            if c.notes:
                name = name.replace(c.funcname, '%s{%s}' % (c.funcname, c.notes), 1)
            if status == 'unsat':
                run.discharged(name, 'E1/pyvc', solver, ms)
            elif status == 'unknown':
                run.undecided(name, 'E1/pyvc', (detail or {}).get('reason') or 'unknown')
            else:
                conc = concretes.get(c.qualname)
                witness = None
                if conc is not None:
                    cands = []
                    if conc.from_model and detail and detail.get('model'):
                        try:
                            a = conc.from_model(detail['model'])
                            if a is not None:
                                cands.append(a)
                        except Exception:
                            pass
                    for a in cands:
                        f = conc.check_one(a)
                        if f:
                            witness = f
                            break
                    if witness is None:
                        for a in conc.inputs('thorough', run.seed):
                            f = conc.check_one(a)
                            if f:
                                witness = f
                                break
                if witness is not None:
                    run.failed(name, 'E1/pyvc', witness['args'], witness, observed=witness['observed'],
                               required=witness['required'], replayed=True,
                               solver_output=repr(detail)[:3000], ms=ms, solver=solver)
                else:
                    run.failed(name, 'E1/pyvc', 'no-input', dict(detail=detail), replayed=False,
                               solver_output=repr(detail)[:3000], ms=ms, solver=solver)


def model_int(model, pname):
    """value of parameter `pname` in a model dict {name!n: text}."""
    for k, v in model.items():
        if re.fullmatch(re.escape(pname) + r'(![0-9]+)?', k):
            try:
                return int(v)
            except ValueError:
                return None
    return None

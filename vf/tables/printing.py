"""Printing the node a tagged action built, with its children replaced by contract stubs (holes).

The real Unparser / Dispatcher / walk / rule objects / handlers and the real `definitions` are used;
the only addition is a definitions entry for the class name 'Hole'."""
import importlib

HOLE_OPEN, HOLE_CLOSE = '\ue000', '\ue001'


def is_hole_text(text):
    return isinstance(text, str) and text.startswith(HOLE_OPEN)


def hole_slot(text):
    body = text[1:text.index(HOLE_CLOSE)]
    return tuple(int(x) for x in body.split('.')[:2])


class Printing(object):
    def __init__(self, g):
        self.g = g
        self.ruletypes = importlib.import_module('calmjs.parse.ruletypes')
        self.unparsers = importlib.import_module('calmjs.parse.unparsers.es5')
        self.rules = importlib.import_module('calmjs.parse.rules')
        rt = self.ruletypes

        class HoleToken(rt.Token):
            """Contract stub of a child: emits one opaque fragment through the real token handler.
            `first`/`last` (from the hole) let a check choose the boundary characters."""

            def __call__(self, walk, dispatcher, node):
                text = (getattr(node, '_hole_first', '') + HOLE_OPEN + '%d.%d' % (node._hole_slot, node._hole_variant) +
                        HOLE_CLOSE + getattr(node, '_hole_last', ''))
                for chunk in walk(dispatcher, text, token=self):
                    yield chunk

        self.HoleToken = HoleToken
        self.definitions = dict(self.unparsers.definitions)
        self.definitions['Hole'] = (HoleToken(),)

    def configs(self):
        r = self.rules
        lex = importlib.import_module('calmjs.parse.lexers.es5').Lexer
        kw = tuple(lex.keywords_dict.keys())
        return [
            ('pretty', lambda: (r.indent(indent_str='  '),)),
            ('minify', lambda: (r.minify(drop_semi=False),)),
            ('minify+drop_semi', lambda: (r.minify(drop_semi=True),)),
            ('minify+obfuscate', lambda: (r.minify(drop_semi=False),
                                          r.obfuscate(obfuscate_globals=True, reserved_keywords=kw))),
            ('indent+obfuscate', lambda: (r.indent(indent_str='\t'),
                                          r.obfuscate(obfuscate_globals=False, reserved_keywords=kw))),
        ]

    def print_node(self, node, rules):
        up = self.unparsers.Unparser(definitions=self.definitions, rules=rules)
        return list(up(node))

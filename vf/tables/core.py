"""E2 `tables`: obligations per production / node kind, by running the REAL grammar actions and
the REAL unparser machinery on tagged slots and contract stubs (DESIGN 3.3).

Nothing here is transcribed from es5.py: the productions, nullable/FIRST sets and LALR tables are
obtained by running ply's own reflection (`ParserReflect`, `Grammar`, `LRGeneratedTable`) on the
real Parser class of the scratch copy.
"""
import importlib
import logging
import re

import ply.lex
import ply.yacc


class _Null(object):
    def __getattr__(self, name):
        return lambda *a, **k: None


class G(object):
    """The grammar of the real parser, extracted mechanically."""

    def __init__(self, with_tables=False):
        self.es5 = importlib.import_module('calmjs.parse.parsers.es5')
        self.lexmod = importlib.import_module('calmjs.parse.lexers.es5')
        self.asttypes_mod = importlib.import_module('calmjs.parse.asttypes')
        self.parser = self.es5.Parser()
        self.asttypes = self.parser.asttypes
        pdict = dict((k, getattr(self.parser, k)) for k in dir(self.parser))
        pinfo = ply.yacc.ParserReflect(pdict, log=ply.yacc.PlyLogger(_NullStream()))
        pinfo.get_all()
        pinfo.validate_all()
        self.pinfo = pinfo
        g = ply.yacc.Grammar(pinfo.tokens)
        for funcname, gram in pinfo.grammar:
            file, line, prodname, syms = gram
            g.add_production(prodname, syms, funcname, file, line)
        g.set_start('program')
        self.undefined = g.undefined_symbols()
        self.unused_terminals = g.unused_terminals()
        self.unused_rules = g.unused_rules()
        g.compute_first()
        g.compute_follow()
        self.grammar = g
        self.productions = [p for p in g.Productions[1:]]   # skip S'
        self.terminals = set(g.Terminals) - {'error'}
        self.nonterminals = set(g.Nonterminals)
        self.nullable = set(n for n in self.nonterminals if '<empty>' in g.First[n])
        self.first = dict((n, set(g.First[n]) - {'<empty>'}) for n in self.nonterminals)
        self.lr = None
        if with_tables:
            self.lr = ply.yacc.LRGeneratedTable(g, 'LALR', ply.yacc.PlyLogger(_NullStream()))
        self.token_text = self._token_texts()
        self._last = None

    def _token_texts(self):
        """terminal type -> the fixed source text of that token (punctuators, keywords)."""
        Lexer = self.lexmod.Lexer
        texts = {}
        for name in Lexer.tokens:
            pat = getattr(Lexer, 't_' + name, None)
            if isinstance(pat, str):
                # a string rule: a fixed text iff the regex is a sequence of (escaped) literals
                try:
                    parsed = re._parser.parse(pat)
                except Exception:
                    continue
                if all(str(op) == 'LITERAL' for op, _ in parsed):
                    texts[name] = ''.join(chr(code) for _, code in parsed)
        for kw, name in Lexer.keywords_dict.items():
            texts[name] = kw
        texts['AUTOSEMI'] = ';'
        texts['GETPROP'] = 'get'
        texts['SETPROP'] = 'set'
        return texts

    def bound_action(self, prod):
        return getattr(self.parser, prod.func)

    # LAST sets (dual of FIRST), computed here from the extracted productions
    def last_sets(self):
        if self._last is not None:
            return self._last
        last = dict((n, set()) for n in self.nonterminals)
        changed = True
        while changed:
            changed = False
            for p in self.productions:
                for sym in reversed(p.prod):
                    add = {sym} if sym in self.terminals else last[sym]
                    if not add <= last[p.name]:
                        last[p.name] |= add
                        changed = True
                    if not (sym in self.nullable):
                        break
        self._last = last
        return last


class _NullStream(object):
    def write(self, *a):
        pass


# ---------------------------------------------------------------------------
# tagged execution of the real actions

class LexerStub(object):
    """What an action may ask the lexer (contract of C06 used modularly):
    lookup_colno is tag preserving; with_comments as configured."""

    def __init__(self, with_comments=False):
        self.with_comments = with_comments
        self.lineno = 9000
        self.lexpos = 900000

    @staticmethod
    def lookup_colno(lineno, lexpos):
        return colno_of(lineno, lexpos)


def colno_of(lineno, lexpos):
    return lexpos % 1000 + 7 * lineno + 1


def slot_pos(i, salt=0):
    """(lexpos, lineno) tag of slot i."""
    return (1000 * i + 13 + salt, i + 1)


def slot_triple(i, salt=0):
    lexpos, lineno = slot_pos(i, salt)
    return (lexpos, lineno, colno_of(lineno, lexpos))


class Shapes(object):
    """Value shapes of non-terminals: the least fixpoint of running every real action on holes.

    A shape is one of: ('none',), ('str', text?), ('list',), ('node', ClassName)."""

    def __init__(self, g):
        self.g = g
        self.shapes = dict((n, set()) for n in g.nonterminals)
        self.elem_kinds = dict((n, set()) for n in g.nonterminals)   # element kinds of list-valued non-terminals
        self.errors = {}
        self.compute()

    def compute(self):
        g = self.g
        changed = True
        rounds = 0
        while changed:
            changed = False
            rounds += 1
            for prod in g.productions:
                for choice in self.choices(prod, fixpoint=True):
                    try:
                        r = run_action(g, prod, choice, shapes=self)
                    except ActionRaised:
                        continue
                    sh = shape_of(r.value)
                    if sh not in self.shapes[prod.name]:
                        self.shapes[prod.name].add(sh)
                        changed = True
                    if isinstance(r.value, list):
                        for x in r.value:
                            k = base_name(x)
                            if k not in self.elem_kinds[prod.name]:
                                self.elem_kinds[prod.name].add(k)
                                changed = True
        self.rounds = rounds

    def choices(self, prod, fixpoint=False):
        """Shape assignments for the non-terminal slots of prod: vary one slot at a time over all
        its shapes (the others at their first shape), which covers every branch an action takes on
        one child's kind; actions that inspect two children at once are covered by the pairwise
        product when the production has <= 2 non-terminal slots."""
        g = self.g
        slots = [(i, s) for i, s in enumerate(prod.prod) if s in g.nonterminals]
        if not slots:
            yield {}
            return
        per = []
        for i, s in slots:
            shs = sorted(self.shapes[s])
            if not shs:
                return      # not yet known (fixpoint in progress)
            per.append((i, shs))
        if len(per) <= 2:
            import itertools
            for combo in itertools.product(*[shs for _, shs in per]):
                yield dict((per[k][0], combo[k]) for k in range(len(per)))
            return
        base = dict((i, shs[0]) for i, shs in per)
        seen = set()
        # every combination of omitted (None) optional children
        import itertools
        nullable = [i for i, shs in per if ('none',) in shs]
        for r in range(2, len(nullable) + 1):
            for sub in itertools.combinations(nullable, r):
                c = dict(base)
                for i in sub:
                    c[i] = ('none',)
                key = tuple(sorted(c.items()))
                if key not in seen:
                    seen.add(key)
                    yield c
        for i, shs in per:
            for sh in shs:
                c = dict(base)
                c[i] = sh
                key = tuple(sorted(c.items()))
                if key not in seen:
                    seen.add(key)
                    yield c


def shape_of(v):
    if v is None:
        return ('none',)
    if isinstance(v, str):
        return ('str',)
    if isinstance(v, list):
        return ('list',)
    return ('node', base_name(v))


def base_name(node):
    n = type(node).__name__
    if n == 'Hole':
        return type(node).__mro__[1].__name__
    return n


class ActionRaised(Exception):
    def __init__(self, exc):
        Exception.__init__(self, repr(exc))
        self.exc = exc


class ActionRun(object):
    def __init__(self, prod, p, value, slots, choice):
        self.prod = prod
        self.p = p
        self.value = value
        self.slots = slots      # list index 1..n -> dict(kind='T'|'N', sym, text, triple, hole)
        self.choice = choice


_hole_classes = {}


def hole_class(g, kind):
    """A subclass (named 'Hole') of the factory's class for `kind`: isinstance checks in the
    actions behave as for a real node; the unparser looks definitions up by class *name*."""
    if kind not in _hole_classes:
        base = getattr(g.asttypes, kind)
        _hole_classes[kind] = type('Hole', (base,), {'__hole__': True, '__init__': lambda self: None})
    return _hole_classes[kind]


def make_hole(g, shape, slot, triple, variant=0, elem_kinds=None):
    """A value of the given shape standing for 'whatever the sub-derivation produced' (contract stub)."""
    if shape == ('none',):
        return None
    if shape == ('str',):
        return 'tok%d' % slot
    if shape[0] == 'list':
        kinds = sorted(elem_kinds or ['Identifier'])
        n = max(1 + variant, len(kinds)) if variant >= 0 else 0
        return [make_hole(g, ('node', kinds[k % len(kinds)]), slot, triple, k) for k in range(n)]
    kind = shape[1]
    h = hole_class(g, kind)()
    h._hole_slot = slot
    h._hole_variant = variant
    h.lexpos, h.lineno, h.colno = triple
    h._token_map = {}
    # attributes the real actions read from children
    h.value = 'hole%d_%d' % (slot, variant) if kind != 'Elision' else 1
    if kind == 'FuncExpr':
        h._token_map = {'(': [triple]}
    return h


def run_action(g, prod, choice, with_comments=False, list_len=None, text_of=None, hidden=None, shapes=None):
    """Run the real action of `prod` on a hand-built YaccProduction with tagged slots."""
    n = len(prod.prod)
    lhs = ply.yacc.YaccSymbol()
    lhs.type = prod.name
    lhs.value = None
    sl = [lhs]
    slots = [None]
    for i, sym in enumerate(prod.prod, 1):
        lexpos, lineno = slot_pos(i)
        triple = slot_triple(i)
        if sym in g.terminals:
            t = ply.lex.LexToken()
            t.type = sym
            text = g.token_text.get(sym)
            if text_of and i in text_of:
                text = text_of[i]
            if text is None:
                text = {'ID': 'ident%d' % i, 'NUMBER': '%d' % (100 + i), 'STRING': '"s%d"' % i,
                        'REGEX': '/r%d/' % i}.get(sym, sym.lower())
            t.value = text
            t.lexpos, t.lineno = lexpos, lineno
            t.colno = colno_of(lineno, lexpos)
            if hidden and i in hidden:
                t.hidden_tokens = hidden[i]
            if sym == 'AUTOSEMI':
                # contract of Lexer._create_semi_token: AutoLexToken with colno 0
                t = g.lexmod.AutoLexToken()
                t.type, t.value, t.lexpos, t.lineno, t.colno = 'AUTOSEMI', ';', lexpos, lineno, 0
            sl.append(t)
            slots.append(dict(kind='T', sym=sym, text=t.value, triple=triple, hole=None, auto=(sym == 'AUTOSEMI')))
        else:
            s = ply.yacc.YaccSymbol()
            s.type = sym
            shape = choice.get(i - 1)
            if shape is None:
                raise KeyError('no shape for slot %d of %s' % (i, prod))
            variant = 0
            if shape[0] == 'list' and list_len is not None:
                variant = list_len - 1
            s.value = make_hole(g, shape, i, triple, variant,
                                shapes.elem_kinds.get(sym) if shapes is not None else None)
            if shape == ('none',) and sym in g.nullable:
                # empty derivation: ply's tracking gives the lexer's current position
                s.lexpos, s.lineno = LexerStub().lexpos, LexerStub().lineno
                triple = (s.lexpos, s.lineno, colno_of(s.lineno, s.lexpos))
            else:
                s.lexpos, s.lineno = lexpos, lineno
            sl.append(s)
            if shape == ('str',):
                # a non-terminal that passes one token's text through (e.g. assignment_operator)
                slots.append(dict(kind='T', sym=sym, text=s.value, triple=triple, hole=None, auto=False, passthrough=True))
            else:
                slots.append(dict(kind='N', sym=sym, text=None, triple=triple, hole=s.value, shape=shape))
    # ply's tracking contract: the new symbol takes the position of its first RHS symbol
    if n:
        lhs.lexpos = getattr(sl[1], 'lexpos', 0)
        lhs.lineno = getattr(sl[1], 'lineno', 0)
    else:
        lhs.lexpos, lhs.lineno = LexerStub().lexpos, LexerStub().lineno
    p = ply.yacc.YaccProduction(sl, None)
    p.lexer = LexerStub(with_comments)
    p.parser = None
    try:
        g.bound_action(prod)(p)
    except Exception as e:
        raise ActionRaised(e)
    return ActionRun(prod, p, p[0], slots, choice)


def new_nodes(g, value):
    """Nodes created by the action itself (everything reachable from the result that is not a hole),
    found through *all* attributes (not through children())."""
    Node = g.asttypes_mod.Node
    out = []
    seen = set()

    def visit(v):
        if isinstance(v, list):
            for x in v:
                visit(x)
            return
        if not isinstance(v, Node) or id(v) in seen:
            return
        seen.add(id(v))
        if getattr(type(v), '__hole__', False):
            return
        out.append(v)
        for k, x in vars(v).items():
            if k in ('_token_map',):
                continue
            visit(x)
    visit(value)
    return out


def attr_holes(g, node):
    """{attribute name: [hole slots]} of one new node (which child slot flows into which attribute)."""
    Node = g.asttypes_mod.Node
    res = {}
    for k, v in vars(node).items():
        if k == '_token_map':
            continue
        items = v if isinstance(v, list) else [v]
        tags = []
        for x in items:
            if isinstance(x, Node):
                tags.append(getattr(x, '_hole_slot', 'new:' + type(x).__name__))
        if tags:
            res[k] = tags
    return res

"""Frame / ownership verification over the real AST (properties C14, C15; DESIGN 4).

For every function of the modules in scope, every *store site* (attribute / subscript assignment,
augmented assignment, del, mutator-method call, setattr) must have a base that is provably OWNED by
the current call: a local bound only to fresh allocations, `self` of a per-call class (or inside
__init__), or a site listed in the sidecar with its justification.  Shared objects -- module-level
and class-level names, default-argument values, instances of long-lived classes, parameters such as
the tree -- may never be the base of a store.  The analysis is syntactic and conservative: a store
whose base cannot be classified is reported, never assumed fine.
"""
import ast
import os

MUTATORS = {'append', 'extend', 'insert', 'pop', 'remove', 'clear', 'update', 'add', 'setdefault', 'sort',
            'reverse', 'discard', 'popitem', 'appendleft', 'popleft', '__setitem__', '__delitem__', 'send'}
ALLOC_CALLS = {'list', 'dict', 'set', 'tuple', 'defaultdict', 'OrderedDict', 'deque', 'sorted', 'reversed', 'iter',
               'frozenset', 'namedtuple', 'compile'}
ONE_SHOT = {'iter', 'map', 'filter', 'zip', 'chain', 'islice', 'count', 'cycle', 'starmap', 'enumerate', 'reversed',
            'from_iterable'}
MEMO_DECORATORS = {'lru_cache', 'cache', 'memoize', 'cached_property', 'wraps_cache'}


class Site(object):
    def __init__(self, module, func, lineno, what, base, status, why):
        self.module, self.func, self.lineno, self.what = module, func, lineno, what
        self.base, self.status, self.why = base, status, why

    def key(self):
        return '%s:%s %s[%s]' % (self.module.split('.')[-1], self.func, self.what, self.base)

    def __repr__(self):
        return '%s -> %s (%s)' % (self.key(), self.status, self.why)


def base_name(node):
    """(root Name id | None, attribute chain list)"""
    chain = []
    while isinstance(node, (ast.Attribute, ast.Subscript, ast.Call)):
        if isinstance(node, ast.Attribute):
            chain.append(node.attr)
            node = node.value
        elif isinstance(node, ast.Subscript):
            chain.append('[]')
            node = node.value
        else:
            chain.append('()')
            node = node.func
    if isinstance(node, ast.Name):
        return node.id, list(reversed(chain))
    return None, list(reversed(chain))


def has_mutable_display(node):
    return any(isinstance(n, (ast.List, ast.Dict, ast.Set, ast.ListComp, ast.DictComp, ast.SetComp)) for n in ast.walk(node))


class ModuleFrames(object):
    def __init__(self, modname, path, table):
        self.modname = modname
        self.table = table           # sidecar ownership table (contracts/frames.py)
        with open(path) as fd:
            self.src = fd.read()
        self.tree = ast.parse(self.src)
        self.sites = []
        self.module_names = {}       # name -> value node (module level assignments)
        self.class_attrs = {}        # class -> {name: value node}
        self.classes = {}
        for n in self.tree.body:
            if isinstance(n, ast.Assign):
                for t in n.targets:
                    for x in ast.walk(t):
                        if isinstance(x, ast.Name):
                            self.module_names[x.id] = n.value
            elif isinstance(n, (ast.Import, ast.ImportFrom)):
                for a in n.names:
                    self.module_names[(a.asname or a.name).split('.')[0]] = None
            elif isinstance(n, (ast.FunctionDef, ast.ClassDef)):
                self.module_names[n.name] = n
            if isinstance(n, ast.ClassDef):
                self.classes[n.name] = n
                attrs = {}
                for b in n.body:
                    if isinstance(b, ast.Assign):
                        for t in b.targets:
                            if isinstance(t, ast.Name):
                                attrs[t.id] = b.value
                self.class_attrs[n.name] = attrs

    # ---- analysis ------------------------------------------------------
    def analyse(self):
        for n in self.tree.body:
            if isinstance(n, ast.FunctionDef):
                self.analyse_function(n, [n.name], None, [])
            elif isinstance(n, ast.ClassDef):
                for b in n.body:
                    if isinstance(b, ast.FunctionDef):
                        self.analyse_function(b, [n.name, b.name], n.name, [])
            elif not isinstance(n, (ast.Assign, ast.Import, ast.ImportFrom, ast.Expr, ast.If, ast.Try)):
                pass
        self.module_level_rules()
        return self.sites

    def local_bindings(self, fn):
        """name -> list of value nodes bound in this function (not in nested defs); params -> 'param'"""
        b = {}
        args = fn.args
        allargs = args.args + args.kwonlyargs + ([args.vararg] if args.vararg else []) + ([args.kwarg] if args.kwarg else [])
        for a in allargs:
            b.setdefault(a.arg, []).append('param')

        def visit(node):
            for ch in ast.iter_child_nodes(node):
                if isinstance(ch, (ast.FunctionDef, ast.Lambda, ast.ClassDef)):
                    if isinstance(ch, ast.FunctionDef):
                        b.setdefault(ch.name, []).append('def')
                    continue
                if isinstance(ch, ast.Assign):
                    for t in ch.targets:
                        self._bind(t, ch.value, b)
                elif isinstance(ch, ast.AugAssign) and isinstance(ch.target, ast.Name):
                    b.setdefault(ch.target.id, []).append(ch.value)
                elif isinstance(ch, (ast.For, ast.comprehension)):
                    for x in ast.walk(ch.target):
                        if isinstance(x, ast.Name):
                            b.setdefault(x.id, []).append(('iter', ch.iter))
                elif isinstance(ch, ast.With):
                    for it in ch.items:
                        if it.optional_vars is not None:
                            for x in ast.walk(it.optional_vars):
                                if isinstance(x, ast.Name):
                                    b.setdefault(x.id, []).append(('with', it.context_expr))
                elif isinstance(ch, ast.ExceptHandler) and ch.name:
                    b.setdefault(ch.name, []).append('exc')
                visit(ch)
        visit(fn)
        return b

    def _bind(self, target, value, b):
        if isinstance(target, ast.Name):
            b.setdefault(target.id, []).append(value)
        elif isinstance(target, (ast.Tuple, ast.List)):
            for i, t in enumerate(target.elts):
                v = value.elts[i] if isinstance(value, (ast.Tuple, ast.List)) and len(value.elts) == len(target.elts) else ('unpack', value)
                self._bind(t, v, b)

    def is_alloc(self, v):
        """expression certainly evaluates to an object allocated now (owned by this call)"""
        if isinstance(v, (ast.List, ast.Dict, ast.Set, ast.ListComp, ast.DictComp, ast.SetComp, ast.Tuple, ast.Constant,
                          ast.JoinedStr, ast.BinOp, ast.Compare, ast.BoolOp, ast.UnaryOp, ast.Lambda)):
            return True
        if isinstance(v, ast.Call):
            root, chain = base_name(v.func)
            name = chain[-1] if chain else root
            if isinstance(v.func, ast.Name):
                name = v.func.id
            if name in ALLOC_CALLS:
                return True
            if name in self.table.get('owned_classes', ()) or name in self.table.get('fresh_factories', ()):
                return True
            if name and name[:1].isupper() and name not in self.table.get('shared_classes', ()):
                # a class instantiation (naming convention checked against the module's class list)
                return name in self.classes or name in self.table.get('node_classes', ()) or name in self.table.get('owned_classes', ())
        return False

    def classify(self, root, chain, fn, bindings, outer, cls, funcpath):
        """status, reason for a store whose base is root(.chain)"""
        tab = self.table
        fname = funcpath[-1]
        if root is None:
            return 'unknown', 'base is not a name'
        if root == 'self' and cls:
            if fname == '__init__':
                return 'owned', 'constructor initialises its own object'
            if cls in tab.get('owned_classes', ()):
                return 'owned', 'instances of %s are allocated per call (O-alloc)' % cls
            return 'shared', '%s instances outlive a call; stores to self outside __init__' % cls
        if root in bindings:
            vals = bindings[root]
            if all(v not in ('param',) and not isinstance(v, tuple) and v not in ('def', 'exc') and self.is_alloc(v) for v in vals):
                return 'owned', 'local bound only to fresh allocations'
            if 'param' in vals:
                return 'param', 'parameter %s' % root
            return 'unknown', 'local %s is not bound only to fresh allocations' % root
        for ob, ofn in reversed(outer):
            if root in ob:
                vals = ob[root]
                if all(v not in ('param', 'def', 'exc') and not isinstance(v, tuple) and self.is_alloc(v) for v in vals):
                    return 'owned', 'closure variable of %s bound only to fresh allocations' % ofn
                if 'param' in vals:
                    return 'param', 'parameter %s of enclosing %s' % (root, ofn)
                return 'unknown', 'closure variable %s of %s' % (root, ofn)
        if root in self.module_names:
            return 'shared', 'module-level name %s' % root
        return 'unknown', 'unresolved name %s' % root

    def analyse_function(self, fn, funcpath, cls, outer):
        bindings = self.local_bindings(fn)
        fq = '.'.join(funcpath)
        # mutable default arguments, memoising decorators, global statements
        for d in fn.args.defaults + [x for x in fn.args.kw_defaults if x is not None]:
            if has_mutable_display(d) or (isinstance(d, ast.Call) and not isinstance(d.func, ast.Attribute)):
                self.add(fq, d.lineno, 'default-arg', ast.unparse(d)[:30], 'shared', 'mutable default argument value is shared by all calls')
        for dec in fn.decorator_list:
            root, chain = base_name(dec)
            nm = (chain[-1] if chain and chain[-1] != '()' else None) or root
            names = set([root] + chain)
            if names & MEMO_DECORATORS:
                self.add(fq, dec.lineno, 'decorator', ast.unparse(dec)[:30], 'shared', 'memoising decorator keeps state across calls')

        def visit(node):
            for ch in ast.iter_child_nodes(node):
                if isinstance(ch, ast.FunctionDef):
                    self.analyse_function(ch, funcpath + [ch.name], cls, outer + [(bindings, fq)])
                    continue
                if isinstance(ch, (ast.Lambda, ast.ClassDef)):
                    continue
                if isinstance(ch, (ast.Global, ast.Nonlocal)) and isinstance(ch, ast.Global):
                    self.add(fq, ch.lineno, 'global', ','.join(ch.names), 'shared', 'global statement rebinding module state')
                targets = []
                if isinstance(ch, ast.Assign):
                    targets = [(t, 'assign') for t in ch.targets]
                elif isinstance(ch, ast.AugAssign):
                    targets = [(ch.target, 'augassign')]
                elif isinstance(ch, ast.AnnAssign):
                    targets = [(ch.target, 'assign')]
                elif isinstance(ch, ast.Delete):
                    targets = [(t, 'del') for t in ch.targets]
                flat = []
                for t, what in targets:
                    for x in ([t] if not isinstance(t, (ast.Tuple, ast.List)) else t.elts):
                        flat.append((x, what))
                for t, what in flat:
                    if isinstance(t, (ast.Attribute, ast.Subscript)):
                        root, chain = base_name(t.value)
                        st, why = self.classify(root, chain, fn, bindings, outer, cls, funcpath)
                        self.add(fq, t.lineno, what, '.'.join([root or '?'] + chain), st, why)
                if isinstance(ch, ast.Call):
                    f = ch.func
                    if isinstance(f, ast.Attribute) and f.attr in MUTATORS:
                        root, chain = base_name(f.value)
                        st, why = self.classify(root, chain, fn, bindings, outer, cls, funcpath)
                        self.add(fq, ch.lineno, 'call.' + f.attr, '.'.join([root or '?'] + chain), st, why)
                    if isinstance(f, ast.Name) and f.id in ('setattr', 'delattr') and ch.args:
                        root, chain = base_name(ch.args[0])
                        st, why = self.classify(root, chain, fn, bindings, outer, cls, funcpath)
                        self.add(fq, ch.lineno, f.id, '.'.join([root or '?'] + chain), st, why)
                visit(ch)
        visit(fn)

    def add(self, func, lineno, what, base, status, why):
        self.sites.append(Site(self.modname, func, lineno, what, base, status, why))

    def module_level_rules(self):
        # module-level / class-level names bound to containers that contain nested mutable objects
        for name, v in self.module_names.items():
            if isinstance(v, ast.AST) and not isinstance(v, (ast.FunctionDef, ast.ClassDef)):
                if isinstance(v, (ast.Tuple, ast.List, ast.Dict, ast.Set)) and any(
                        has_mutable_display(e) for e in ast.iter_child_nodes(v) if not isinstance(e, ast.expr_context)):
                    self.add('<module>', v.lineno, 'template', name, 'shared',
                             'module-level container holding a nested mutable object (shared if copied shallowly)')
        for cname, attrs in self.class_attrs.items():
            for name, v in attrs.items():
                if isinstance(v, (ast.Tuple, ast.List, ast.Dict, ast.Set)) and any(
                        has_mutable_display(e) for e in ast.iter_child_nodes(v) if not isinstance(e, ast.expr_context)):
                    self.add(cname, v.lineno, 'template', name, 'shared',
                             'class-level container holding a nested mutable object')

        # class-level mutable defaults: a class attribute bound to a mutable display is ONE object for every instance that does not
        # rebind it in a constructor that actually runs; if it is mutated through self anywhere, instances share state
        MUT = ('append', 'extend', 'insert', 'pop', 'remove', 'clear', 'update', 'setdefault', 'add', 'discard', 'popitem', 'sort', 'reverse')

        def rebinds(cnode, attr):
            for b in cnode.body:
                if isinstance(b, ast.FunctionDef) and b.name == '__init__':
                    for n in ast.walk(b):
                        if isinstance(n, ast.Attribute) and isinstance(n.ctx, ast.Store) and isinstance(n.value, ast.Name) and n.value.id == 'self' and n.attr == attr:
                            return True
                    return False
            return None          # no constructor of its own

        def chains_up(cnode):
            for b in cnode.body:
                if isinstance(b, ast.FunctionDef) and b.name == '__init__':
                    return any(isinstance(n, ast.Call) and isinstance(n.func, ast.Attribute) and n.func.attr == '__init__' for n in ast.walk(b))
            return True
        for cname, attrs in self.class_attrs.items():
            for name, v in attrs.items():
                if not (isinstance(v, (ast.List, ast.Dict, ast.Set)) or (isinstance(v, ast.Call) and isinstance(v.func, ast.Name) and v.func.id in ('dict', 'list', 'set', 'defaultdict', 'OrderedDict'))):
                    continue
                # mutated in place through self.<name> somewhere in the module?
                mutated = None
                for n in ast.walk(self.tree):
                    tgt = None
                    if isinstance(n, ast.Subscript) and isinstance(n.ctx, (ast.Store, ast.Del)):
                        tgt = n.value
                    elif isinstance(n, ast.Call) and isinstance(n.func, ast.Attribute) and n.func.attr in MUT:
                        tgt = n.func.value
                    if isinstance(tgt, ast.Attribute) and tgt.attr == name and isinstance(tgt.value, ast.Name) and tgt.value.id == 'self':
                        mutated = n.lineno
                        break
                if mutated is None:
                    continue
                users = [c for c in self.classes.values() if c.name == cname or any(isinstance(b, ast.Name) and b.id == cname for b in c.bases)]
                for c in users:
                    r = rebinds(c, name)
                    if r is True:
                        continue
                    if r is None or chains_up(c):
                        # falls back on a parent constructor: fine if the defining class rebinds it there
                        if c.name != cname and rebinds(self.classes[cname], name) is True and chains_up(c):
                            continue
                        if c.name == cname and r is None:
                            pass
                    self.add(c.name, v.lineno, 'class-default', name, 'shared',
                             'class-level mutable default %s.%s is mutated through self (line %d) and instances of %s do not rebind it in a constructor that runs' % (
                                 cname, name, mutated, c.name))
        # a module-level mutable object stored uncopied in an instance attribute and mutated through it: every instance (and every
        # later call) shares -- and grows -- the one module object
        def is_mutable_value(v):
            return isinstance(v, (ast.List, ast.Dict, ast.Set)) or (
                isinstance(v, ast.Call) and isinstance(v.func, ast.Name) and v.func.id in ('dict', 'list', 'set', 'defaultdict', 'OrderedDict'))
        module_mutables = dict((name, v) for name, v in self.module_names.items() if isinstance(v, ast.AST) and is_mutable_value(v))
        for cname, cnode in self.classes.items():
            for n in ast.walk(cnode):
                if not (isinstance(n, ast.Assign) and isinstance(n.value, ast.Name) and n.value.id in module_mutables):
                    continue
                for t in n.targets:
                    if isinstance(t, ast.Attribute) and isinstance(t.value, ast.Name) and t.value.id == 'self':
                        attr = t.attr
                        for m in ast.walk(cnode):
                            tgt = None
                            if isinstance(m, ast.Subscript) and isinstance(m.ctx, (ast.Store, ast.Del)):
                                tgt = m.value
                            elif isinstance(m, ast.Call) and isinstance(m.func, ast.Attribute) and m.func.attr in MUT:
                                tgt = m.func.value
                            elif isinstance(m, ast.AugAssign):
                                tgt = m.target
                            if isinstance(tgt, ast.Attribute) and tgt.attr == attr and isinstance(tgt.value, ast.Name) and tgt.value.id == 'self':
                                self.add(cname, n.lineno, 'module-alias', attr, 'shared',
                                         'the module-level mutable object %s is stored uncopied in self.%s (line %d) and mutated through it (line %d): '
                                         'one object for all instances and calls' % (n.value.id, attr, n.lineno, m.lineno))
                                break

    # ---- other obligations ----------------------------------------------
    def instantiations(self, classnames):
        """[(class, enclosing function path tuple, lineno)] for every call ClassName(...)"""
        out = []

        def visit(node, path):
            for ch in ast.iter_child_nodes(node):
                p = path
                if isinstance(ch, (ast.FunctionDef, ast.ClassDef)):
                    p = path + (ch.name,)
                if isinstance(ch, ast.Call):
                    nm = ch.func.id if isinstance(ch.func, ast.Name) else (ch.func.attr if isinstance(ch.func, ast.Attribute) else None)
                    if nm in classnames:
                        out.append((nm, path, ch.lineno))
                visit(ch, p)
        visit(self.tree, ())
        return out

    def self_reads_not_initialised(self, cname):
        """attributes read as self.x in methods of class cname that __init__ (or the class body / properties) never sets"""
        c = self.classes[cname]
        inited = set(self.class_attrs.get(cname, {}))
        chain = [c]
        todo = [c]
        while todo:
            k = todo.pop()
            for bs in k.bases:
                if isinstance(bs, ast.Name) and bs.id in self.classes and self.classes[bs.id] not in chain:
                    chain.append(self.classes[bs.id])
                    todo.append(self.classes[bs.id])
        for k in chain[1:]:
            inited |= set(self.class_attrs.get(k.name, {}))
            for b in k.body:
                if isinstance(b, ast.FunctionDef):
                    inited.add(b.name)
                    if b.name == '__init__' and not any(isinstance(x, ast.FunctionDef) and x.name == '__init__' for x in c.body):
                        for n in ast.walk(b):
                            if isinstance(n, ast.Attribute) and isinstance(n.ctx, ast.Store) and isinstance(n.value, ast.Name) and n.value.id == 'self':
                                inited.add(n.attr)
        for b in c.body:
            if isinstance(b, ast.FunctionDef):
                inited.add(b.name)
                if b.name == '__init__':
                    for n in ast.walk(b):
                        if isinstance(n, ast.Attribute) and isinstance(n.ctx, ast.Store) and isinstance(n.value, ast.Name) and n.value.id == 'self':
                            inited.add(n.attr)
                        if isinstance(n, ast.Call) and isinstance(n.func, ast.Attribute) and n.func.attr == '__setattr__' and n.args and isinstance(n.args[0], ast.Constant):
                            inited.add(n.args[0].value)
        missing = []
        for b in c.body:
            if isinstance(b, ast.FunctionDef) and b.name != '__init__':
                for n in ast.walk(b):
                    if (isinstance(n, ast.Attribute) and isinstance(n.ctx, ast.Load) and isinstance(n.value, ast.Name)
                            and n.value.id == 'self' and n.attr not in inited and not n.attr.startswith('__')):
                        missing.append((b.name, n.attr, n.lineno))
        return missing

    def one_shot_captures(self):
        """generator expressions / one-shot iterator calls whose value is kept in long-lived state: passed as an
        argument to a call (other than an immediate consumer) or stored in an attribute"""
        consumers = {'list', 'tuple', 'set', 'frozenset', 'dict', 'sorted', 'join', 'any', 'all', 'sum', 'min', 'max', 'next',
                     'extend', 'update', 'chain', 'zip', 'enumerate', 'iter', 'len', 'reversed', 'map', 'filter', 'product'}
        out = []
        parents = {}
        for n in ast.walk(self.tree):
            for ch in ast.iter_child_nodes(n):
                parents[ch] = n
        for n in ast.walk(self.tree):
            shot = isinstance(n, ast.GeneratorExp)
            if isinstance(n, ast.Call):
                nm = n.func.id if isinstance(n.func, ast.Name) else (n.func.attr if isinstance(n.func, ast.Attribute) else None)
                shot = nm in ONE_SHOT
            if not shot:
                continue
            p = parents.get(n)
            if isinstance(p, ast.keyword):
                p = parents.get(p)
            if isinstance(p, ast.Call) and (n in p.args or any(k.value is n for k in p.keywords)):
                nm = p.func.id if isinstance(p.func, ast.Name) else (p.func.attr if isinstance(p.func, ast.Attribute) else None)
                if nm not in consumers:
                    out.append((n.lineno, 'one-shot iterator passed to %s(...)' % nm))
            elif isinstance(p, ast.Assign) and any(isinstance(t, ast.Attribute) for t in p.targets):
                out.append((n.lineno, 'one-shot iterator stored in an attribute'))
            elif isinstance(p, ast.Assign) and any(isinstance(t, ast.Name) for t in p.targets):
                # bound to a local of a factory function whose nested function -- returned, so it outlives the call and runs once
                # per use -- reads that local: the first use drains it
                names = {t.id for t in p.targets if isinstance(t, ast.Name)}
                f = parents.get(p)
                while f is not None and not isinstance(f, (ast.FunctionDef, ast.Lambda)):
                    f = parents.get(f)
                if isinstance(f, ast.FunctionDef):
                    returned = {r.value.id for r in ast.walk(f) if isinstance(r, ast.Return) and isinstance(r.value, ast.Name)}
                    for g in f.body:
                        if isinstance(g, ast.FunctionDef) and g.name in returned and any(
                                isinstance(x, ast.Name) and isinstance(x.ctx, ast.Load) and x.id in names for x in ast.walk(g)):
                            out.append((n.lineno, 'one-shot iterator bound to %s, which the returned per-use function %s reads' % ('/'.join(sorted(names)), g.name)))
                            break
        return out

"""Shared bounded round-trip machinery for C01 / C02 (parse -> print -> parse)."""
import importlib
import re

from . import gen

ID_REPS = ['a', '\xe9', '$', '_x1', 'a\u0301', 'b\u203fc', 'in1', 'typeofx']      # ASCII, non-ASCII letter, $, combining mark, connector
NUM_REPS = ['1', '1.', '.5', '0x1F', '1e3', '0', '12.5']
STR_REPS = ['"s"', "'t'", '"a\\\nb"', "'\\u0041\\\r\nz'"]
RE_REPS = ['/r/', '/r/g', '/[/]x/']

HAND = [
    'a + +b; a - -b; a + ++b; a - --b; a++ + b; a-- - b; a + + +b; a - - -b;',
    'x / /re/; x / /re/g; x = a / b / c; x = /re/ / 2; x = a /re/.y;'.replace('x = a /re/.y;', ''),
    '1 .y; 1..y; 1.5.y; (1).y; 0x1F.y; 1e3.y; 5 .toString();',
    'a in b; a instanceof b; \xe9 in b; a\u0301 in b; a in \xe9; typeof \xe9; typeof a; void 0; delete a.b; new a; new a.b(c); new new a;',
    'function f() { return /re/; } function g() { return a; } function h() { return "s"; } function k() { return -1; }',
    'x = /re/ in y; x = /re/g in y; x = /re/ instanceof y; for (k in /re/) ; for (var k in o) ; for (var k = 1 in o) ;',
    '/x/.test(a)', '/re/g.exec(s); a', '/=/.test(b) ? c : d;',
    'var p = "C:\\\\tools\\\\\\\nbin"; q = \'a\\\\\\\r\nb\\\\\'; r = "x\\\ny\\\\z";',
    'for (a\u0301 in o) f(a\u0301); for (x\u203f in y) ; for (var i = /x/ in o) ; for (var q\u0301 in o) ; for (a.b\u0301 in o) ;',
    'if (a) b; else c; if (a) { b; } else { c; } if (a) ; else ; do a; while (b); do { a; } while (b) while (1) ; for (;;) ;',
    'while (1); ', 'for (;;); ', 'if (a) ; ', 'l: ; ', 'with (a) ; ', 'while (1) { } ', 'a; {} b;', 'a; { b; } c;',
    'switch (a) { case 1: case "s": b; break; default: ; } throw a; throw -a; throw (a); throw "s"; throw /r/;',
    'x = {a: 1, "b": 2, 3: 4, get a() { }, set a(v) { }, if: 1}; x = {}; x = [ , ]; x = [ , , a, , b, , ]; x = [a, ]; x = [,a];',
    'var a = function () { }, b = function c() { }; (function () { })(); (function () { }).call(a); !function () { }();',
    'x = a ? b : c ? d : e; x = (a, b); x = a = b = c; x = a || b && c | d ^ e & f; x = (a || b) && c; x = a * (b + c);',
    'x = -(-a); x = +(+a); x = - -a; x = -(--a); x = +(++a); x = !(!a); x = ~(~a); x = typeof (typeof a); x = -(a)++;',
    'x = a < b > c <= d >= e == f != g === h !== i; x = a << b >> c >>> d; x <<= 1; x >>>= 2; x = a % b * c / d;',
    'x = "a\\\nb" + \'c\\\r\nd\'; x = "\\x41\\u0042\\101\\0"; x = \'\\\'\'; x = "\\""; x = "\\\\";',
    'try { a; } catch (e) { b; } finally { c; } try { } catch (e) { } try { } finally { }',
    'a: b: c; a: { break a; } a: for (;;) { continue a; }',
    'x = new Foo; x = new Foo(); x = new Foo(1).bar; x = new (foo())(); x = new (foo.bar); x = (new Foo).bar;',
    'x = a.b.c; x = a[b][c]; x = a(b)(c); x = a.b(c)[d].e; x = a["b"]; x = a[1]; x = a.class; x = a.if; x = a.in;',
    'debugger; ; ;; var x; var y, z = 1;',
    'x = function () { return function () { return 1; }; }; function f(a, b, c) { "use strict"; return a + b + c; }',
    'x = 1 + 1.; x = 1. + .5; x = a - .5; x = a + 0x1F; x = 1.5e10; x = 1e-5; x = 1E+5;',
    'if (a) if (b) c; else d; if (a) { if (b) c; } else d; if (a) for (;;) if (b) c; else d;',
    'x = a\n++\nb',
    'x = - --a; x = + ++a; x = - -a; x = + +a; x = - +a; x = -+a; x = +-a; x = !--a; x = typeof ++a; x = - - -a; x = ~-a; x = -~a;',
    'x = a - - --b; x = a++ + ++b; x = a-- - --b; x = a + - + - b; x = a++ - -b; x = - a++; x = - a--; x = + a++ + b;',
    'x = a - (-b); x = a + (+b); x = a - (--b); x = a + (++b); x = (a++) + b; x = (a--) - b;',
    'function f(o) { var k; for (k in o) ; }', '{ while (1) ; }', '{ for (;;) ; }', '{ if (a) ; }', '{ if (a) b; else ; }',
    '{ l: ; }', '{ with (a) ; }', 'switch (a) { case 1: while (b) ; }', 'function g() { for (var k in o) ; }', 'for (k in o) ;',
    'do ; while (a); b;', '{ do ; while (a); }', 'if (a) ; else b;',
    # `get` / `set` as plain identifiers in front of a keyword operator: accepted when more than one white-space character follows
    # (the lexer's accessor look-ahead wants exactly one), and the printers write exactly one (finding F32)
    'get  in y;', 'x = set  instanceof b;',
]


def variants(toks, k):
    """token-text variations of a generated sentence"""
    out = []
    for t, x in toks:
        if t == 'ID':
            x = ID_REPS[k % len(ID_REPS)]
        elif t == 'NUMBER':
            x = NUM_REPS[k % len(NUM_REPS)]
        elif t == 'STRING':
            x = STR_REPS[k % len(STR_REPS)]
        elif t == 'REGEX':
            x = RE_REPS[k % len(RE_REPS)]
        out.append((t, x))
    return out


def programs(g, tier):
    corpus = gen.corpus(g, depth2=True)
    progs = []
    for j, (label, toks) in enumerate(corpus):
        progs.append(gen.render(toks, ' '))
        ks = range(len(ID_REPS)) if tier == 'thorough' else [(j % (len(ID_REPS) - 1)) + 1]
        for k in ks:
            progs.append(gen.render(variants(toks, k), ' '))
    progs += HAND + list(gen.EXTRA_PROGRAMS)
    seen = set()
    out = []
    for p in progs:
        if p not in seen:
            seen.add(p)
            out.append(p)
    return out


PATT_CONT = re.compile('\\\\(\r\n|\n|\r|\u2028|\u2029)')


def norm(asttypes, node, strip_cont=False, drop_empty=False, _filter=False):
    """structural form of a tree: kinds, nesting, operators, spellings -- positions ignored.
    drop_empty: stand-alone empty statements in statement lists are ignored (licensed for semicolon dropping)."""
    Node = asttypes.Node
    if isinstance(node, list):
        items = [norm(asttypes, x, strip_cont, drop_empty) for x in node]
        if _filter:
            items = [x for x in items if x != ('EmptyStatement', (('value', ';'),))]
        return items
    if not isinstance(node, Node):
        return node
    kind = type(node).__name__
    fields = []
    for k, v in sorted(vars(node).items()):
        if k in ('_token_map', 'lexpos', 'lineno', 'colno', 'comments', 'sourcepath'):
            continue
        if isinstance(v, (list, Node)):
            is_stmt_list = drop_empty and isinstance(v, list) and k in ('_children_list', 'elements') and kind != 'VarStatement'
            val = norm(asttypes, v, strip_cont, drop_empty, is_stmt_list)
        else:
            val = v
            if strip_cont and kind == 'String' and k == 'value':
                val = PATT_CONT.sub('', v)
        fields.append((k, val))
    return (kind, tuple((k, tuple(v) if isinstance(v, list) else v) for k, v in fields))

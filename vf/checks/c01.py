"""C01 -- pretty-printed output parses back to the same tree and is a fixpoint (DESIGN 4, C01)."""
import importlib
import multiprocessing

from ..tables import core
from .. import roundtrip, scratch

LEVEL = 'other'

_M = {}
INDENTS = ['  ', '\t', '', '    ']


def _init(src_root):
    scratch.use_existing(src_root)
    _M['es5'] = importlib.import_module('calmjs.parse.parsers.es5')
    _M['unparsers'] = importlib.import_module('calmjs.parse.unparsers.es5')
    _M['asttypes'] = importlib.import_module('calmjs.parse.asttypes')


def check_program(arg):
    src, indents = arg
    es5, unparsers, asttypes = _M['es5'], _M['unparsers'], _M['asttypes']
    try:
        tree = es5.parse(src)                # the public entry point, many times in a row in this process
    except Exception:
        return None
    out = []
    a = roundtrip.norm(asttypes, tree)
    for s in indents:
        try:
            text = unparsers.pretty_print(tree, indent_str=s)
        except Exception as e:
            out.append((s, 'PRINT-RAISED pretty_print raised %r' % (e,), None, 'PRINT-RAISED'))
            continue
        try:
            t2 = es5.parse(text)
        except Exception as e:
            out.append((s, 'REJECTED %r pretty-prints to %r which does not parse: %s' % (src, text, str(e)[:80]), text, diagnose(tree, s)))
            continue
        if roundtrip.norm(asttypes, t2) != a:
            out.append((s, 'DIFFERENT %r pretty-prints to %r which parses to a different tree' % (src, text), text, diagnose(tree, s)))
            continue
        text2 = unparsers.pretty_print(t2, indent_str=s)
        if text2 != text:
            out.append((s, 'NOT-FIXPOINT %r: first print %r, second print %r' % (src, text, text2), text, 'NOT-FIXPOINT'))
    return out


def diagnose(tree, s):
    from .c02 import lex_types, char_class
    unparsers = _M['unparsers']
    frags = [f.text for f in unparsers.pretty_printer(indent_str=s)(tree)]
    for x, y in zip(frags, frags[1:]):
        if not x.strip() or not y.strip():
            continue
        a, b, ab = lex_types(x), lex_types(y), lex_types(x + y)
        if ('ERROR', '') in a or ('ERROR', '') in b:
            continue
        if ab != a + b:
            return 'FUSE %s[%s] + [%s]%s' % (a[-1][0] if a else '?', char_class(x[-1:]), char_class(y[:1]), b[0][0] if b else '?')
    # `get` / `set` printed as a plain identifier with exactly one blank and an identifier-like word behind it: the lexer's accessor
    # look-ahead types it GETPROP / SETPROP
    words = [f for f in frags if f.strip()]
    for x, y in zip(words, words[1:]):
        if x in ('get', 'set') and lex_types(x + ' ' + y)[:1] and lex_types(x + ' ' + y)[0][0] in ('GETPROP', 'SETPROP'):
            return 'ACCESSOR-LOOKAHEAD %s + %s' % (x, (lex_types(y) or [('?', '')])[0][0])
    return 'OTHER'


def _work(chunk):
    return [(a[0], check_program(a)) for a in chunk]


def main(run, tier):
    g = core.G()
    run.explanation = ('per grammar production the pretty printer emits exactly the production\'s tokens and children in order (E2, real '
                       'definitions and handlers); parse -> print -> parse -> print on generated programs with token-text variations for '
                       'several indentation strings is a bounded stand-in; conformance to "any ES5 parser" is relative to C03')
    for f in ('calmjs.parse.rules', 'calmjs.parse.handlers.core', 'calmjs.parse.handlers.indentation', 'calmjs.parse.unparsers.es5',
              'calmjs.parse.unparsers.walker', 'calmjs.parse.unparsers.base', 'calmjs.parse.ruletypes'):
        run.function(f, scratch.sha256_file(scratch.module_path(f))[:16])
    run.floor = 150
    from . import printfwd
    printfwd.add(run, tier)
    from . import printobl
    printobl.print_obligations(run, g, ('pretty',))
    from . import sepobl
    sepobl.sep_obligations(run, g, ('pretty',))
    from . import parsefwd
    parsefwd.add(run, tier)
    # the per-production obligations speak about one print; "printing again reproduces the output byte for byte" also needs that a
    # print leaves nothing behind in the printer, whatever happened to earlier prints (ownership obligations of C14, imported)
    from .c14 import frame_obligations
    import contracts.frames as cf
    frame_obligations(run, cf.C14, 'C14')
    importlib.import_module('calmjs.parse.parsers.es5').Parser()
    progs = roundtrip.programs(g, tier)
    args = [(p, INDENTS if tier == 'thorough' else [INDENTS[k % 3], INDENTS[(k + 1) % 3]]) for k, p in enumerate(progs)]
    chunks = [args[i:i + 100] for i in range(0, len(args), 100)]
    ctx = multiprocessing.get_context('fork')
    n = ok = 0
    fails = []
    with ctx.Pool(16, initializer=_init, initargs=(scratch.scratch_src(),)) as pool:
        for res in pool.imap_unordered(_work, chunks):
            for src, out in res:
                n += 1
                if out is None:
                    continue
                ok += 1
                for s, why, text, sig in out:
                    fails.append((src, s, why, text, sig))
    fails.sort(key=lambda x: (len(x[0]), x[0]))
    sigs = {}
    shown = 0
    for src, s, why, text, sig in fails:
        key = '%s' % sig
        if key in sigs:
            continue
        sigs[key] = src
        if run.failed('rt.pretty', 'E4/bounded', key, dict(source=src, indent=s, printed=text, problem=why), observed=why,
                      required='pretty output parses back to the same tree and is a fixpoint', replayed=True) == 'violation':
            shown += 1
            if shown >= 12:
                break
    run.bounded_check('rt.pretty', 'one program per production and depth-2 nesting x token-text variations + hand-written programs, '
                      'x indentation strings (quick: 2 of 3 per program)', n, ok)
    # fixpoint through ONE printer object whose earlier prints were abandoned or interleaved
    es5 = importlib.import_module('calmjs.parse.parsers.es5')
    unp = importlib.import_module('calmjs.parse.unparsers.es5')
    m = 0
    for src in ('function f(a) { if (a) { return { b: [1, 2] }; } while (a) { a--; } }', 'switch (x) { case 1: { y; } default: z; }'):
        for ind in ('  ', '\t'):
            m += 1
            tree = es5.parse(src)
            want = ''.join(fr.text for fr in unp.pretty_printer(indent_str=ind)(tree))
            printer = unp.pretty_printer(indent_str=ind)
            it = printer(tree)
            for _ in range(14):                          # past the first `{`: the indentation level is above zero
                next(it)
            it.close()                                   # abandoned part-way
            a_, b_ = printer(tree), printer(es5.parse(want))
            inter = []
            for x, y in zip(a_, b_):                     # two prints of the same printer, consumed side by side
                inter.append(x.text)
            again = ''.join(fr.text for fr in printer(es5.parse(want)))
            if again != want:
                why = 'printing the re-parsed output through a printer whose earlier prints were abandoned gives %r, not %r' % (again[:80], want[:80])
                run.failed('rt.pretty.reuse', 'E4/bounded', '%s | %r' % (src[:30], ind), dict(source=src, indent=ind, problem=why), observed=why,
                           required='the pretty form is a fixpoint of parse-then-print, whatever the printer object did before', replayed=True)
    run.bounded_check('rt.pretty.reuse', 'abandoned and interleaved prints through one printer object, then the fixpoint', m)
    run.trust('parser determinism; C20 for the layout; C03/C04 for "any conforming ES5 parser"')
    run.assume('"any conforming ES5 parser": no second parser exists in the sandbox (stated limit)',
               'token fusion / line-break safety of the pretty layout: O-sep decides every adjacency of every production against the grammar\'s FIRST / LAST token '
               'classes, with a fixed set of representative spellings per open class (identifiers, numbers, strings, regexes); other spellings: bounded')


def replay(data):
    _init(scratch.scratch_src())
    w = data.get('witness') or {}
    if 'source' in w:
        r = check_program((w['source'], [w.get('indent', '  ')]))
        print(repr(w['source']), r)
        return 1 if r else 0
    print(data.get('observed'))
    return 1

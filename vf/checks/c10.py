"""C10 -- Base64-VLQ codec is a bijection in canonical Source Map V3 form (DESIGN 4, C10)."""
import importlib
import itertools
import random

from .. import scratch
from ..e1run import Concrete, prove_lemmas, verify_functions, run_bounded, model_int
from spec import sourcemap_v3 as v3

LEVEL = 'proof'


def bit_laws_crosscheck(run, tier):
    """BL1..BL5 are assumed by the engine; re-checked here exhaustively in CPython on a finite range."""
    lim = 1 << (9 if tier == 'quick' else 12)
    n = 0
    for x in range(-lim, lim):
        for k in range(0, 8):
            P = 1 << k
            assert x << k == x * P, ('BL1', x, k)
            assert x >> k == x // P, ('BL2', x, k)
            assert x & (P - 1) == x % P, ('BL3', x, k)
            assert x & P == P * ((x // P) % 2), ('BL5', x, k)
            n += 4
    for k in range(0, 8):
        P = 1 << k
        for a in range(0, 64):
            for b in range(0, P):
                assert (a * P) | b == a * P + b, ('BL4', a, k, b)
                n += 1
    run.bounded_check('bit-op laws BL1-BL5 vs CPython', 'x in [-%d,%d), shifts < 8; BL4: multiples of 2^k < 64*2^k' % (lim, lim), n)


def constants(run, vlq):
    """P5: the constants are those of the Source Map V3 proposal (concrete obligations on the real module)."""
    checks = [
        ('const.alphabet_is_rfc4648', vlq.INT_B64 == v3.RFC4648, 'INT_B64 = %r' % vlq.INT_B64),
        ('const.alphabet_inverse', vlq.B64_INT == dict((c, i) for i, c in enumerate(v3.RFC4648)), 'B64_INT'),
        ('const.separators_not_in_alphabet', ',' not in vlq.INT_B64 and ';' not in vlq.INT_B64, "',' ';'"),
        ('const.shift_5', vlq.VLQ_SHIFT == 5, vlq.VLQ_SHIFT),
        ('const.cont_bit_32', vlq.VLQ_CONT == 32 and vlq.VLQ_BASE == 32, vlq.VLQ_CONT),
        ('const.base_mask_31', vlq.VLQ_BASE_MASK == 31, vlq.VLQ_BASE_MASK),
    ]
    for name, ok, what in checks:
        if ok:
            run.discharged(name, 'E3/const', 'python', 0.0)
        else:
            run.failed(name, 'E3/const', 'constant', dict(value=repr(what)), observed=repr(what),
                       required='value fixed by the Source Map V3 proposal', replayed=True)


def int_inputs(tier, seed):
    lim = 1 << (12 if tier == 'quick' else 17)
    for i in range(-lim, lim + 1):
        yield (i,)
    for k in range(1, 24 if tier == 'quick' else 61):
        for d in (-1, 0, 1):
            for sgn in (1, -1):
                yield (sgn * (32 ** k + d),)
                yield (sgn * (32 ** k // 2 + d),)


def list_inputs(tier, seed):
    pool = [0, 1, -1, 15, 16, -16, 31, 32, 511, 512, -512, 1023, 1024, 32 ** 4, -(32 ** 5) - 1]
    for (i,) in int_inputs(tier, seed):          # every integer of the scalar domain as a one-element list
        yield ([i],)
    for k in range(1, 70):                       # +-2^k, +-2^k+-1 in a two-element list
        for d in (-1, 0, 1):
            yield ([2 ** k + d, -(2 ** k) + d],)
    small = pool[:7] if tier == 'quick' else pool[:9]
    for n in range(0, 4):
        for t in itertools.product(small, repeat=n):
            yield (list(t),)
    rnd = random.Random(seed)
    for _ in range(300 if tier == 'quick' else 5000):
        yield ([rnd.choice(pool) if rnd.random() < .5 else rnd.randint(-10 ** 9, 10 ** 9)
                for _ in range(rnd.randint(0, 8))],)


def mapping_inputs(tier, seed):
    segs = [(0,), (3,), (0, 0, 0, 0), (5, 0, 1, -3), (1, 1, -1, 40, 2), (100, 0, 0, 0, -1)]
    lines = [[]]
    for n in range(1, 3 if tier == 'quick' else 4):
        for t in itertools.product(segs, repeat=n):
            lines.append(list(t))
    for n in range(1, 3):
        for t in itertools.product(lines[:20 if tier == 'quick' else 60], repeat=n):
            yield ([list(l) for l in t],)
    # every base64 digit as a first group and as a continuation group, positive and negative, in segment position 0 and 3
    for d in range(32):
        for v in (d, -d, d + 16 * 32, -(d + 16 * 32), (d << 4) + 5, -((d << 4) + 5)):
            yield ([[(v, 0, 0, 0), (0, 0, 1, v)], [(1, 0, 0, v, v)]],)


def canon_inputs(tier, seed):
    # all digit strings up to length 3 over a reduced digit set that covers every class
    digs = [0, 1, 2, 31, 32, 33, 63]
    for n in range(0, 4):
        for t in itertools.product(digs, repeat=n):
            yield (list(t),)


def concretes(vlq):
    def post_enc(args, res):
        if isinstance(res, Exception):
            return 'must not raise'
        want = v3.py_encode(args[0])
        return None if res == want else 'canonical V3 encoding is %r' % want

    def post_rt(args, res):
        if isinstance(res, Exception):
            return 'must not raise'
        return None if res == args[0] else 'decode(encode(i)) must be %r' % (args[0],)

    def post_dec(args, res):
        if isinstance(res, Exception):
            return 'must not raise on alphabet strings'
        want = tuple(v3.py_decode(args[0]))
        return None if tuple(res) == want else 'independent V3 decoder gives %r' % (want,)

    def post_rtl(args, res):
        if isinstance(res, Exception):
            return 'must not raise'
        return None if list(res) == list(args[0]) else 'decode_vlqs(encode_vlqs(xs)) must be xs'

    def post_map(args, res):
        if isinstance(res, Exception):
            return 'must not raise'
        want = [[tuple(s) for s in l] for l in args[0]]
        return None if res == want else 'decode_mappings(encode_mappings(m)) must be m'

    def post_canon(args, res):
        if isinstance(res, Exception):
            return 'must not raise'
        return None if res == args[0] else 'encode_vlqs(decode_vlqs(s)) must reproduce the canonical string'

    def from_model_i(m):
        v = model_int(m, 'i')
        return None if v is None else (v,)

    B = vlq.INT_B64
    return {
        'calmjs.parse.vlq:encode_vlq': Concrete(
            'calmjs.parse.vlq:encode_vlq', lambda a: vlq.encode_vlq(a[0]), post_enc, int_inputs,
            from_model=from_model_i, bound='all i in a symmetric range + every +-32^k(+-1), +-32^k/2(+-1)'),
        'calmjs.parse.vlq:roundtrip_int': Concrete(
            'calmjs.parse.vlq:roundtrip_int', lambda a: vlq.decode_vlq(vlq.encode_vlq(a[0])), post_rt, int_inputs,
            from_model=from_model_i, bound='same integer set'),
        'calmjs.parse.vlq:vlq_decoder': Concrete(
            'calmjs.parse.vlq:vlq_decoder',
            lambda a: tuple(vlq.vlq_decoder(a[0])), post_dec,
            lambda tier, seed: ((''.join(B[d] for d in ds[0]),) for ds in canon_inputs(tier, seed)),
            bound='all digit strings of length <= 3 over 7 representative digits'),
        'calmjs.parse.vlq:roundtrip_list': Concrete(
            'calmjs.parse.vlq:roundtrip_list', lambda a: vlq.decode_vlqs(vlq.encode_vlqs(a[0])), post_rtl,
            list_inputs, bound='all lists of length <= 3 over 7-9 boundary values + random lists (seeded)'),
        'calmjs.parse.vlq:roundtrip_mappings': Concrete(
            'calmjs.parse.vlq:roundtrip_mappings',
            lambda a: vlq.decode_mappings(vlq.encode_mappings(a[0])), post_map, mapping_inputs,
            bound='mappings of <= 2 lines built from lines of <= 2-3 segments over 6 segment shapes; '
                  '>= 1 line and no empty segment (pre-condition from the only call site)'),
        'calmjs.parse.vlq:roundtrip_str': Concrete(
            'calmjs.parse.vlq:roundtrip_str',
            lambda a: vlq.encode_vlqs(vlq.decode_vlqs(a[0])), post_canon,
            lambda tier, seed: ((''.join(B[d] for d in ds[0]),) for ds in canon_inputs(tier, seed)
                                if v3.py_canonical(ds[0]) and all(c in B for c in [B[d] for d in ds[0]])),
            bound='all syntactically canonical digit strings of length <= 3 over 7 representative digits'),
    }


def history(run, vlq):
    """bounded stand-in for the history half: results are fresh values -- editing one never changes what a later
    (or the same) call returns, and no two parts of one result are the same object"""
    import copy
    texts = ['AAAA,MAAM;;AACA;AACA;', ';;QAAA;', 'AAAA;AAAA;AAAA', 'AACA,0BAA0B', '', ';', 'gB', 'AAAA,AAAA']
    n = 0
    for fn, args in [('decode_mappings', t) for t in texts] + [('decode_vlqs', 'AACA'), ('decode_vlqs', '0B'),
                                                                 ('encode_vlqs', (0, 0, 1, 0)), ('encode_mappings', [[(0, 0, 1, 0)], [], [(0, 0, 1, 0)]])]:
        f = getattr(vlq, fn)
        n += 1
        first = f(copy.deepcopy(args))
        want = copy.deepcopy(first)
        why = None
        if isinstance(first, list):
            ids = [id(x) for x in first if isinstance(x, list)]
            if len(ids) != len(set(ids)):
                why = 'two lines of one result are the same list object'
            for x in first:
                if isinstance(x, list):
                    x.append((0, 0, 1, 0))
            first.append(['edited'])
        again = f(copy.deepcopy(args))
        if again != want:
            why = 'after the caller edited an earlier result the same call returns %r instead of %r' % (again, want)
        if why:
            run.failed('rt.history', 'E4/bounded', '%s(%r)' % (fn, args), dict(function=fn, args=repr(args)), observed=why,
                       required='every call returns the value of its arguments, whatever happened before', replayed=True)
    run.bounded_check('rt.history', 'call, edit the result in place, call again: %d calls of the 4 list/string level functions' % n, n)


def vlq_layer(run, tier, bounded=False):
    """The VLQ obligations, for checks whose property rests on the codec (C09): lemmas + function contracts, replay through the
    executable contracts."""
    vlq = importlib.import_module('calmjs.parse.vlq')
    import contracts.vlq as cv
    constants(run, vlq)
    try:
        cs, lemmas, env = cv.build(vlq)
    except ValueError as e:
        run.failed('const.alphabet_bijection', 'E3/const', 'alphabet', dict(error=str(e)), observed=str(e),
                   required='INT_B64 has 64 distinct characters and B64_INT is its inverse', replayed=True)
        return
    prove_lemmas(run, lemmas)
    conc = concretes(vlq)
    verify_functions(run, cs, {c.qualname: c for c in cs}, conc, tier=tier)
    for q, c in conc.items():            # the executable contracts as witnesses (and as the stand-in where a rewritten function leaves the subset)
        f = run_bounded(run, c, tier, name='rt.vlq.' + q.split(':')[1])
        if f is not None:
            run.failed('rt.vlq.' + q.split(':')[1], 'E4/bounded', f['args'], f, observed=f['observed'], required=f['required'], replayed=True)


def main(run, tier):
    vlq = importlib.import_module('calmjs.parse.vlq')
    import contracts.vlq as cv
    run.explanation = ('VCs generated from the AST of the real vlq.py functions (back end E1), discharged by z3 '
                       '(cvc5 on unknown); spec = Source Map V3 rule in spec/sourcemap_v3.py')
    run.floor = 45
    constants(run, vlq)
    # purity: the postconditions below speak about one call; they carry over to every history of calls only if no call
    # leaves state behind or hands out state shared with another call
    from .c14 import frame_obligations
    import contracts.frames as cf
    frame_obligations(run, cf.C10, 'C10')
    try:
        cs, lemmas, env = cv.build(vlq)
    except ValueError as e:
        run.failed('const.alphabet_bijection', 'E3/const', 'alphabet', dict(error=str(e)), observed=str(e),
                   required='INT_B64 has 64 distinct characters and B64_INT is its inverse', replayed=True)
        return
    reg = {c.qualname: c for c in cs}
    both = tier == 'thorough'
    prove_lemmas(run, lemmas, both=both)
    conc = concretes(vlq)
    verify_functions(run, cs, reg, conc, tier=tier, both=both)
    # P3: the whole-mappings round trip, through a stated model of str.join / str.split (contracts/vlqmap.py)
    import contracts.vlqmap as cvm
    mcs, mreg = cvm.build(vlq, cs, env)
    verify_functions(run, mcs, mreg, {'calmjs.parse.vlq:roundtrip_mappings': conc.get('calmjs.parse.vlq:roundtrip_mappings')}, tier=tier, both=both)
    # bounded stand-ins (never counted as proved): the same contracts, executed
    for q, c in conc.items():
        f = run_bounded(run, c, tier)
        if f is not None:
            run.failed('rt.' + q.split(':')[1], 'E4/bounded', f['args'], f, observed=f['observed'],
                       required=f['required'], replayed=True)
    history(run, vlq)
    bit_laws_crosscheck(run, tier)
    run.assume(
        'Python int <-> SMT Int (exact); // and % by positive constants <-> SMT div/mod',
        'bit operators rewritten by laws BL1-BL5 (side conditions are obligations); laws re-checked '
        'exhaustively in CPython on a finite range only',
        "str over INT_B64 <-> Seq(Int) of digit values through the bijection INT_B64/B64_INT (checked concretely)",
        "model: (f(x) for x in xs) yields f(xs[j]) in order; ''.join concatenates (assumed, not verified)",
        'generators are run eagerly (their bodies here have no side effects)',
        'encode_mappings/decode_mappings: verified in place (no contracts of their own) inside the round-trip harness for every shape of '
        '<= 2 lines x <= 2 segments, through the stated model of str.join / str.split (split inverts join when the parts are non-empty in '
        'number and free of the separator; side conditions are obligations); other shapes: bounded stand-in',
        'canonical string = image of the canonical encoder; equivalence with the syntactic definition '
        '(no padding group, no negative zero) is checked bounded only',
    )


def replay(data):
    vlq = importlib.import_module('calmjs.parse.vlq')
    conc = concretes(vlq)
    print('replaying', data.get('obligation'), data.get('case'))
    w = data.get('witness') or {}
    args = w.get('args')
    if not args:
        print('no concrete input recorded; solver output:\n', data.get('solver_output'))
        return 1
    import ast as _ast
    args = _ast.literal_eval(args)
    bad = 0
    for q, c in conc.items():
        try:
            f = c.check_one(args)
        except Exception:
            continue
        if f:
            print('REPRODUCED on %s: %s' % (q, f))
            bad += 1
    return 1 if bad else 0

"""C05 -- every `/` is read as division or regex start as the grammar dictates (DESIGN 4, C05)."""
import importlib

from .. import scratch

LEVEL = 'other'

# (label, text before the slash, expects)   -- from the statement of C05 / ECMA-262 7 and 11-12
REGEX_AFTER = [
    ('if header', 'if (a)'), ('while header', 'while (a)'), ('for header', 'for (;;)'), ('for-in header', 'for (k in o)'),
    ('with header', 'with (a)'), ('block }', '{ a; }'), ('if-block }', 'if (a) { b; }'), ('semicolon', 'a;'), ('start', ''),
    ('assignment', 'x ='), ('plus', 'x = a +'), ('open paren', 'x = ('), ('comma', 'x = (a,'), ('open bracket', 'x = ['),
    ('not', 'x = !'), ('ternary ?', 'x = a ?'), ('ternary :', 'x = a ? b :'), ('and', 'x = a &&'), ('return', 'function g() { return'),
    ('typeof', 'x = typeof'), ('in', 'x = a in'), ('instanceof', 'x = a instanceof'), ('void', 'x = void'), ('delete', 'x = delete'),
    ('case', 'switch (a) { case'), ('do', 'do'), ('else', 'if (a) b; else'), ('throw', 'throw'), ('open brace', '{'),
    ('colon in object', 'x = {a:'), ('function declaration }', 'function f() { }'), ('nested header', 'if (a) while (b)'),
    ('header with call inside', 'if (f(a))'), ('header in function', 'function g() { if (a)'),
    ('header inside parens', '(function () { if (x)'),
]
REGEX_TAIL = {'return': '; }', 'case': ': b; }', 'do': '; while (c);', 'open brace': '; }', 'colon in object': ' };', 'open paren': ');',
              'comma': ');', 'open bracket': '];', 'header in function': '; }', 'header inside parens': '; })();',
              'ternary ?': ' : c;', 'function declaration }': ';'}
NO_LINE_BREAK = {'throw'}          # restricted production: a line terminator after `throw` is an error by itself
DIV_AFTER = [
    ('identifier', 'x = a'), ('number', 'x = 1'), ('string', 'x = "s"'), ('regex literal', 'x = /q/'), ('this', 'x = this'),
    ('null', 'x = null'), ('true', 'x = true'), ('call )', 'x = f(a)'), ('grouping )', 'x = (a)'), ('index ]', 'x = a[0]'),
    ('array ]', 'x = [1]'), ('object literal }', 'x = {a: 1}'), ('function expression }', 'x = function () { }'),
    ('postfix ++', 'x = a++'), ('postfix --', 'x = a--'), ('call in header', 'if (f(a)'), ('member call )', 'x = a.b(c)'),
    ('new call )', 'x = new F(a)'), ('keyword property', 'x = a.if'), ('nested grouping', 'x = ((a))'),
    ('comment before operand', 'x = /* c */ a'), ('comment before statement operand', 'foo(); /* c */ total'),
    ('line comment before operand', 'x = // c\n a'), ('call in nested function in header', 'if (g(function () { return f(a)'),
    # the operand is the token that triggered an automatic semicolon (it is pushed back and re-read)
    ('operand after an inserted semicolon', 'a = b\nc'), ('function expression } after an inserted semicolon', '(function () { return 1 }'),
    ('operand after return + inserted semicolon', 'function g() { return\nc'),
]
DIV_TAIL = {'call in header': ') z;', 'call in nested function in header': '; })) z;',
            'function expression } after an inserted semicolon': ');', 'operand after return + inserted semicolon': '; }'}
# regular expression literals whose first characters look like another token
REGEX_LITERALS = ['/=/', '/=a/g', '/==/', '/[/]/', '/\\//', '/ x/', '/+/', '/-->/', '/./', '/(/', '/a*/', '/{/']
LAYOUTS = ['', ' ', '\t', '  ', '\n', '\r\n', '\u2028', ' /*c*/ ', '/*c*/', ' // c\n', '\xa0', ' /*a\nb*/ ', '\x0b\ufeff', '\n\n', ' \n \r\n ',
           '\n// c\n', '/*a*//*b*/']


def classify(es5, asttypes, src, lit='/re/'):
    """-> ('regex'|'division'|'both'|'none', detail) or ('error', msg); a text with comments is also read with comment capture on
    and the two readings have to agree (how a `/` is read does not depend on whether comments are kept)"""
    got = classify1(es5, asttypes, src, lit, False)
    if '/*' in src or '//' in src:
        kept = classify1(es5, asttypes, src, lit, True)
        if kept != got:
            return 'error', 'with comment capture: %s %s, without: %s %s' % (kept[0], kept[1], got[0], got[1])
    return got


def classify1(es5, asttypes, src, lit, with_comments):
    try:
        t = es5.Parser(with_comments=with_comments).parse(src)
    except Exception as e:
        return 'error', '%s: %s' % (type(e).__name__, str(e)[:70])
    regex = div = 0
    stack = [t]
    while stack:
        n = stack.pop()
        if isinstance(n, list):
            stack.extend(n)
            continue
        if not isinstance(n, asttypes.Node):
            continue
        if type(n).__name__ == 'Regex' and n.value.startswith(lit):
            regex += 1
        if type(n).__name__ == 'BinOp' and n.op == '/':
            div += 1
        if type(n).__name__ == 'Assign' and n.op == '/=':
            div += 1
        for k, v in vars(n).items():
            if k != '_token_map':
                stack.append(v)
    return ('regex' if regex and not div else 'division' if div and not regex else 'both' if div else 'none'), (regex, div)


def bounded(run, tier):
    es5 = importlib.import_module('calmjs.parse.parsers.es5')
    asttypes = importlib.import_module('calmjs.parse.asttypes')
    n = 0
    for label, before in REGEX_AFTER:
        for lay in LAYOUTS:
            if label in NO_LINE_BREAK and any(c in lay for c in '\n\r\u2028\u2029'):
                continue
            src = before + lay + '/re/.test(y)' + REGEX_TAIL.get(label, ';')
            n += 1
            got, detail = classify(es5, asttypes, src)
            if got != 'regex':
                why = 'after %s (%r) with layout %r the `/` must start a regular expression: %r gives %s %s' % (label, before, lay, src, got, detail)
                run.failed('rt.slash.regex', 'E4/bounded', '%s | layout=%r' % (label, lay), dict(source=src, problem=why), observed=why,
                           required='regex after headers, statement blocks, operators and keywords, whatever the layout', replayed=True)
    for label, before in REGEX_AFTER:
        for lay in ('', ' ', '\n'):
            if label in NO_LINE_BREAK and lay == '\n':
                continue
            for lit in REGEX_LITERALS:
                src = before + lay + lit + '.test(y)' + REGEX_TAIL.get(label, ';')
                n += 1
                got, detail = classify(es5, asttypes, src, lit)
                if got != 'regex':
                    why = 'after %s (%r) with layout %r, %s must be read as one regular expression literal: %r gives %s %s' % (
                        label, before, lay, lit, src, got, detail)
                    run.failed('rt.slash.regex', 'E4/bounded', '%s | layout=%r | %s' % (label, lay, lit), dict(source=src, problem=why),
                               observed=why, required='a regular expression literal wherever a division is not permitted, whatever '
                               'its body starts with (ES5 7.8.5)', replayed=True)
    for label, before in DIV_AFTER:
        for lay in LAYOUTS:
            if lay.endswith('\n') and label in ('postfix ++', 'postfix --'):
                pass
            src = before + lay + '/ b / c' + DIV_TAIL.get(label, ';')
            n += 1
            got, detail = classify(es5, asttypes, src)
            if label in ('call in header', 'call in nested function in header'):
                ok = got == 'division'
            else:
                ok = got == 'division' and detail[1] == 2
            if not ok:
                why = 'after %s (%r) with layout %r the `/` must be a division: %r gives %s %s' % (label, before, lay, src, got, detail)
                run.failed('rt.slash.division', 'E4/bounded', '%s | layout=%r' % (label, lay), dict(source=src, problem=why), observed=why,
                           required='division after operands, whatever the layout', replayed=True)
            src = before + lay + '/= 2' + DIV_TAIL.get(label, ';')
            if label in ('identifier', 'index ]', 'member call )', 'keyword property'):
                n += 1
                got, detail = classify(es5, asttypes, src)
                if got != 'division' and label != 'member call )':
                    why = 'after %s with layout %r `/=` must be a division assignment: %r gives %s %s' % (label, lay, src, got, detail)
                    run.failed('rt.slash.division', 'E4/bounded', '%s /= | layout=%r' % (label, lay), dict(source=src, problem=why),
                               observed=why, required='`/=` after an operand', replayed=True)
    run.bounded_check('rt.slash', '%d regex contexts + %d division contexts x %d layouts (none, spaces, tab, LF, CRLF, LS, NBSP, comments '
                      'with and without line breaks)' % (len(REGEX_AFTER), len(DIV_AFTER), len(LAYOUTS)), n)


def main(run, tier):
    lexmod = importlib.import_module('calmjs.parse.lexers.es5')
    parmod = importlib.import_module('calmjs.parse.parsers.es5')
    run.explanation = ('the parenthesis-stack discipline and the token hand-over of the lexer by transition contracts on the real AST '
                       '(_get_update_token, _set_tokens, backtracked_token), the re-lex branch of Parser.p_error path-complete with '
                       'externals; Lexer._token: which reader (master pattern / regex pattern) is applied to a `/`, for all texts and lexer states; '
                       'the classification against the statement\'s list of contexts by a bounded matrix')
    run.floor = 40
    from . import parsefwd
    parsefwd.add(run, tier)
    from . import attrobl
    import contracts.frames as _fr
    attrobl.frame_obligations(run, _fr.LEXER_STATE)
    for f in ('calmjs.parse.lexers.es5', 'calmjs.parse.parsers.es5'):
        run.function(f, scratch.sha256_file(scratch.module_path(f))[:16])
    from ..e1run import verify_functions
    import contracts.asi as ca
    import contracts.slash as cs_
    cs, lemmas, env = ca.build(lexmod)
    cs = [c for c in cs if c.funcname.endswith('_get_update_token') or c.funcname.endswith('_set_tokens')
          or c.funcname.endswith('_create_semi_token')]
    reg = dict((c.qualname, c) for c in cs if c.funcname.endswith('_create_semi_token'))
    verify_functions(run, cs, reg, {}, tier=tier)
    cs2, _, _ = cs_.build(lexmod, parmod)
    verify_functions(run, cs2, {}, {}, tier=tier)
    import contracts.token as ctok
    verify_functions(run, ctok.build(lexmod), {}, {}, tier=tier)
    # _token decides about the token get_lexer_token hands it: that is ply's next token, each exactly once, whatever the comment switches
    import contracts.lexer as clex
    verify_functions(run, clex.token_bookkeeping(lexmod), {}, {}, tier=tier)
    # constants from the statement
    want_div = {'ID', 'NUMBER', 'STRING', 'REGEX', 'TRUE', 'FALSE', 'NULL', 'THIS', 'PLUSPLUS', 'MINUSMINUS', 'RPAREN', 'RBRACE', 'RBRACKET'}
    for name, got, want in (('const.tokens_that_imply_division', set(lexmod.TOKENS_THAT_IMPLY_DIVISON), want_div),
                            ('const.header_keywords', set(lexmod.IMPLIED_BLOCK_IDENTIFIER), {'IF', 'FOR', 'WHILE', 'WITH'})):
        if got == want:
            run.discharged(name, 'E3/const', 'python', 0.0)
        else:
            run.failed(name, 'E3/const', 'constant', dict(got=sorted(got), want=sorted(want)), observed=repr(sorted(got ^ want)),
                       required='the contexts listed in the statement of C05', replayed=True)
    bounded(run, tier)
    run.trust('ply reports the first token without an action to p_error (the `}` / `++` / `--` cases are resolved by the parser)',
              'the stack-discipline contracts are transition contracts; that the stack represents the open parentheses of the '
              'source is an invariant whose failures under layout tokens are the recorded findings')
    run.assume('Lexer._token is verified against the preconditions of its two readers for texts of any length (loops cut, text = length + '
               'code-point function, skip() uninterpreted with its unfoldings); that "division permitted" in terms of the look-behind state '
               '(last real token, parenthesis marker) coincides with the syntactic grammar is checked by the bounded matrix only; '
               'termination of the scanning loops is not proved (bounded under C12)')


def replay(data):
    es5 = importlib.import_module('calmjs.parse.parsers.es5')
    asttypes = importlib.import_module('calmjs.parse.asttypes')
    w = data.get('witness') or {}
    if 'source' in w:
        print(repr(w['source']), classify(es5, asttypes, w['source']))
        return 1
    print(data.get('observed'))
    return 1

"""C14 -- unparsing is pure: tree unchanged, printers reusable, shortcuts agree (DESIGN 4, C14)."""
import fnmatch
import importlib
import itertools

from .. import scratch
from ..frame import ModuleFrames

LEVEL = 'other'


def frame_obligations(run, table, prop_label):
    """O-frame per function, O-alloc per per-call class, O-shared (templates, defaults, memo, one-shot iterators)."""
    import contracts.frames as cf
    by_func = {}
    extra = []
    for m in table['modules']:
        try:
            mf = ModuleFrames(m, scratch.module_path(m), dict(table, owned_classes=set(table['owned_classes'])))
        except (IOError, OSError):
            continue
        if table.get('node_module') == m:
            mf.table = dict(mf.table, owned_classes=set(mf.classes))          # every AST node class
        for s in mf.analyse():
            by_func.setdefault((m, s.func), []).append(s)
        for ln, why in mf.one_shot_captures():
            extra.append((m, ln, why, mf))
        # O-alloc
        for cls, sites in table.get('alloc_sites', {}).items():
            for nm, path, ln in mf.instantiations({cls}):
                where = '.'.join(path)
                name = 'O-alloc[%s in %s:%s]' % (cls, m.split('.')[-1], where or '<module>')
                if any(fnmatch.fnmatchcase(where, g) for g in sites):
                    run.discharged(name, 'E1/frame', 'static', 0.0)
                else:
                    run.failed(name, 'E1/frame', '%s:%d' % (m, ln), dict(module=m, line=ln, cls=cls, where=where),
                               observed='%s(...) is instantiated in %s' % (cls, where or 'module scope'),
                               required='per-call state is allocated inside %s' % ' / '.join(sites), replayed=False,
                               solver_output='ownership: instances allocated there outlive one call')
        for cls in sorted(table['owned_classes'] & set(mf.classes)):
            missing = mf.self_reads_not_initialised(cls)
            name = 'O-init[%s]' % cls
            if missing:
                run.failed(name, 'E1/frame', '%s.%s' % (cls, missing[0][1]), dict(missing=missing[:5]),
                           observed='self.%s read in %s but never set by __init__' % (missing[0][1], missing[0][0]),
                           required='every field read is initialised per instance', replayed=False, solver_output=repr(missing[:5]))
            else:
                run.discharged(name, 'E1/frame', 'static', 0.0)
    for (m, func), sites in sorted(by_func.items()):
        name = 'O-frame[%s:%s]' % (m.split('.')[-1], func)
        bad = []
        for s in sites:
            if s.status == 'owned':
                continue
            reason = cf.allowed(table, s.func, s.base.split('.')[0])
            if reason:
                run.trust('frame assumption: %s base %s -- %s' % (s.func.split('.')[0] + ('.*' if '.' in s.func else ''), s.base.split('.')[0], reason))
                continue
            bad.append(s)
        if bad:
            s = bad[0]
            run.failed(name, 'E1/frame', '%s@%d' % (s.base, s.lineno), dict(module=m, function=func, line=s.lineno, base=s.base, what=s.what, why=s.why),
                       observed='%s on %s at line %d: %s' % (s.what, s.base, s.lineno, s.why),
                       required='every store has a base owned by the current call', replayed=False,
                       solver_output='\n'.join(repr(x) for x in bad[:8]))
        else:
            run.discharged(name, 'E1/frame', 'static', 0.0)
    for m, ln, why, mf in extra:
        # NameGenerator.__init__ keeps iter(self) on a per-call object: owned
        seg = mf.src.split('\n')[ln - 1]
        if 'self.__iterself = iter(self)' in seg:
            continue
        run.failed('O-shared[one-shot iterator %s:%d]' % (m.split('.')[-1], ln), 'E1/frame', '%s:%d' % (m, ln),
                   dict(module=m, line=ln, source=seg.strip()), observed=why + ': ' + seg.strip(),
                   required='nothing consumable is kept between calls', replayed=False, solver_output=why)


TREES = ['var a = 1, b = [a, 2];', 'function f(x, y) { var z = x + y; return function () { return z; }; }',
         'switch (a) { case 1: if (b) { c; } default: d; }\ntry { e; } catch (e) { f(e); }', 'x = {a: 1, get b() { return 2; }};',
         # catch parameters and free names that share spellings across trees (state of one catch scope must not reach another)
         'function g(h) { try { h(); } catch (err) { log(err); } }', 'function k(m) { try { m(); } catch (e2) { notify(err, e2); } }']


def deep_state(Node, root):
    """every attribute of every node reachable from root (private ones and token maps included), as plain data"""
    seen = {}
    order = []

    def val(v):
        if isinstance(v, Node):
            visit(v)
            return ('node', seen[id(v)])
        if isinstance(v, (list, tuple)):
            return (type(v).__name__,) + tuple(val(x) for x in v)
        if isinstance(v, dict):
            return ('dict',) + tuple(sorted((repr(k), val(x)) for k, x in v.items()))
        return ('value', repr(v))

    def visit(n):
        if id(n) in seen:
            return
        seen[id(n)] = len(seen)
        slot = [type(n).__name__, None]
        order.append(slot)
        slot[1] = tuple(sorted((k, val(v)) for k, v in vars(n).items()))
    visit(root)
    return tuple((a, b) for a, b in order)


def bounded(run, tier):
    es5 = importlib.import_module('calmjs.parse.parsers.es5')
    unparsers = importlib.import_module('calmjs.parse.unparsers.es5')
    walkers = importlib.import_module('calmjs.parse.walkers')
    cp = importlib.import_module('calmjs.parse')
    rules = importlib.import_module('calmjs.parse.rules')
    rw = walkers.ReprWalker()
    mk = {
        'pretty': lambda: unparsers.pretty_printer(),
        'pretty-tab': lambda: unparsers.pretty_printer('\t'),
        'minify': lambda: unparsers.minify_printer(),
        'minify+drop': lambda: unparsers.minify_printer(drop_semi=True),
        'obf': lambda: unparsers.minify_printer(obfuscate=True),
        'obf+globals': lambda: unparsers.minify_printer(obfuscate=True, obfuscate_globals=True, shadow_funcname=True),
        'indent+obf': lambda: unparsers.Unparser(rules=(rules.indent('  '), rules.obfuscate(obfuscate_globals=True))),
    }
    trees = [es5.Parser().parse(s) for s in TREES]
    reprs = [rw.walk(t, pos=True) for t in trees]
    NodeCls = importlib.import_module('calmjs.parse.asttypes').Node
    states = [deep_state(NodeCls, t) for t in trees]
    ref = dict(((p, i), [tuple(f) for f in mk[p]()(t)]) for p in mk for i, t in enumerate(trees))
    n = 0
    nfail = [0]

    def fail(case, why):
        nfail[0] += 1
        if nfail[0] <= 10:
            run.failed('rt.histories', 'E4/bounded', case, dict(problem=why), observed=why,
                       required='same fragments for any call history; tree unchanged; shortcuts agree', replayed=True)
    ops = [(i, mode) for i in range(len(trees)) for mode in ('full', 'abandon')]
    L = 2 if tier == 'quick' else 3
    for p in mk:
        for hist in itertools.product(ops, repeat=L):
            printer = mk[p]()
            n += 1
            for step, (i, mode) in enumerate(hist):
                gen = printer(trees[i])
                if mode == 'abandon':
                    for _ in range(7):
                        next(gen, None)
                    continue
                got = [tuple(f) for f in gen]
                if got != ref[(p, i)]:
                    fail('%s | %r step %d' % (p, hist, step), 'printer %s gives different fragments for tree %d after history %r' % (p, i, hist[:step]))
                    break
        # a call that raises midway, then reuse
        printer = mk[p]()
        broken = es5.Parser().parse('function g() { if (a) { b; } }')
        broken.children()[0].elements[0].consequent = 42          # not a node: the walk raises inside nested blocks
        try:
            list(printer(broken))
        except Exception:
            pass
        n += 1
        for i, t in enumerate(trees):
            if [tuple(f) for f in printer(t)] != ref[(p, i)]:
                fail('%s | after a raised call, tree %d' % (p, i), 'printer %s gives different fragments after a call that raised' % p)
    for i, t in enumerate(trees):
        if rw.walk(t, pos=True) != reprs[i]:
            fail('tree %d' % i, 'unparsing modified the tree')
        elif deep_state(NodeCls, t) != states[i]:
            after = deep_state(NodeCls, t)
            diff = [(a[0], sorted(set(b[1]) ^ set(a[1]))[:2]) for a, b in zip(states[i], after) if a != b][:2] if len(after) == len(states[i]) else 'different node set'
            fail('tree %d (hidden state)' % i, 'unparsing modified attributes of the tree that its repr does not show: %r' % (diff,))
    # shortcuts
    for src in TREES:
        n += 1
        t = es5.Parser().parse(src)
        if str(t) != unparsers.pretty_print(t):
            fail('str | ' + src, 'str(node) differs from pretty_print(node)')
        e = cp.es5

        class Lazy(object):
            def __init__(self, f):
                self.f = f

        def TRY(f):
            try:
                return f()
            except Exception as x:
                return 'raised %r' % (x,)
        checks = [
            (TRY(lambda: e.pretty_print(src)), unparsers.pretty_print(e(src)), 'es5.pretty_print(src)'),
            (TRY(lambda: e.pretty_print(src, '\t')), unparsers.pretty_print(e(src), '\t'), "es5.pretty_print(src, '\\t')"),
            (TRY(lambda: e.pretty_print(src, indent_str='    ')), unparsers.pretty_print(e(src), indent_str='    '), 'es5.pretty_print(src, indent_str=)'),
            (TRY(lambda: e.minify_print(src)), unparsers.minify_print(e(src)), 'es5.minify_print(src)'),
            (TRY(lambda: e.minify_print(src, True)), unparsers.minify_print(e(src), True), 'es5.minify_print(src, True)'),
            (TRY(lambda: e.minify_print(src, True, True)), unparsers.minify_print(e(src), True, True), 'es5.minify_print(src, True, True)'),
            (TRY(lambda: e.minify_print(src, obfuscate=True, drop_semi=True)), unparsers.minify_print(e(src), obfuscate=True, drop_semi=True), 'es5.minify_print(src, kw)'),
            (TRY(lambda: e.pretty_print('/*c*/ ' + src, with_comments=True)), unparsers.pretty_print(e('/*c*/ ' + src, with_comments=True)), 'with_comments=True'),
            (TRY(lambda: e.pretty_print('/*c*/ ' + src, '\t', with_comments=True)), unparsers.pretty_print(e('/*c*/ ' + src, with_comments=True), '\t'), "'\\t', with_comments=True"),
        ]
        for got, want, what in checks:
            n += 1
            if got != want:
                fail('%s | %s' % (what, src), '%s differs from the explicit parse-then-print' % what)
    run.bounded_check('rt.histories', 'all histories of %d calls over 4 trees x {exhausted, abandoned after 7 fragments} x 7 printers; '
                      'reuse after a call that raised; tree repr with positions before/after; 9 shortcut call forms x 4 sources' % L, n)


def main(run, tier):
    import contracts.frames as cf
    run.explanation = ('frame / ownership verification over the real AST: every store in every function reachable from '
                       'BaseUnparser.__call__ has a base owned by the current call (fresh local, per-call object), per-call '
                       'objects are allocated inside the per-call closures, nothing consumable or mutable is shared; the '
                       'behavioural consequence is cross-checked on bounded call histories')
    run.floor = 40
    from . import printfwd
    printfwd.add(run, tier)
    # the convenience wrappers of factory.py (contracts/factory.py): es5.pretty_print(source, ...) parses once and hands every positional
    # and keyword argument but with_comments to the printer unchanged
    from ..e1run import verify_functions as _vff
    import contracts.factory as _cfac
    _vff(run, _cfac.build(importlib.import_module('calmjs.parse.factory')), {}, {}, tier=tier)
    for m in cf.C14['modules']:
        run.function(m, scratch.sha256_file(scratch.module_path(m))[:16])
    frame_obligations(run, cf.C14, 'C14')
    bounded(run, tier)
    run.trust('sequential Python is deterministic for this code (no id()/hash-order dependence reaches the output)',
              'ownership tables in contracts/frames.py (which classes are per-call) -- checked by the O-alloc obligations')
    run.assume('the analysis is syntactic: aliasing through containers and attribute values is not tracked; calls of methods '
               'other than the listed mutators are assumed not to mutate their receiver',
               'histories and thread schedules as such are not explored deductively; bounded histories stand in')


def replay(data):
    print(data.get('case'), data.get('observed'))
    return 1

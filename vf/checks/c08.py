"""C08 -- emitted fragments carry the true source position of their token (DESIGN 4, C08)."""
import importlib

from ..tables import core, printing
from .. import gen, scratch
from spec import es5_lines

LEVEL = 'proof'


def frag_problems(run, frags, parent_source=None, hole_sources=None):
    """Check the fragments printed for the node of one tagged action run."""
    probs = []
    for fr in frags:
        text, lineno, colno, name, source = fr
        if printing.is_hole_text(text.lstrip('ab1 +-/.')) or printing.HOLE_OPEN in text:
            if hole_sources is not None:
                slot, variant = printing.hole_slot(text[text.index(printing.HOLE_OPEN):])
                want = hole_sources.get(slot, parent_source)
                if source != want:
                    probs.append('child of slot %d printed with source %r, innermost enclosing source is %r' % (slot, source, want))
            continue
        if hole_sources is not None and source is not None and source != parent_source and text.strip():
            # (layout fragments carry source None = "the source in effect"; see the multi-file bounded check / F21)
            probs.append('token %r printed with source %r, its node belongs to %r' % (text, source, parent_source))
        if not lineno or not colno:
            continue
        cands = [s for s in run.slots[1:] if (s['triple'][1], s['triple'][2]) == (lineno, colno)]
        if not cands:
            probs.append('fragment %r carries %d:%d which is not the position of any token of the production' % (text, lineno, colno))
            continue
        s = cands[0]
        want = name if name is not None else text
        if s['kind'] == 'T' and s.get('auto') and text == ';':
            continue          # semicolon supplied by automatic insertion: exempt
        if s['kind'] == 'T' and s['text'] == want:
            continue
        if s['kind'] == 'T' and text and set(text) == {','} and s['text'] == ',':
            continue          # comma run of an elision: first comma
        if s['kind'] == 'N':
            # position of a child non-terminal = its first token; acceptable iff that token always has this text
            firsts = run.g.first[s['sym']]
            if firsts and all(run.g.token_text.get(t) == want for t in firsts) and s['sym'] not in run.g.nullable:
                continue
        probs.append('fragment %r carries %d:%d, the position of %s %r' % (
            text, lineno, colno, s['sym'], s.get('text')))
    return probs


def check_production(g, shapes, pr, prod):
    out = {}
    runs = 0
    for choice in shapes.choices(prod):
        try:
            run = core.run_action(g, prod, choice, shapes=shapes)
        except core.ActionRaised:
            continue
        run.g = g
        v = run.value
        if not isinstance(v, g.asttypes_mod.Node) or getattr(type(v), '__hole__', False):
            continue
        label = '%s [%s]' % (prod, ','.join('%d:%s' % (k + 1, s[-1]) for k, s in sorted(choice.items())))
        for cname, mk in pr.configs():
            try:
                frags = pr.print_node(v, mk())
            except Exception as e:
                out.setdefault(cname, []).append((label, 'printing raised %r' % (e,)))
                continue
            runs += 1
            for why in frag_problems(run, frags):
                out.setdefault(cname, []).append((label, why))
        # source-file attribution: parent and some children carry their own sourcepath
        v.sourcepath = 'P.js'
        hs = {}
        for s in run.slots[1:]:
            h = s.get('hole')
            for x in (h if isinstance(h, list) else [h]):
                if isinstance(x, g.asttypes_mod.Node) and x._hole_slot % 2 == 1:
                    x.sourcepath = 'H%d.js' % x._hole_slot
                    hs[x._hole_slot] = x.sourcepath
        try:
            frags = pr.print_node(v, pr.configs()[0][1]())
            for why in frag_problems(run, frags, 'P.js', hs):
                out.setdefault('source', []).append((label, why))
        except Exception as e:
            out.setdefault('source', []).append((label, 'printing raised %r' % (e,)))
        runs += 1
        # nesting A -> B -> A: a child re-enters the file of a non-immediate ancestor
        v.sourcepath = 'B.js'
        hs2 = {}
        for s in run.slots[1:]:
            h = s.get('hole')
            for x in (h if isinstance(h, list) else [h]):
                if isinstance(x, g.asttypes_mod.Node):
                    x.sourcepath = 'A.js' if x._hole_slot % 2 == 1 else None
                    hs2[x._hole_slot] = x.sourcepath or 'B.js'
        outer = g.asttypes.ES5Program([v])
        outer.sourcepath = 'A.js'
        try:
            frags = pr.print_node(outer, pr.configs()[1][1]())
            for why in frag_problems(run, frags, 'B.js', hs2):
                out.setdefault('source', []).append((label, 'A>B>A nesting: ' + why))
        except Exception as e:
            out.setdefault('source', []).append((label, 'printing raised %r' % (e,)))
        runs += 1
    return runs, out


def check_program(mods, srcs, cname, mk_rules, with_comments):
    """bounded: parse 1..n sources, print as one combined stream, compare fragments with the sources."""
    es5, asttypes, unparsers = mods
    trees = []
    for i, src in enumerate(srcs):
        try:
            t = es5.Parser(with_comments=with_comments).parse(src)
        except Exception as e:
            if type(e).__name__ in ('ECMASyntaxError', 'ECMARegexSyntaxError'):
                return None
            raise
        t.sourcepath = 'file%d.js' % i
        trees.append(t)
    if len(trees) == 1:
        root = trees[0]
    else:
        root = asttypes.ES5Program(trees)       # several files combined
        root = type(trees[0])(trees)
    by_name = dict(('file%d.js' % i, s) for i, s in enumerate(srcs))
    probs = []
    frags = list(unparsers.Unparser(rules=mk_rules())(root))
    # Source Map semantics of an unspecified source: the one in effect (before any: the first one registered)
    current = next((f.source for f in frags if f.source is not None), None)
    for fr in frags:
        text, lineno, colno, name, source = fr
        if source is not None:
            current = source
        if not lineno or not colno:
            continue
        if source is None:
            source = current       # Source Map semantics of an unspecified source: the one in effect
        if len(srcs) == 1:
            source = 'file0.js'    # the statement constrains the named file only when several files are combined
        src = by_name.get(source)
        if src is None:
            probs.append('fragment %r at %d:%d names source %r' % (text, lineno, colno, source))
            continue
        off = es5_lines.offset_of(src, lineno, colno)
        want = name if name is not None else text
        if text == ';' and (off is None or not src.startswith(';', off)):
            continue       # ASI (exempt); misplacement of real semicolons is decided by the E2 obligations
        if want and set(want) == {','}:
            want = ','
        if off is None or not src.startswith(want, off):
            probs.append('fragment %r (name %r) carries %s %d:%d where the source reads %r' % (
                text, name, source, lineno, colno, None if off is None else src[off:off + 12]))
    return probs


SEPS = [' ', '\n', ' /*a\u2028b\u2029*/ ', '\r\n', ' /*c*/ ', '  // x\n']


def main(run, tier):
    from . import parsefwd
    parsefwd.add(run, tier, positions=True)
    # the two position primitives every setpos / token-handler call rests on, for all integers (contracts/positions.py)
    from ..e1run import verify_functions as _vfp
    import contracts.positions as _cpos
    _vfp(run, _cpos.build(importlib.import_module('calmjs.parse.asttypes')), {}, {}, tier=tier)
    # what a token fragment records: the two token handlers (contracts/tokenhandlers.py)
    from ..e1run import verify_functions as _vf
    import contracts.tokenhandlers as _cth
    _vf(run, _cth.build(importlib.import_module('calmjs.parse.handlers.core'), importlib.import_module('calmjs.parse.asttypes')), {}, {}, tier=tier)
    # positions are counted with the lexer's line-terminator patterns: their obligations (C06) are imported
    from . import c06 as _c06
    _c06.class_obligations(run, importlib.import_module('calmjs.parse.lexers.es5'))
    # a fragment's source file comes from the walker's source stack: nothing of it may outlive a walk (ownership obligations of C14)
    from .c14 import frame_obligations as _fo
    import contracts.frames as _cf
    _fo(run, _cf.C14, 'C14')
    # the walk that forwards the fragments and the list rules (JoinAttr / ElisionJoinAttr for lists of any length): shared contracts
    from . import printfwd
    printfwd.add(run, tier)
    g = core.G()
    shapes = core.Shapes(g)
    pr = printing.Printing(g)
    run.explanation = ('per production x printer configuration: the node built by the real action from tagged slots is '
                       'printed by the real Unparser (children = contract stubs); every positioned fragment must carry '
                       'the position of a slot holding exactly its text (or its recorded original name)')
    for f in ('calmjs.parse.asttypes', 'calmjs.parse.parsers.es5', 'calmjs.parse.handlers.core',
              'calmjs.parse.unparsers.walker', 'calmjs.parse.ruletypes', 'calmjs.parse.unparsers.es5'):
        run.function(f, scratch.sha256_file(scratch.module_path(f))[:16])
    cnames = [c for c, _ in pr.configs()] + ['source']
    total = 0
    nobl = 0
    for prod in g.productions:
        runs, out = check_production(g, shapes, pr, prod)
        total += runs
        if not runs:
            continue
        for cname in cnames:
            name = 'O-frag[%s | %s]' % (prod, cname)
            nobl += 1
            bad = False
            seen = set()
            for label, why in out.get(cname, []):
                if (label, why) in seen or len(seen) >= 3:
                    continue
                seen.add((label, why))
                if run.failed(name, 'E2/tables', label, dict(production=str(prod), config=cname, shapes=label, problem=why),
                              observed=why, required='fragment position = position of the slot holding that text',
                              replayed=True) == 'violation':
                    bad = True
            if not bad:
                run.discharged(name, 'E2/tables', 'exec', 0.0,
                               detail=('%d printed runs' % runs) if nobl % 300 == 1 else None)
    run.floor = 600
    run.extra['printed_runs'] = total
    # ---- bounded stand-in: whole pipeline
    es5 = importlib.import_module('calmjs.parse.parsers.es5')
    asttypes = importlib.import_module('calmjs.parse.asttypes')
    unparsers = importlib.import_module('calmjs.parse.unparsers.es5')
    mods = (es5, asttypes, unparsers)
    corpus = gen.corpus(g, depth2=(tier == 'thorough'))
    seps = SEPS if tier == 'thorough' else SEPS[:3]
    progs = [gen.render(t, sep) for _, t in corpus for sep in seps]
    progs += [p.replace(' ', s) for p in gen.EXTRA_PROGRAMS for s in (' ', '\n', ' /*c*/ ', ' /*a\u2028b*/ ')]
    n = ok = nfail = 0
    cfgs = pr.configs()
    for k, src in enumerate(progs):
        cname, mk = cfgs[k % len(cfgs)] if tier == 'quick' else (None, None)
        for (cn, mkr) in ([(cname, mk)] if tier == 'quick' else cfgs):
            for wc in ((k % 2 == 0,) if tier == 'quick' else (False, True)):
                probs = check_program(mods, [src], cn, mkr, wc)
                n += 1
                if probs is None:
                    continue
                ok += 1
                for why in probs[:1]:
                    nfail += 1
                    if nfail <= 10:
                        run.failed('rt.fragments', 'E4/bounded', '%s | %s' % (cn, src),
                                   dict(sources=[src], config=cn, with_comments=wc, problem=why),
                                   observed=why, required='source text at the fragment position begins with its token',
                                   replayed=True)
    # several files combined
    multi = [(gen.EXTRA_PROGRAMS[i], gen.EXTRA_PROGRAMS[j]) for i in range(0, 6) for j in range(6, 12)]
    multi += [('a;', '{ b; }'), ('a;', ';'), ('{ a; }', '{ b; }')]
    for a, b in multi:
        for cn, mkr in cfgs:
            probs = check_program(mods, [a, '\n\n   ' + b], cn, mkr, False)
            n += 1
            if probs is None:
                continue
            ok += 1
            for why in probs[:1]:
                nfail += 1
                if nfail <= 10:
                    run.failed('rt.fragments.multi', 'E4/bounded', '%s | %s ++ %s' % (cn, a, b),
                               dict(sources=[a, '\n\n   ' + b], config=cn, problem=why), observed=why,
                               required='fragment names the right source file and position', replayed=True)
    # files combined after being read through io.read (which names the tree after its stream), identical texts included
    cio = importlib.import_module('calmjs.parse.io')
    import io as pyio

    class Named(pyio.StringIO):
        def __init__(self, text, name):
            pyio.StringIO.__init__(self, text)
            self.name = name
    for a, b in [('var a = 1;\nf(a);', 'var a = 1;\nf(a);'), ('x;', 'x;'), ('a;', 'b;'), (gen.EXTRA_PROGRAMS[1], gen.EXTRA_PROGRAMS[1])]:
        for cn, mkr in cfgs:
            n += 1
            ok += 1
            ta = cio.read(es5.parse, Named(a, 'lib/a.js'))
            tb = cio.read(es5.parse, Named(b, 'vendor/b.js'))
            frags = list(unparsers.Unparser(rules=mkr())(type(ta)([ta, tb])))
            named = [f.source for f in frags if f.source is not None and f.lineno and f.colno]
            why = None
            if (ta.sourcepath, tb.sourcepath) != ('lib/a.js', 'vendor/b.js'):
                why = 'trees read from lib/a.js and vendor/b.js are named %r and %r' % (ta.sourcepath, tb.sourcepath)
            elif not named or set(named) != {'lib/a.js', 'vendor/b.js'} or named != sorted(named):
                why = 'the positioned fragments of lib/a.js followed by vendor/b.js name their sources as %r' % (sorted(set(named)) if named == sorted(named) else named[:12],)
            if why:
                nread = locals().get('nread', 0) + 1
                if nread <= 5:
                    run.failed('rt.fragments.read', 'E4/bounded', '%s | %s ++ %s' % (cn, a, b), dict(sources=[a, b], config=cn, problem=why), observed=why,
                               required='every fragment names the file its text was read from', replayed=True)
    run.bounded_check('rt.fragments', 'generated programs x %d layouts x printer configurations (quick: one config per '
                      'program, rotating) + 36 two-file combinations x 5 configurations' % len(seps), n, ok)
    run.trust('C11 (node and token-map positions are those of the slots)', 'ply.yacc tracking contract',
              'children print their own fragments correctly (induction hypothesis)')
    run.assume('the renamed-identifier case (fragment records the original name) is exercised by the obfuscating '
               'configurations on whole programs only (bounded); per production it reduces to token_handler_unobfuscate '
               'reading node.getpos(original)')


def replay(data):
    w = data.get('witness') or {}
    g = core.G()
    pr = printing.Printing(g)
    if 'sources' in w:
        es5 = importlib.import_module('calmjs.parse.parsers.es5')
        asttypes = importlib.import_module('calmjs.parse.asttypes')
        unparsers = importlib.import_module('calmjs.parse.unparsers.es5')
        mk = dict(pr.configs())[w['config']]
        probs = check_program((es5, asttypes, unparsers), w['sources'], w['config'], mk, w.get('with_comments', False))
        print(w['sources'], probs)
        return 1 if probs else 0
    shapes = core.Shapes(g)
    bad = 0
    for prod in g.productions:
        if str(prod) == w.get('production'):
            runs, out = check_production(g, shapes, pr, prod)
            for label, why in out.get(w.get('config'), []):
                print('REPRODUCED', label, why)
                bad += 1
    return 1 if bad else 0

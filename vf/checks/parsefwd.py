"""Shared obligation: Parser.parse hands the text it is given to the LALR driver unchanged.

Every property stated over "the text" (acceptance C03, positions C06/C11, error positions C12) is
decided on the lexer/grammar; this contract on the real Parser.parse (E1) closes the gap between the
public entry point and those: the string ply receives is the caller's string, so no pre-processing
(stripping, normalising, decoding) can move positions or change what is accepted."""
import importlib

from ..e1run import Concrete, verify_functions

EDGE = ['', 'a;', ' a;', 'a; ', 'a;\n', '\ufeffa;', 'a;\ufeff', '\ta;\x0b', 'a;\x85', 'a;\x1c', '\x1fa;', 'a;\u2028',
        '\u2029a;', 'a;\r\n', 'A;', '\xa0a;\xa0', '"a" ;  ', 'a;\x00', '\u200ba;', 'a;\u200b', '/**/a;/**/', '//x',
        '\u3000a;\u3000', 'a;\x1e\n']


def add(run, tier, positions=False):
    es5 = importlib.import_module('calmjs.parse.parsers.es5')
    import contracts.parser_init as cp
    cs, lemmas, env = cp.build(es5)
    cs = [c for c in cs if c.funcname in ('Parser.parse', 'Lexer.input')]
    lexmod = importlib.import_module('calmjs.parse.lexers.es5')

    def lcall(args):
        lx = lexmod.Lexer()
        lx.build(optimize=False, lextab=None) if getattr(lx, 'lexer', None) is None else None
        seen = []

        class Inner(object):
            def input(self, t):
                seen.append(t)
        lx.lexer = Inner()
        lx.input(args[0])
        return seen

    class Stop(Exception):
        pass

    def call(args):
        text, = args
        p = es5.Parser()
        seen = []
        real = p.parser.parse

        def spy(t, **kw):
            seen.append(t)
            raise Stop()
        p.parser.parse = spy
        try:
            p.parse(text)
        except Stop:
            pass
        return seen

    def post(args, res):
        if isinstance(res, Exception):
            return 'raised %s before handing the text on' % type(res).__name__
        if len(res) != 1 or res[0] != args[0]:
            return 'the text must be handed on unchanged, got %r' % (res,)
        return None
    conc = Concrete('calmjs.parse.parsers.es5:Parser.parse', call, post, lambda tier, seed: [(t,) for t in EDGE],
                    bound='%d edge texts (leading/trailing white space, BOM, controls, separators)' % len(EDGE))
    lconc = Concrete('calmjs.parse.lexers.es5:Lexer.input', lcall, post, lambda tier, seed: [(t,) for t in EDGE],
                     bound='%d edge texts' % len(EDGE))
    verify_functions(run, cs, {}, {conc.qualname: conc, lconc.qualname: lconc}, tier=tier)
    # the module-level parse(): a new Parser per call, the capture flag and the text handed on (contracts/baseunparser.py)
    import contracts.baseunparser as cb_
    verify_functions(run, [c for c in cb_.build(importlib.import_module('calmjs.parse.unparsers.base'), es5) if c.funcname == 'parse'], {}, {}, tier=tier)
    # the stream helper hands the parser exactly what the stream gave it (io.read; contracts/io.py)
    import contracts.io as cio_
    iomod = importlib.import_module('calmjs.parse.io')
    rcs, _, _ = cio_.build(iomod)
    verify_functions(run, [c for c in rcs if c.funcname == 'read'], {}, {}, tier=tier)
    import io as _io
    walkers = importlib.import_module('calmjs.parse.walkers')
    rw = walkers.ReprWalker()
    texts = ['function f() { return\x0cx }', 'a = 1\x0bb = 2', 'x = "a\\\r\nb";\r\ny = 1;', 'a\x85b', 'var a = 1;\r\nvar b;\rvar c\n', 'x = 1 \x1c y',
             '\ufeffa;\n', 'a;\n\n', 's = "\x0c";']

    def outcome(fn):
        try:
            return ('tree', rw.walk(fn(), pos=True).replace(', sourcepath=None', ''))      # read() records the (absent) stream name
        except Exception as e:
            return ('error', type(e).__name__, str(e).split(' in ')[0][:80])
    m = 0
    for t in texts:
        m += 1
        direct = outcome(lambda: es5.parse(t))
        via = outcome(lambda: es5.read(_io.StringIO(t)))
        if direct != via:
            why = 'read(stream) of %r gives %s, parse(text) gives %s' % (t, str(via)[:80], str(direct)[:80])
            run.failed('rt.read_equals_parse', 'E4/bounded', repr(t), dict(text=t, problem=why), observed=why,
                       required='the stream helper parses exactly the text of the stream', replayed=True)
    run.bounded_check('rt.read_equals_parse', '%d texts with control characters, CR / CRLF line ends and a byte order mark' % len(texts), m)
    # every parse() call allocates its own Parser / Lexer and nothing of a parse outlives it (ownership obligations of C15):
    # what is decided for one parse holds for every parse, whatever was parsed before
    from .c14 import frame_obligations as _fo
    import contracts.frames as _cf
    _fo(run, _cf.C15, 'C15')
    if positions:
        import contracts.lexer as cl
        # column arithmetic of the lexer (lookup_colno is what every node position is computed with) and the token bookkeeping
        lcs, _, _ = cl.build(lexmod)
        verify_functions(run, lcs, dict((c_.qualname, c_) for c_ in lcs), {}, tier=tier)

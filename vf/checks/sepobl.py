"""O-sep obligations (DESIGN 4, C02/C01): for every adjacency in what a production prints -- left item, the chain of
layout rules between, right item -- and every pair (last token the left item can end with, first token the right item
can start with) admitted by the grammar's LAST / FIRST sets: if the REAL handler chain of the printer configuration emits
no separator then the two tokens must not fuse (spec/fuse.py); and no line break may follow a restricted keyword or
precede a postfix operator.  The chain is observed by printing the node built by the real action once with recording
handlers registered under exactly the keys of the real rule set (so the real normalisation of layout tuples applies);
the separator decision is then taken by the real handlers."""
import importlib

from .. import charclass
from ..tables import core, printing
from spec import fuse as F

ID_REPS = ['a', '\xe9', '$', '_', 'á', 'x1']
NUM_REPS = ['1', '1.', '.5', '0x1F', '1e3', '1.5', '0']
REPS = {'ID': ID_REPS, 'NUMBER': NUM_REPS, 'STRING': ['"s"', "'t'"], 'REGEX': ['/r/', '/r/g']}
RESTRICTED_AFTER = {'RETURN', 'BREAK', 'CONTINUE', 'THROW'}
MARK = ''


def reps(g, ttype):
    if ttype in REPS:
        return REPS[ttype]
    t = g.token_text.get(ttype)
    return [t] if t else []


class SepEngine(object):
    def __init__(self, g, pr, cname, mk_rules):
        self.g, self.pr, self.cname = g, pr, cname
        rt = pr.ruletypes
        self.rt = rt
        real = {}
        deferr = {}
        for rule in mk_rules():
            r = rule()
            real.update(r.get('layout_handlers', {}))
            deferr.update(r.get('deferrable_handlers', {}))
        self.real = dict((k, v) for k, v in real.items() if v is not NotImplemented and v is not None)
        self.chain_log = []
        rec = {}
        for key in self.real:
            if isinstance(key, type) and issubclass(key, rt.Structure):
                continue
            rec[key] = self._recorder(key)
        self.rec = rec
        self.deferr = deferr
        walker = importlib.import_module('calmjs.parse.unparsers.walker')
        core_h = importlib.import_module('calmjs.parse.handlers.core')
        self.walker, self.token_handler = walker, core_h.token_handler_str_default
        self.memo = {}
        self.gap_memo = {}

    def _recorder(self, key):
        log = self.chain_log
        SF = self.rt.StreamFragment

        def handler(dispatcher, node, before, after, prev):
            log.append((key, node))
            yield SF('%s%d%s' % (MARK, len(log) - 1, MARK), None, None, None, None)
        return handler

    def items(self, node):
        """[('T', text) | ('H', slot) | ('L', key, node)] printed for `node` with recording layout handlers"""
        del self.chain_log[:]
        d = self.walker.Dispatcher(self.pr.definitions, self.token_handler, self.rec, self.deferr)
        out = []
        for fr in self.walker.walk(d, node):
            t = fr.text
            if t.startswith(MARK):
                key, n = self.chain_log[int(t.strip(MARK))]
                out.append(('L', key, n))
            elif printing.HOLE_OPEN in t:
                out.append(('H', printing.hole_slot(t[t.index(printing.HOLE_OPEN):])[0]))
            elif t.strip() or t:
                out.append(('T', t))
        return out

    def separator(self, chain, before, after):
        """what the REAL handlers of this configuration emit for the chain between `before` and `after`"""
        key = (tuple((k, type(n).__name__) for k, n in chain), before, after)
        if key in self.memo:
            return self.memo[key]
        d = self.walker.Dispatcher(self.pr.definitions, self.token_handler, self.real, self.deferr)
        prev = None
        texts = []
        for k, node in chain:
            h = self.real[k]
            gen_ = h(d, node, before, after, prev)
            if not gen_:
                continue
            for fr in gen_:
                texts.append(fr.text)
                prev = fr.text
        res = ''.join(texts)
        self.memo[key] = res
        return res


def boundary_tokens(g, run, item, side, last_sets):
    """[(text, type)] the item can end with (side='last') / start with (side='first')"""
    if item[0] == 'T':
        text = item[1].strip()
        ttype = None
        for s in run.slots[1:]:
            if s['kind'] == 'T' and s['text'] == text:
                if s['sym'] in g.nonterminals:
                    # a non-terminal that passes one token through (assignment_operator): all its tokens
                    return [(g.token_text[t], t) for t in sorted(g.first[s['sym']]) if t in g.token_text]
                ttype = s['sym']
        if ttype is None:
            inv = dict((v, k) for k, v in g.token_text.items())
            ttype = inv.get(text, 'PUNCT')
        return [(text, ttype)]
    sym = run.slots[item[1]]['sym']
    inner = INNER.get(sym)
    if inner:
        sym = inner                    # a wrapper such as initializer -> EQ assignment_expr: the child node is the inner one
    types = (last_sets[sym] if side == 'last' else g.first[sym]) if sym in g.nonterminals else {sym}
    out = []
    for t in sorted(types):
        if t == 'AUTOSEMI':
            continue
        for r in reps(g, t):
            out.append((r, t))
    return out


def check_production(g, shapes, pr, eng, prod, last_sets):
    probs = []
    n = 0
    for choice in shapes.choices(prod):
        lens = (None,)
        if any(sh[0] == 'list' for sh in choice.values()):
            lens = (2,)
        for ll in lens:
            try:
                run = core.run_action(g, prod, choice, shapes=shapes, list_len=ll)
            except core.ActionRaised:
                continue
            v = run.value
            if not isinstance(v, g.asttypes_mod.Node) or getattr(type(v), '__hole__', False):
                continue
            try:
                items = eng.items(v)
            except Exception as e:
                probs.append(('%s' % prod, 'printing with recorders raised %r' % (e,)))
                continue
            # split into (left, chain, right)
            seq = [it for it in items if it[0] in ('T', 'H', 'L')]
            i = 0
            toks = [k for k, it in enumerate(seq) if it[0] != 'L']
            for a, b in zip(toks, toks[1:]):
                left, right = seq[a], seq[b]
                chain = [(it[1], it[2]) for it in seq[a + 1:b]]
                if left[0] == 'T' and (not left[1].strip() or left[1] != left[1].rstrip()):
                    continue                          # the fragment itself ends in white space (Text('var '))
                if right[0] == 'T' and (not right[1].strip() or right[1] != right[1].lstrip()):
                    continue
                lb = boundary_tokens(g, run, left, 'last', last_sets)
                rb = boundary_tokens(g, run, right, 'first', last_sets)
                gkey = (tuple((k, type(nd).__name__) for k, nd in chain), tuple(lb), tuple(rb), left[0], right[0], core.base_name(v))
                if gkey in eng.gap_memo:
                    cnt, found = eng.gap_memo[gkey]
                else:
                    found = []
                    cnt = 0
                    for lt, ltype in lb:
                        for rtxt, rtype in rb:
                            cnt += 1
                            sep = eng.separator(chain, lt, rtxt)
                            if sep == '':
                                if F.fuse(lt, ltype, rtxt, rtype):
                                    found.append(('FUSE %s %r + %r %s' % (ltype, lt, rtxt, rtype),
                                                  'prints %s %r directly followed by %s %r (rules between: %s): the two tokens fuse' % (
                                                      ltype, lt, rtype, rtxt, [getattr(k, '__name__', k) for k, _ in chain] or 'none')))
                            elif any(c in sep for c in '\n\r'):
                                if ltype in RESTRICTED_AFTER and left[0] == 'T':
                                    found.append(('NEWLINE after %s' % ltype, 'prints a line break after the restricted keyword %r' % (lt,)))
                                if rtype in ('PLUSPLUS', 'MINUSMINUS') and right[0] == 'T' and core.base_name(v) == 'PostfixExpr':
                                    found.append(('NEWLINE before postfix', 'prints a line break before postfix %r' % (rtxt,)))
                    eng.gap_memo[gkey] = (cnt, found)
                n += cnt
                for case, why in found:
                    probs.append((case, '%s %s' % (prod, why)))
    return n, probs


INNER = {}


def sep_obligations(run, g, configs):
    shapes = core.Shapes(g)
    from . import printobl
    for n in g.nonterminals:
        pre, post = printobl.wrapper_terminals(g, shapes, n)
        if pre or post:
            p = [x for x in g.productions if x.name == n][0]
            INNER[n] = [x for x in p.prod if x in g.nonterminals][0]
    pr = printing.Printing(g)
    last_sets = g.last_sets()
    cfgs = dict(pr.configs())
    total = 0
    for cname in configs:
        eng = SepEngine(g, pr, cname, cfgs[cname])
        for prod in g.productions:
            if prod.name in printobl.SKIP_LHS:
                continue
            n, probs = check_production(g, shapes, pr, eng, prod, last_sets)
            total += n
            if not n:
                continue
            name = 'O-sep[%s | %s]' % (prod, cname)
            bad = False
            seen = set()
            for case, why in probs:
                if case in seen:
                    continue
                seen.add(case)
                if run.failed(name, 'E3xE2/sep', case, dict(production=str(prod), config=cname, problem=why), observed=why,
                              required='adjacent tokens printed without a separator do not fuse', replayed=True) == 'violation':
                    bad = True
                    if len(seen) > 4:
                        break
            if not bad:
                run.discharged(name, 'E3xE2/sep', 'exec', 0.0, detail=('%d boundary pairs' % n) if prod.number % 120 == 0 else None)
    run.extra['separator_decisions'] = total
    # the pretty printer writes the space behind an operand unconditionally; it decides by character class only in front of the
    # operand of typeof / void / delete (identifier start).  The minifying handlers decide by class on both sides.
    boundary_class_obligation(run, ends=any(c.startswith('minify') for c in configs))
    run.trust('spec/fuse.py (token fusion per the ES5 longest-match rule)', 'LAST/FIRST token sets of the extracted grammar over-approximate '
              'the tokens that can meet at an adjacency; representatives per token class: identifiers %r, numbers %r' % (ID_REPS, NUM_REPS))


def boundary_class_obligation(run, ends=True):
    """The O-sep obligations replay the space handlers on representative spellings of each token class.  What makes the
    representatives sufficient on the left of a boundary: the handlers' `required_space` recognises EVERY character an identifier
    (or keyword, or number) of the real lexer can end in, when a word character follows.  Exhaustive over all code points, from
    the two real compiled patterns: identifier-part(c)  =>  required_space(c + 'i')."""
    import importlib
    import re
    import time
    t0 = time.time()
    lexmod = importlib.import_module('calmjs.parse.lexers.es5')
    core_h = importlib.import_module('calmjs.parse.handlers.core')
    ident = re.compile(charclass.rule_pattern(lexmod.Lexer.t_ID))
    req = core_h.required_space
    part = charclass.from_pred(lambda cp: ident.fullmatch('a' + chr(cp)) is not None)
    covered = charclass.from_pred(lambda cp: req.match(chr(cp) + 'i') is not None and req.match(chr(cp) + '$') is not None)
    missing = charclass.minus(part, covered)
    # ... and on the right of a boundary every character an identifier can START with, when a word character is in front
    start = charclass.from_pred(lambda cp: ident.fullmatch(chr(cp)) is not None)
    covered_r = charclass.from_pred(lambda cp: req.match('a' + chr(cp)) is not None and req.match('1' + chr(cp)) is not None)
    missing_r = charclass.minus(start, covered_r)
    if missing_r:
        cp = missing_r[0][0]
        why = ('an identifier of this lexer may start with U+%04X (%d code points in %d ranges: %s) but required_space does not ask for a '
               'separator between a preceding word and it: %r' % (cp, charclass.size(missing_r), len(missing_r), charclass.show(missing_r), 'typeof ' + chr(cp)))
        run.failed('class.required_space_covers_identifier_start', 'E3/charclass', 'U+%04X' % cp, dict(source='x = typeof %sb;' % chr(cp), problem=why),
                   observed=why, required='every character an identifier can start with is a word boundary character for the space handlers',
                   replayed=False, solver_output=why)
    else:
        run.discharged('class.required_space_covers_identifier_start', 'E3/charclass', 'exhaustive', (time.time() - t0) * 1000,
                       detail='%d identifier-start code points of the real t_ID pattern, all recognised on the right of a boundary' % charclass.size(start))
    name = 'class.required_space_covers_identifier_end'
    if not ends:
        return
    if missing:
        cp = missing[0][0]
        why = ('an identifier of this lexer may end in U+%04X (%d code points in %d ranges: %s) but required_space does not ask for a '
               'separator between it and a following word: %r' % (cp, charclass.size(missing), len(missing), charclass.show(missing), 'a' + chr(cp) + ' in b'))
        run.failed(name, 'E3/charclass', 'U+%04X' % cp, dict(source='x = a%s in b;' % chr(cp), problem=why), observed=why,
                   required='every character an identifier can end in is a word boundary character for the space handlers', replayed=False,
                   solver_output=why)
    else:
        run.discharged(name, 'E3/charclass', 'exhaustive', (time.time() - t0) * 1000,
                       detail='%d identifier-part code points of the real t_ID pattern, all recognised on the left of a boundary' % charclass.size(part))

"""Shared by C09 and C18: the paths written into a source map and into the sourceMappingURL designate the
right files.  E1: wiring contract of sourcemap.verify_write_sourcemap_args (contracts/paths.py).
Bounded stand-in: utils.normrelpath round trip (resolving the result against the directory of the base
gives the target) over generated absolute paths."""
import importlib
import itertools
import posixpath

from ..e1run import Concrete, verify_functions, run_bounded


def _paths():
    dirs = ['/', '/a', '/a/b', '/a/b/c', '/x', '/x/y', '/a/../x', '/a/./b', '/a//b']
    files = ['f.js', 'g.js.map', 'h']
    return [posixpath.join(d, f) for d in dirs for f in files]


def add(run, tier):
    sm = importlib.import_module('calmjs.parse.sourcemap')
    utils = importlib.import_module('calmjs.parse.utils')
    import contracts.paths as cp
    cs, lemmas, env = cp.build(sm)

    class S(object):
        def __init__(self, name):
            self.name = name

    def resolve(base, rel):
        return posixpath.normpath(posixpath.join(posixpath.dirname(base), rel))

    def call(args):
        out, mp, srcs = args
        return sm.verify_write_sourcemap_args('M', list(srcs), ['n'], S(out), S(mp))

    def post(args, res):
        if isinstance(res, Exception):
            return 'raised %r' % res
        out, mp, srcs = args
        (fn, m, sources, names), url = res
        if resolve(mp, fn) != posixpath.normpath(out):
            return '`file` %r resolved against the map %r does not designate the output %r' % (fn, mp, out)
        if resolve(out, url) != posixpath.normpath(mp):
            return 'sourceMappingURL %r resolved against the output %r does not designate the map %r' % (url, out, mp)
        for s, r in zip(srcs, sources):
            if resolve(mp, r) != posixpath.normpath(s):
                return 'sources entry %r resolved against the map %r does not designate the source %r' % (r, mp, s)
        if len(sources) != len(srcs) or m != 'M' or names != ['n']:
            return 'mappings / names / number of sources changed'
        return None

    def inputs(tier, seed):
        ps = _paths()
        for out, mp in itertools.product(ps[::2], ps[1::3]):
            yield (out, mp, (ps[(len(out) * 7 + len(mp)) % len(ps)], ps[(len(out) + 3 * len(mp)) % len(ps)]))
    conc = Concrete('calmjs.parse.sourcemap:verify_write_sourcemap_args', call, post, inputs,
                    bound='absolute POSIX paths over 9 directories (nested, sibling, with .. / . / //) x 3 file names')
    verify_functions(run, cs, {}, {conc.qualname: conc}, tier=tier)
    verify_functions(run, cp.build_write_sourcemap(sm), {}, {}, tier=tier)
    verify_functions(run, cp.build_normrelpath(utils), {}, {}, tier=tier)
    verify_functions(run, cp.build_encode_sourcemap(sm), {}, {}, tier=tier)
    f = run_bounded(run, conc, tier, name='rt.verify_write_sourcemap_args')
    if f:
        run.failed('rt.verify_write_sourcemap_args', 'E4/bounded', f['args'], f, observed=f['required'],
                   required='file / sources relative to the map, sourceMappingURL relative to the output', replayed=True)
    # inline data URL: what the declared charset decodes to is the map of the lower-level API, whatever error handler the stream has
    import base64
    import io
    import json
    n2 = 0
    for enc_, errors_, src_ in [(e_, r_, s_) for e_ in ('utf-8', 'latin-1', 'ascii', None) for r_ in (None, 'strict', 'replace', 'ignore', 'xmlcharrefreplace')
                                for s_ in ('/x/src/in.js', '/x/src/\u30bd\u30fc\u30b9.js', '/x/src/caf\xe9.js')] + [
                                   # names whose bytes put 62 / 63 into the base64 text at every alignment ('+' and '/' of the standard alphabet)
                                   ('utf-8', None, '/x/src/' + 'a' * k_ + t_) for k_ in (0, 1, 2) for t_ in ('>>>?.js', '~~~.js', '\u03c0\u03c0.js', '\xfb\xff.js')]:
        class St(object):
            def __init__(self):
                self.buf = io.StringIO()
                self.name = '/x/build/out.js'

            def write(self, t):
                return self.buf.write(t)

            def writelines(self, ls):
                return self.buf.writelines(ls)

            def getvalue(self):
                return self.buf.getvalue()
        st = St()
        if enc_ is not None:
            st.encoding = enc_
        if errors_ is not None:
            st.errors = errors_
        n2 += 1
        want = sm.encode_sourcemap(*sm.verify_write_sourcemap_args([[(0, 0, 0, 0)]], [src_], ['n'], st, st)[0])
        try:
            sm.write_sourcemap([[(0, 0, 0, 0)]], [src_], ['n'], st, st)
        except UnicodeEncodeError:
            continue        # the failure propagates: nothing wrong is written
        text = st.getvalue()
        head, _, payload = text.partition(',')
        charset = head.rsplit('charset=', 1)[-1]
        try:
            got = json.loads(base64.b64decode(payload, validate=True).decode(charset))     # the standard alphabet, nothing else (RFC 2397 / 4648)
        except Exception as e:
            got = 'undecodable: %r' % (e,)
        if got != want:
            why = 'stream encoding=%r errors=%r source %r: the data URL decodes to %r, the lower-level API yields %r' % (enc_, errors_, src_, got, want)
            run.failed('rt.inline_map', 'E4/bounded', '%s/%s/%s' % (enc_, errors_, src_), dict(encoding=enc_, errors=errors_, source=src_), observed=why,
                       required='the inline data URL decodes to the same source map', replayed=True)
    run.bounded_check('rt.inline_map', 'stream encodings x error handlers x source names (ASCII, Latin-1, Japanese)', n2)
    # normrelpath round trip
    n = 0
    for base, target in itertools.product(_paths(), _paths()):
        n += 1
        r = utils.normrelpath(base, target)
        if resolve(base, r) != posixpath.normpath(target):
            why = 'normrelpath(%r, %r) = %r resolves to %r' % (base, target, r, resolve(base, r))
            run.failed('rt.normrelpath', 'E4/bounded', '%s -> %s' % (base, target), dict(base=base, target=target, result=r), observed=why,
                       required='resolving the result against the directory of base designates target', replayed=True)
            break
    # the result may not depend on the working directory: bases directly in the root, targets below / beside the current directory
    import os
    import tempfile
    here = os.getcwd()
    tmp = tempfile.mkdtemp(prefix='vf-cwd-')
    try:
        os.makedirs(os.path.join(tmp, 'app', 'src'))
        done = False
        for cwd in (os.path.join(tmp, 'app'), os.path.join(tmp, 'app', 'src'), tmp):
            os.chdir(cwd)
            for base in ('/out.js', '/bundle.js.map', posixpath.join(tmp, 'out.js'), posixpath.join(cwd, 'maps', 'out.js.map')):
                for target in (posixpath.join(cwd, 'src', 'x.js'), posixpath.join(posixpath.dirname(cwd), 'y.js'), '/z.js', posixpath.join(cwd, 'x.js')):
                    n += 1
                    r = utils.normrelpath(base, target)
                    if not done and resolve(base, r) != posixpath.normpath(target):
                        why = 'with working directory %r: normrelpath(%r, %r) = %r resolves to %r' % (cwd, base, target, r, resolve(base, r))
                        run.failed('rt.normrelpath', 'E4/bounded', 'cwd | %s -> %s' % (base, target.replace(tmp, '<tmp>')), dict(base=base, target=target, result=r, cwd=cwd),
                                   observed=why.replace(tmp, '<tmp>'), required='resolving the result against the directory of base designates target, whatever the working directory', replayed=True)
                        done = True
    finally:
        os.chdir(here)
        import shutil
        shutil.rmtree(tmp, ignore_errors=True)
    run.bounded_check('rt.normrelpath', 'all pairs of %d absolute POSIX paths; bases in the root directory x 3 working directories' % len(_paths()), n)

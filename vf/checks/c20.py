"""C20 -- pretty output is indented exactly by block depth and ends with one newline (DESIGN 4, C20)."""
import importlib

from ..tables import core, printing
from .. import gen, scratch
from . import printobl

LEVEL = 'other'

INDENTS = ['  ', '\t', ' \t ', '']


def make_printer(pr, s):
    """Unparser driven by the dict the REAL rules.indent(s) factory returns; also returns the real
    Indentator instance behind it (bound-method __self__) so its level can be observed."""
    rt = pr.ruletypes
    r = pr.rules.indent(indent_str=s)()
    inst = r['layout_handlers'][rt.Indent].__self__
    up = pr.unparsers.Unparser(definitions=pr.definitions, rules=(lambda: r,))
    return up, inst


def check_node(pr, run, s, kind):
    """Print the node of one tagged run under rules.indent(s); -> list of problems."""
    up, inst = make_printer(pr, s)
    probs = []
    depth = 0
    at_line_start = True      # the node starts on a fresh line at level 0
    pending = ''
    in_case_header = kind in ('Case', 'Default')
    case_bonus = 0
    text_out = []
    try:
        for fr in up(run.value):
            text = fr.text
            text_out.append(text)
            if text in ('\n', '\r\n', '\r'):
                at_line_start = True
                pending = ''
                continue
            if at_line_start and fr.lineno is None and fr.colno is None and text.strip() == '' and not printing.HOLE_OPEN in text:
                pending += text
                continue
            hole = printing.HOLE_OPEN in text
            if not hole and text == '}':
                depth -= 1
            expected = depth + case_bonus
            if at_line_start:
                if text.strip() == '' and not hole:
                    probs.append('a line starts with white space %r that is not indentation' % text)
                elif pending != s * expected:
                    probs.append('line starting with %s is indented by %r, depth %d requires %r' % (
                        'a child' if hole else repr(text), pending, expected, s * expected))
            if hole and inst._level != expected:
                probs.append('child of slot %s is printed at level %d, its depth is %d' % (
                    printing.hole_slot(text[text.index(printing.HOLE_OPEN):])[0], inst._level, expected))
            if not hole and text == '{':
                depth += 1
            if in_case_header and not hole and text == ':':
                in_case_header = False
                case_bonus = 1
            at_line_start = False
    except Exception as e:
        probs.append('printing raised %r' % (e,))
        return probs, ''
    if inst._level != 0:
        probs.append('indentation level is %d (not 0) after the node' % inst._level)
    if depth != 0:
        probs.append('unbalanced braces in the node\'s own tokens')
    return probs, ''.join(text_out)


def check_production(g, shapes, pr, prod):
    out = []
    runs = 0
    for choice in shapes.choices(prod):
        lens = (None,)
        if any(sh[0] == 'list' for sh in choice.values()):
            lens = (0, 1, 2, 3)
        for ll, commented in [(l_, c_) for l_ in lens for c_ in (False, True)]:
            try:
                if commented:
                    # every terminal of the production carries a captured block and line comment
                    hidden = dict((i, printobl._comment_tokens(i)) for i, s_ in enumerate(prod.prod, 1) if s_ in g.terminals)
                    if not hidden:
                        continue
                    run = core.run_action(g, prod, choice, shapes=shapes, list_len=ll, with_comments=True, hidden=hidden)
                else:
                    run = core.run_action(g, prod, choice, shapes=shapes, list_len=ll)
            except core.ActionRaised:
                continue
            v = run.value
            if not isinstance(v, g.asttypes_mod.Node) or getattr(type(v), '__hole__', False):
                continue
            kind = core.base_name(v)
            label = '%s [%s]%s%s' % (prod, ','.join('%d:%s' % (k + 1, sh[-1]) for k, sh in sorted(choice.items())),
                                     '' if ll is None else ' len=%d' % ll, ' +comments' if commented else '')
            for s in INDENTS:
                probs, text = check_node(pr, run, s, kind)
                runs += 1
                for why in probs:
                    out.append((label + ' indent=%r' % s, why))
                if kind == 'ES5Program' and text:
                    if not text.endswith('\n') or text.endswith('\n\n'):
                        out.append((label + ' indent=%r' % s, 'non-empty output does not end with exactly one newline: %r' % text[-6:]))
    return runs, out


def optional_concrete(imod):
    """Executable form of the OptionalNewline contract: replays a failed obligation on the real handler."""
    import itertools
    from ..e1run import Concrete

    class Disp(object):
        def __init__(self, nl, ind):
            self.newline_str, self.indent_str = nl, ind

    def call(a):
        own, dind, nl, level, before, after, prev = a
        inst = imod.Indentator(own)
        inst._level = level
        out = [tuple(f) for f in inst.layout_handler_newline_optional(Disp(nl, dind), None, before, after, prev)]
        return out, inst._level

    def post(a, r):
        own, dind, nl, level, before, after, prev = a
        if isinstance(r, Exception):
            return 'no exception'
        out, lv = r
        ind = (dind if own is None else own) * level
        supplied = any(x is not None and y for x, y in (
            (before, before is not None and before[-len(nl):] in ('\r', '\n', nl)), (after, after is not None and after[:len(nl)] in ('\r', '\n', nl)),
            (prev, prev is not None and prev[-len(nl):] in ('\r', '\n', nl))))
        want = ([] if supplied else [(nl, 0, 0, None, None)]) + ([(ind, None, None, None, None)] if ind else [])
        if out != want or lv != level:
            return 'fragments %r, level %d' % (want, level)
        return None

    def inputs(tier, seed):
        return itertools.product((None, '  ', ''), ('\t',), ('\n', '\r\n', '\r'), (0, 1, 2), (None, '', 'x', '// c', '}'),
                                 (None, '', 'x', '}', '\n', '\nx', '\r\nx', '\rx'), (None, '', 'x', '  ', '\n', 'x\n', 'x\r\n', 'x\r'))
    return Concrete(imod.__name__ + ':Indentator.layout_handler_newline_optional', call, post, inputs,
                    bound='the finite shapes of the contract x level 0..2 x 3 own indentation strings')


# ---- independent depth scanner for whole outputs (bounded stand-in oracle) -------------------

def expected_depths(lexmod, text):
    """[(line_start_offset, depth)] for every line that starts a token, from the statement of C20:
    enclosing braces + 1 inside a case/default body.  Uses the lexer only to find token boundaries."""
    lx = lexmod.Lexer()
    lx.input(text)
    toks = []
    while True:
        t = lx.token()
        if not t:
            break
        toks.append(t)
    brace = 0
    nest = 0                 # ( and [ nesting
    case_at = {}             # brace depth -> state: 'header' | 'body'
    marker = {}              # brace depth -> (nest, ternaries) while in a header
    res = {}
    line_start = {}
    from spec import es5_lines
    starts = es5_lines.line_starts(text)
    first_on_line = {}
    for t in toks:
        ln = es5_lines.linecol(text, t.lexpos, starts)[0]
        if ln not in first_on_line:
            first_on_line[ln] = t
    out = []
    # tokens (strings with line continuations) that span a line start: that line is exempt.  Comments are
    # not returned by Lexer.token(); lines inside a block comment start no token and are never listed.
    spanning = [u for u in toks if any(c in u.value for c in '\n\r\u2028\u2029')]
    for t in toks:
        ty = t.type
        if ty == 'RBRACE':
            case_at.pop(brace, None)
            marker.pop(brace, None)
            brace -= 1
        if ty in ('CASE', 'DEFAULT') and nest == marker.get(brace, (nest,))[0]:
            # a new clause: leaves the previous clause's body
            if not (brace in marker):
                case_at[brace] = 'header'
                marker[brace] = [nest, 0]
        depth = brace + sum(1 for d, st in case_at.items() if st == 'body' and d <= brace)
        ln = es5_lines.linecol(text, t.lexpos, starts)[0]
        if first_on_line.get(ln) is t and not any(
                u.lexpos < starts[ln - 1] < u.lexpos + len(u.value) for u in spanning):
            out.append((starts[ln - 1], t.lexpos, depth, t.value))
        if ty == 'LBRACE':
            brace += 1
        elif ty in ('LPAREN', 'LBRACKET'):
            nest += 1
        elif ty in ('RPAREN', 'RBRACKET'):
            nest -= 1
        elif brace in marker and nest == marker[brace][0]:
            if ty == 'CONDOP':
                marker[brace][1] += 1
            elif ty == 'COLON':
                if marker[brace][1] > 0:
                    marker[brace][1] -= 1
                else:
                    case_at[brace] = 'body'
                    del marker[brace]
    return out


def check_program(mods, src, s, with_comments):
    es5, unparsers, lexmod = mods
    try:
        tree = es5.Parser(with_comments=with_comments).parse(src)
    except Exception as e:
        if type(e).__name__ in ('ECMASyntaxError', 'ECMARegexSyntaxError'):
            return None
        raise
    text = unparsers.pretty_print(tree, indent_str=s)
    probs = []
    if text and (not text.endswith('\n') or text.endswith('\n\n')):
        probs.append('non-empty output does not end with exactly one newline: %r' % text[-8:])
    try:
        rows = expected_depths(lexmod, text)
    except Exception as e:
        return ['pretty output does not lex: %r' % (e,)]
    for ls, pos, depth, tok in rows:
        lead = text[ls:pos]
        if lead != s * depth:
            probs.append('line starting with %r is indented by %r, depth %d requires %r' % (tok, lead, depth, s * depth))
            break
    return probs


def main(run, tier):
    g = core.G()
    shapes = core.Shapes(g)
    pr = printing.Printing(g)
    run.explanation = ('per grammar production x indentation string: the node built by the real action is printed under the '
                       'real rules.indent(s) with the real Indentator observed; every line-starting token and every child is '
                       'at s x (open braces of the node + case/default body), level 0 and balanced braces at the end')
    for f in ('calmjs.parse.handlers.indentation', 'calmjs.parse.unparsers.es5', 'calmjs.parse.unparsers.walker',
              'calmjs.parse.rules', 'calmjs.parse.handlers.core', 'calmjs.parse.ruletypes'):
        run.function(f, scratch.sha256_file(scratch.module_path(f))[:16])
    run.floor = 150
    from . import printfwd
    printfwd.add(run, tier)
    # the convenience wrappers of factory.py (contracts/factory.py): es5.pretty_print(source, ...) parses once and hands every positional
    # and keyword argument but with_comments to the printer unchanged
    from ..e1run import verify_functions as _vff
    import contracts.factory as _cfac
    _vff(run, _cfac.build(importlib.import_module('calmjs.parse.factory')), {}, {}, tier=tier)
    # a printer leaves nothing behind, and no printer object or table is shared between calls (ownership obligations of C14):
    # the depth argument below is per printer
    from .c14 import frame_obligations as _fo
    import contracts.frames as _cf
    _fo(run, _cf.C14, 'C14')
    total = 0
    for prod in g.productions:
        runs, out = check_production(g, shapes, pr, prod)
        total += runs
        if not runs:
            continue
        name = 'O-depth[%s]' % prod
        bad = False
        seen = set()
        for label, why in out:
            if len(seen) >= 3:
                break
            if (label, why) in seen:
                continue
            seen.add((label, why))
            if run.failed(name, 'E2/tables', label, dict(production=str(prod), problem=why), observed=why,
                          required='line indentation = s x depth; level restored', replayed=True) == 'violation':
                bad = True
        if not bad:
            run.discharged(name, 'E2/tables', 'exec', 0.0, detail=('%d printed runs' % runs) if prod.number % 50 == 0 else None)
    run.extra['printed_runs'] = total
    # ---- E1: the Indentator methods against contracts taken from the statement
    from ..e1run import verify_functions
    import contracts.indentation as ci
    imod = importlib.import_module(ci.MODULE)
    cs, lemmas, env = ci.build(imod)
    verify_functions(run, cs, dict((c.qualname, c) for c in cs), {ci.MODULE + ':Indentator.layout_handler_newline_optional': optional_concrete(imod)},
                     tier=tier, both=(tier == 'thorough'))
    # ---- bounded: whole programs
    es5 = importlib.import_module('calmjs.parse.parsers.es5')
    unparsers = importlib.import_module('calmjs.parse.unparsers.es5')
    lexmod = importlib.import_module('calmjs.parse.lexers.es5')
    mods = (es5, unparsers, lexmod)
    corpus = gen.corpus(g, depth2=True)
    progs = [gen.render(t, ' ') for _, t in corpus] + list(gen.EXTRA_PROGRAMS)
    progs += ['switch (a) { case 1: case 2: { b; } c ? d : e; default: switch (f) { case g: h; } } i;',
              'function f() { return { a: function () { if (b) { c; } }, d: [ { e: 1 } ] }; }',
              'x = { get a() { return 1; }, set a(v) { }, b: { } };', 'switch (a) { }', 'if (a) { } else { }',
              '/* c */ a; // d\nb; /* e\n f */ c;']
    n = ok = nfail = 0
    for k, src in enumerate(progs):
        for s in (INDENTS if tier == 'thorough' else [INDENTS[k % 4], INDENTS[(k + 1) % 4]]):
            for wc in (False, True):
                probs = check_program(mods, src, s, wc)
                n += 1
                if probs is None:
                    continue
                ok += 1
                for why in probs[:1]:
                    nfail += 1
                    if nfail <= 10:
                        run.failed('rt.indent', 'E4/bounded', 'indent=%r | %s' % (s, src),
                                   dict(source=src, indent=s, with_comments=wc, problem=why), observed=why,
                                   required='each line = indent x depth; one final newline', replayed=True)
    # the source-level helper (calmjs.parse.es5.pretty_print) with the indentation string given by position and by keyword
    helper = importlib.import_module('calmjs.parse').es5
    for s in INDENTS:
        for src in ('function f(a) { if (a) { return {b: 1}; } }', 'switch (a) { case 1: b; default: { c; } }'):
            want = unparsers.pretty_print(es5.Parser().parse(src), indent_str=s)
            for label, call in (('positional', lambda: helper.pretty_print(src, s)), ('keyword', lambda: helper.pretty_print(src, indent_str=s))):
                n += 1
                ok += 1
                try:
                    got = call()
                except Exception as e:
                    got = 'raised %r' % (e,)
                if got != want:
                    run.failed('rt.indent.helper', 'E4/bounded', '%s indent=%r | %s' % (label, s, src), dict(indent=s, source=src, got=got, want=want),
                               observed=repr(got)[:200], required='es5.pretty_print(source, indent) indents with the given string: %r' % want[:120], replayed=True)
    for s in INDENTS:
        printer = unparsers.pretty_printer(indent_str=s)
        t1 = es5.Parser().parse('function f() { if (a) { b; } }')
        it = printer(t1)
        for _ in range(12):
            next(it)                      # abandon the first call inside nested blocks
        t2 = es5.Parser().parse('if (a) { b; }')
        text = ''.join(fr.text for fr in printer(t2))
        n += 1
        ok += 1
        want = 'if (a) {\n%sb;\n}\n' % s
        if text != want:
            run.failed('rt.indent.reuse', 'E4/bounded', 'indent=%r' % s, dict(indent=s, got=text, want=want),
                       observed=repr(text), required='a reused printer indents by depth again: %r' % want, replayed=True)
    run.bounded_check('rt.indent', 'generated program per production/nesting + hand-written nesting programs x indentation '
                      'strings (quick: 2 of 4 per program) x comment capture; depth oracle = independent brace/case scanner', n, ok)
    run.trust('children print relative to the level they start at and restore it (induction hypothesis = O-depth of their '
              'own productions)', 'Lexer (token boundaries of the output) in the bounded oracle only')
    run.assume('lines that continue a multi-line string/comment token are exempt (holes are atoms in the E2 runs)',
               'the unparse walk (walk._walk / walk.walk) is under contract (contracts/unparse_walk.py, definitions of <= 3 rules); its '
               'marker normalisation walk.process_layouts is exercised for real in every run but has no SMT contract; '
               'Indentator.layout_handler_newline_optional: surrounding texts range over a finite set of shapes, text token in front '
               'assumed not to end in a line break (level and indentation strings symbolic)')


def replay(data):
    w = data.get('witness') or {}
    g = core.G()
    pr = printing.Printing(g)
    if 'source' in w and 'want' in w:
        helper = importlib.import_module('calmjs.parse').es5
        unparsers = importlib.import_module('calmjs.parse.unparsers.es5')
        es5 = importlib.import_module('calmjs.parse.parsers.es5')
        want = unparsers.pretty_print(es5.Parser().parse(w['source']), indent_str=w['indent'])
        got = [helper.pretty_print(w['source'], w['indent']), helper.pretty_print(w['source'], indent_str=w['indent'])]
        print(repr(w['source']), repr(w['indent']), [g == want for g in got])
        return 0 if all(g == want for g in got) else 1
    if 'source' in w:
        es5 = importlib.import_module('calmjs.parse.parsers.es5')
        unparsers = importlib.import_module('calmjs.parse.unparsers.es5')
        lexmod = importlib.import_module('calmjs.parse.lexers.es5')
        probs = check_program((es5, unparsers, lexmod), w['source'], w['indent'], w.get('with_comments', False))
        print(repr(w['source']), probs)
        return 1 if probs else 0
    shapes = core.Shapes(g)
    bad = 0
    for prod in g.productions:
        if str(prod) == w.get('production'):
            runs, out = check_production(g, shapes, pr, prod)
            for label, why in out:
                print('REPRODUCED', label, why)
                bad += 1
    return 1 if bad else 0

"""C13 -- comment capture is faithful and does not perturb the parse (DESIGN 4, C13)."""
import ast as pyast
import importlib

import re
import ply.lex

from ..tables import core
from .. import gen, scratch
from spec import es5_lines

LEVEL = 'other'


def tagged_comments(slot):
    out = []
    # the texts have what a "tidying" transformation would touch: leading / trailing blanks (space, tab, NBSP), mixed case, a doubled blank
    for k, (ty, text) in enumerate((('BLOCK_COMMENT', '/* \ts%da  Mixed \t\xa0*/' % slot), ('LINE_COMMENT', '// s%db  Mixed \t\xa0' % slot))):
        t = ply.lex.LexToken()
        t.type, t.value = ty, text
        t.lexpos, t.lineno, t.colno = 100000 + slot * 10 + k, 7, slot * 10 + k
        out.append(t)
    return out


def comments_of(node):
    c = getattr(node, 'comments', None)
    return list(c.children()) if c is not None else []


def check_production(g, shapes, prod):
    """O-comments: comments reach a node only from its anchor terminal, verbatim, in order, and no captured comment is
    attached to two nodes of the same action."""
    probs = []
    runs = 0
    for choice in shapes.choices(prod):
        hidden = dict((i, tagged_comments(i)) for i, s in enumerate(prod.prod, 1) if s in g.terminals)
        try:
            run = core.run_action(g, prod, choice, with_comments=True, shapes=shapes, hidden=hidden)
        except core.ActionRaised:
            continue
        runs += 1
        label = '%s [%s]' % (prod, ','.join('%d:%s' % (k + 1, s[-1]) for k, s in sorted(choice.items())))
        seen = {}
        for node in core.new_nodes(g, run.value):
            kind = core.base_name(node)
            if kind in ('Comments', 'LineComment', 'BlockComment'):
                continue
            cs = comments_of(node)
            if not cs:
                continue
            vals = [c.value for c in cs]
            slots = set(int(m.group(1)) if m else -1 for m in (re.search(r's(\d+)[ab]', v) for v in vals))
            if len(slots) != 1:
                probs.append((label, '%s carries comments of several tokens: %r' % (kind, vals)))
                continue
            slot = slots.pop()
            want = [t.value for t in hidden[slot]]
            if vals != want:
                probs.append((label, '%s carries %r, the token of slot %d had %r (order / content)' % (kind, vals, slot, want)))
            for c, t in zip(cs, hidden[slot]):
                if (c.lexpos, c.lineno, c.colno) != (t.lexpos, t.lineno, t.colno):
                    probs.append((label, 'comment %r positioned at %r, the token says %r' % (c.value, (c.lexpos, c.lineno, c.colno), (t.lexpos, t.lineno, t.colno))))
                want_kind = 'BlockComment' if t.type == 'BLOCK_COMMENT' else 'LineComment'
                if core.base_name(c) != want_kind:
                    probs.append((label, 'comment %r became a %s' % (c.value, core.base_name(c))))
            if (node.lexpos, node.lineno, node.colno)[:2] != run.slots[slot]['triple'][:2] and kind != 'EmptyStatement':
                probs.append((label, '%s takes comments from slot %d but is positioned elsewhere' % (kind, slot)))
            if slot in seen:
                probs.append((label, 'the comments before slot %d are attached twice: to %s and to %s' % (slot, seen[slot], kind)))
            seen[slot] = kind
    return runs, probs


def flag_uses(run):
    """O-transparent: where the capture flag is read (syntactic)."""
    allowed = {
        'calmjs.parse.lexers.es5': {('Lexer.__init__', 'with_comments'), ('Lexer._token', 'with_comments'), ('Lexer._token', 'yield_comments'),
                                    ('Lexer.__init__', 'yield_comments')},
        'calmjs.parse.asttypes': {('Node.setpos', 'with_comments')},
        'calmjs.parse.parsers.es5': {('Parser.__init__', 'with_comments'), ('parse', 'with_comments')},
    }
    for mod, ok in allowed.items():
        with open(scratch.module_path(mod)) as fd:
            tree = pyast.parse(fd.read())
        found = set()

        def visit(node, path):
            for ch in pyast.iter_child_nodes(node):
                p = path + [ch.name] if isinstance(ch, (pyast.FunctionDef, pyast.ClassDef)) else path
                if isinstance(ch, pyast.Attribute) and ch.attr in ('with_comments', 'yield_comments'):
                    found.add(('.'.join(path), ch.attr))
                if isinstance(ch, pyast.Name) and ch.id in ('with_comments', 'yield_comments') and isinstance(ch.ctx, pyast.Load):
                    found.add(('.'.join(path), ch.id))
                visit(ch, p)
        visit(tree, [])
        name = 'O-transparent[%s]' % mod.split('.')[-2 if mod.endswith('es5') else -1]
        extra = sorted(found - ok)
        if extra:
            run.failed(name, 'E1/frame', repr(extra[0]), dict(module=mod, uses=extra), observed='capture flag read in %r' % (extra,),
                       required='the flag only decides whether comment tokens are kept; it is read nowhere else', replayed=False,
                       solver_output=repr(extra))
        else:
            run.discharged(name, 'E1/frame', 'static', 0.0, detail=sorted(found))
    # inside _token the flag may only guard the append / the return of the comment token itself
    with open(scratch.module_path('calmjs.parse.lexers.es5')) as fd:
        src = fd.read()
    tree = pyast.parse(src)
    ok = True
    why = ''
    for cls in tree.body:
        if isinstance(cls, pyast.ClassDef) and cls.name == 'Lexer':
            for fn in cls.body:
                if isinstance(fn, pyast.FunctionDef) and fn.name == '_token':
                    for n in pyast.walk(fn):
                        if isinstance(n, pyast.If):
                            t = pyast.unparse(n.test)
                            if 'with_comments' in t or 'yield_comments' in t:
                                body = [pyast.unparse(b) for b in n.body]
                                if body not in (['return tok'], ['self.hidden_tokens.append(tok)']):
                                    ok, why = False, 'flag guards %r' % (body,)
    if ok:
        run.discharged('O-transparent[_token branches]', 'E1/frame', 'static', 0.0)
    else:
        run.failed('O-transparent[_token branches]', 'E1/frame', why, dict(why=why), observed=why,
                   required='the flag guards only `hidden_tokens.append(tok)` / `return tok`', replayed=False, solver_output=why)


def definitions_obligations(run, g, shapes):
    """every node kind that can receive comments prints them first (CommentsAttr at the head of its definition)"""
    unparsers = importlib.import_module('calmjs.parse.unparsers.es5')
    ruletypes = importlib.import_module('calmjs.parse.ruletypes')
    kinds = set()
    for prod in g.productions:
        for choice in shapes.choices(prod):
            hidden = dict((i, tagged_comments(i)) for i, s in enumerate(prod.prod, 1) if s in g.terminals)
            try:
                r = core.run_action(g, prod, choice, with_comments=True, shapes=shapes, hidden=hidden)
            except core.ActionRaised:
                continue
            for node in core.new_nodes(g, r.value):
                if comments_of(node):
                    kinds.add(core.base_name(node))
            break
    for k in sorted(kinds):
        d = unparsers.definitions.get(k)
        name = 'O-print-comments[%s]' % k
        if d and isinstance(d[0], ruletypes.CommentsAttr):
            run.discharged(name, 'E2/tables', 'exec', 0.0)
        else:
            run.failed(name, 'E2/tables', k, dict(kind=k), observed='definition of %s does not start with CommentsAttr' % k,
                       required='captured comments are printed', replayed=True)
    return kinds


# ---- bounded ---------------------------------------------------------------------------------------

def strip_comments(walkers, tree):
    return walkers.ReprWalker().walk(tree, omit=('lexpos', 'lineno', 'colno', 'rowno', 'comments'))


def collect(Node, tree):
    out = []
    seen = set()

    def visit(v):
        if isinstance(v, list):
            for x in v:
                visit(x)
        elif isinstance(v, Node) and id(v) not in seen:
            seen.add(id(v))
            cs = getattr(v, 'comments', None)
            if cs is not None:
                out.append((type(v).__name__, [(type(c).__name__, c.value, c.lexpos, c.lineno, c.colno) for c in cs.children()]))
            for k, x in vars(v).items():
                if k not in ('_token_map', 'comments'):
                    visit(x)
    visit(tree)
    return out


COMMENTS = ['/*c*/', '// c\n', '/* a\n b */', '/*x*/ /*y*/', '// note:  \t\n',
            # every ES5 line terminator inside and behind a comment, with a second comment on the same (new) line
            '/* a\u2028 b */ /*z*/', '// c\u2029/*z*/', '/* a\r\n b */ /*z*/', '// c\r/*z*/']


def check_placement(mods, toks, i, comment):
    es5, walkers, unparsers, Node = mods
    plain = ' '.join(x for _, x in toks)
    src = ' '.join(x for _, x in toks[:i]) + ' ' + comment + ' ' + ' '.join(x for _, x in toks[i:])

    def parse(s, wc):
        try:
            return ('tree', es5.Parser(with_comments=wc).parse(s))
        except Exception as e:
            return ('error', type(e).__name__)
    a, b = parse(src, False), parse(src, True)
    probs = []
    if a[0] != b[0]:
        return ['capture changes acceptance: without %s, with %s' % (a[0], b[0])], src
    if a[0] == 'error':
        return None, src
    if strip_comments(walkers, a[1]) != strip_comments(walkers, b[1]):
        probs.append('capture changes the tree')
    att = collect(Node, b[1])
    starts = es5_lines.line_starts(src)
    positions = []
    for kind, cs in att:
        offs = [c[2] for c in cs]
        if offs != sorted(offs):
            probs.append('comments of a %s are not in source order' % kind)
        for (ck, val, lexpos, lineno, colno) in cs:
            if src[lexpos:lexpos + len(val)] != val:
                probs.append('attached comment %r is not the source text at its offset %d' % (val, lexpos))
            if (lineno, colno) != es5_lines.linecol(src, lexpos, starts):
                probs.append('comment %r records %d:%d, ES5 counting gives %r' % (val, lineno, colno, es5_lines.linecol(src, lexpos, starts)))
            positions.append(lexpos)
    if len(positions) != len(set(positions)):
        probs.append('a source comment is attached twice')
    # round trip of the pretty form
    if att and not probs:
        text = unparsers.pretty_print(b[1])
        c = parse(text, True)
        if c[0] == 'error':
            probs.append('pretty form with comments does not parse: %r' % text)
        else:
            if strip_comments(walkers, c[1]) != strip_comments(walkers, b[1]):
                probs.append('ROUNDTRIP-TREE pretty form %r reads as a different tree' % text)
            else:
                x = [(k, [(ck, v) for ck, v, _, _, _ in cs]) for k, cs in att]
                y = [(k, [(ck, v) for ck, v, _, _, _ in cs]) for k, cs in collect(Node, c[1])]
                if x != y:
                    probs.append('ROUNDTRIP-COMMENTS pretty form %r carries %r, the tree carried %r' % (text, y, x))
    return probs, src


def bounded(run, tier, g):
    es5 = importlib.import_module('calmjs.parse.parsers.es5')
    walkers = importlib.import_module('calmjs.parse.walkers')
    unparsers = importlib.import_module('calmjs.parse.unparsers.es5')
    Node = g.asttypes_mod.Node
    mods = (es5, walkers, unparsers, Node)
    corpus = gen.corpus(g, depth2=False)
    step = 3 if tier == 'quick' else 1
    n = 0
    shown = {}
    always = [('for(;;)', [('FOR', 'for'), ('LPAREN', '('), ('SEMI', ';'), ('SEMI', ';'), ('RPAREN', ')'), ('ID', 'x'), ('SEMI', ';')]),
              ('for(a;;)', [('FOR', 'for'), ('LPAREN', '('), ('ID', 'a'), ('SEMI', ';'), ('SEMI', ';'), ('RPAREN', ')'), ('SEMI', ';')]),
              # texts that need (or must not get) an automatic semicolon where the comment goes: the decision may not depend on capture
              ('asi: a = 1 b = 2', [('ID', 'a'), ('EQ', '='), ('NUMBER', '1'), ('ID', 'b'), ('EQ', '='), ('NUMBER', '2')]),
              ('asi: a b', [('ID', 'a'), ('ID', 'b')]),
              ('asi: a ++ b', [('ID', 'a'), ('PLUSPLUS', '++'), ('ID', 'b')]),
              ('asi: { a } b', [('LBRACE', '{'), ('ID', 'a'), ('RBRACE', '}'), ('ID', 'b')]),
              ('asi: return a', [('FUNCTION', 'function'), ('ID', 'f'), ('LPAREN', '('), ('RPAREN', ')'), ('LBRACE', '{'), ('RETURN', 'return'),
                                 ('ID', 'a'), ('RBRACE', '}')]),
              ('asi: do a while (b) c', [('DO', 'do'), ('ID', 'a'), ('SEMI', ';'), ('WHILE', 'while'), ('LPAREN', '('), ('ID', 'b'), ('RPAREN', ')'),
                                         ('ID', 'c')])]
    for label, toks in corpus[::step] + always:
        for i in range(0, len(toks) + 1):
            comment = COMMENTS[(i + len(toks)) % len(COMMENTS)] if tier == 'quick' and not label.startswith('asi') else None
            for cm in ([comment] if comment else COMMENTS):
                n += 1
                probs, src = check_placement(mods, toks, i, cm)
                if not probs:
                    continue
                before = toks[i - 1][0] if i > 0 else 'START'
                after = toks[i][0] if i < len(toks) else 'END'
                for why in probs[:1]:
                    kind = why.split(' ')[0] if why.startswith('ROUNDTRIP') else why[:40]
                    key = (kind, before, after)
                    if key in shown:
                        continue
                    shown[key] = 1
                    run.failed('rt.comments', 'E4/bounded', '%s | between %s and %s | %s' % (kind, before, after, cm.strip()),
                               dict(source=src, problem=why), observed=why,
                               required='capture is transparent, comments verbatim/located/ordered/once, pretty form round-trips', replayed=True)
    # restricted productions: the printed text between the keyword and its operand must hold no line terminator
    import re as _re
    progs = []
    for kw, ctx in (('return', 'function f() { return %s x; }'), ('throw', 'throw %s e;'), ('break', 'l: while (1) { break %s l; }'),
                    ('continue', 'l: while (1) { continue %s l; }'), ('postfix', 'x %s ++;'), ('plain', 'y = %s x;')):
        for cm in ('/*a*/', '/* a\n b */', '/*a*/ /*b*/'):
            progs.append((kw, ctx % cm))
    for kw, src in progs:
        n += 1
        try:
            t = es5.Parser(with_comments=True).parse(src)
        except Exception:
            continue
        text = unparsers.pretty_print(t)
        m = _re.search(r'\b(return|throw|break|continue)\b((?:[ \t]|/\*.*?\*/|//[^\n]*)*)', text, _re.S)
        kinds = dict(Return='return', Throw='throw', Break='break', Continue='continue')
        for node in [x for x in walkers.Walker().walk(t)] + [t]:
            k = type(node).__name__
            if k in kinds and (getattr(node, 'expr', None) is not None or getattr(node, 'identifier', None) is not None):
                if m:
                    rest = text[m.end():]
                    if any(c in m.group(2) for c in '\n\r\u2028\u2029') or rest[:1] in ('\n', '\r'):
                        why = '%s with a comment on its operand prints %r: a line terminator separates the keyword from the operand' % (k, text)
                        run.failed('rt.comments.restricted', 'E4/bounded', '%s | %s' % (k, src), dict(source=src, printed=text, problem=why),
                                   observed=why, required='an emitted comment never splits a restricted production', replayed=True)
    run.bounded_check('rt.comments', 'one program per production x a comment (block, line, multi-line, two blocks) before every token and '
                      'at the end; capture off/on compared; pretty form re-parsed with capture', n)


def main(run, tier):
    g = core.G()
    shapes = core.Shapes(g)
    run.explanation = ('per production: comments reach a node only from the terminal it is anchored on, verbatim, in order, at most once '
                       '(real actions + real Node.set_comments on tagged comment tokens); the capture flag is read only to keep the '
                       'comment token (syntactic frame obligation); every node kind that can carry comments prints them first; '
                       'placement matrix and pretty-form round trip bounded')
    run.floor = 300
    from . import parsefwd
    parsefwd.add(run, tier, positions=True)
    # comments are printed by the Attr rules through the shared walk: their contracts (lists of any length, every kind of value)
    from . import printfwd
    printfwd.add(run, tier)
    from . import attrobl
    import contracts.frames as _fr
    attrobl.frame_obligations(run, _fr.COMMENT_CHANNEL)
    for f in ('calmjs.parse.lexers.es5', 'calmjs.parse.asttypes', 'calmjs.parse.unparsers.es5', 'calmjs.parse.handlers.core',
              'calmjs.parse.ruletypes', 'calmjs.parse.parsers.es5'):
        run.function(f, scratch.sha256_file(scratch.module_path(f))[:16])
    total = 0
    for prod in g.productions:
        runs, probs = check_production(g, shapes, prod)
        total += runs
        name = 'O-comments[%s]' % prod
        bad = False
        seen = set()
        for label, why in probs:
            if (label, why) in seen or len(seen) >= 3:
                continue
            seen.add((label, why))
            if run.failed(name, 'E2/tables', label, dict(production=str(prod), problem=why), observed=why,
                          required='comments come from the anchor token, once, in order', replayed=True) == 'violation':
                bad = True
        if not bad:
            run.discharged(name, 'E2/tables', 'exec', 0.0, detail=('%d runs' % runs) if prod.number % 90 == 0 else None)
    flag_uses(run)
    definitions_obligations(run, g, shapes)
    from ..e1run import verify_functions
    import contracts.comments as cc
    cs, lemmas, env = cc.build(importlib.import_module('calmjs.parse.lexers.es5'))
    verify_functions(run, cs, {}, {}, tier=tier)
    bounded(run, tier, g)
    run.trust('ply tracking contract; transparency to the ASI and regex decisions is inherited from C04/C05 (and their findings)')
    run.assume('the statement allows comments that are not attached at all (comments before a non-anchor token are dropped)')


def replay(data):
    w = data.get('witness') or {}
    print(repr(w.get('source'))[:300], data.get('observed'))
    return 1

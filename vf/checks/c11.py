"""C11 -- every AST node position is self-consistent and lies on its own token (DESIGN 4, C11)."""
import importlib

from ..tables import core
from .. import gen
from spec import es5_lines

LEVEL = 'proof'

# node kinds whose anchor is their infix/postfix operator token (statement of C11 + the forms whose
# first slot is an operand and second slot the operator/punctuator terminal)
OPERATOR_FORMS = 'BinOp Assign Conditional Comma DotAccessor BracketAccessor PostfixExpr Label'.split()

FIRST_TEXT = dict(If='if', For='for', ForIn='for', While='while', DoWhile='do', Continue='continue', Break='break',
                  Return='return', With='with', Switch='switch', Case='case', Default='default', Throw='throw',
                  Try='try', Catch='catch', Finally='finally', Debugger='debugger', FuncDecl='function',
                  FuncExpr='function', VarStatement='var', NewExpr='new', Block='{', Object='{', Array='[',
                  GroupingOp='(', Arguments='(', This='this', Null='null', CaseBlock='{', GetPropAssign='get',
                  SetPropAssign='set', VarDeclNoIn='var')
OP_TEXT = dict(Conditional='?', DotAccessor='.', BracketAccessor='[', Comma=',', Label=':')


def slot_of_triple(run, triple):
    for i, s in enumerate(run.slots):
        if s is not None and s['triple'] == triple:
            return i
    if triple == core.slot_triple(1) and run.slots[1:]:
        return 1
    return None


def check_production(g, shapes, prod, with_comments=False):
    """Returns (n_runs, problems) for the anchor and token-map obligations of one production."""
    problems = {'anchor': [], 'tokmap': [], 'clone': []}
    runs = 0
    for choice in shapes.choices(prod):
        try:
            run = core.run_action(g, prod, choice, with_comments=with_comments, shapes=shapes)
        except core.ActionRaised as e:
            exc = e.exc
            ok = type(exc).__name__ == 'ProductionError'
            if not ok:
                problems['anchor'].append(('%s %s' % (prod, fmt_choice(choice)), 'action raised %r' % (exc,)))
            continue
        runs += 1
        n = len(prod.prod)
        label = '%s %s' % (prod, fmt_choice(choice))
        new = core.new_nodes(g, run.value)
        for node in new:
            kind = core.base_name(node)
            triple = (node.lexpos, node.lineno, node.colno)
            # -- placeholder for an omitted for(;;) clause: previous terminal + 1 (exempt from "own token")
            if kind == 'EmptyStatement' and prod.name == 'iteration_statement':
                cands = [i for i, s in enumerate(run.slots) if s and s['kind'] == 'T' and
                         (s['triple'][0] + 1, s['triple'][1], s['triple'][2] + 1) == triple]
                if not cands or run.slots[cands[0]]['text'] not in ('(', ';'):
                    problems['anchor'].append((label, 'for(;;) placeholder at %r is not "preceding ( or ; plus one"' % (triple,)))
                continue
            if triple[2] != core.colno_of(triple[1], triple[0]):
                problems['anchor'].append((label, '%s position %r is not a consistent (offset, line, column) triple'
                                           % (kind, triple)))
                continue
            i = slot_of_triple(run, triple)
            if i is None:
                nul = [s for s in run.slots[1:] if s['kind'] == 'N' and s.get('shape') == ('none',) and s['triple'] == triple]
                if nul:
                    problems['anchor'].append((label, '%s anchored on an empty (nullable) slot: no token there' % kind))
                else:
                    problems['anchor'].append((label, '%s position %r is not the position of any slot' % (kind, triple)))
                continue
            slot = run.slots[i]
            if node is run.value:
                lo = 1
            else:
                # auxiliary node built by the same action: its extent starts at the slot it wraps
                holes = [t for ts in core.attr_holes(g, node).values() for t in ts if isinstance(t, int)]
                lo = min(holes) if holes else i
                if kind in ('VarStatement', 'VarDeclNoIn'):
                    lo = lo - 1          # `var` keyword slot precedes the declarations
            is_operator_form = (kind in OPERATOR_FORMS and n >= 2 and run.slots[1]['kind'] == 'N'
                                and run.slots[2]['kind'] == 'T')
            if is_operator_form and node is run.value:
                if i != 2:
                    problems['anchor'].append((label, '%s must be anchored on its operator (slot 2), found slot %d' % (kind, i)))
            elif i != lo:
                problems['anchor'].append((label, '%s must be anchored on its first token (slot %d), found slot %d (%s)'
                                           % (kind, lo, i, slot['sym'])))
            elif slot['kind'] == 'N' and slot.get('shape') == ('none',):
                problems['anchor'].append((label, '%s anchored on an empty (nullable) slot: no token there' % kind))
            # -- token map
            tm = getattr(node, '_token_map', {}) or {}
            for text, entries in tm.items():
                if kind == 'Elision':
                    want = ',' * node.value
                    if text != want or entries != [core.slot_triple(1)]:
                        problems['tokmap'].append((label, 'Elision token map %r: expected {%r: [first comma]}' % (dict(tm), want)))
                    continue
                same = [j for j, s in enumerate(run.slots) if s and s['kind'] == 'T' and s['text'] == text]
                k = 0
                for e in entries:
                    if k < len(same) and e == run.slots[same[k]]['triple']:
                        k += 1
                        continue
                    # `additional` entries: a non-terminal slot whose every first token has this text
                    j = slot_of_triple(run, e)
                    sj = run.slots[j] if j is not None else None
                    if sj is not None and sj['kind'] == 'N':
                        firsts = g.first[sj['sym']]
                        if firsts and all(g.token_text.get(t) == text for t in firsts) and sj['sym'] not in g.nullable:
                            continue
                    problems['tokmap'].append((label, '%s records %r at %r which is not (the next) slot holding that text'
                                               % (kind, text, e)))
                if k != len(same) and node is run.value and kind != 'Elision':
                    problems['tokmap'].append((label, '%s records %d of the %d %r tokens of the production'
                                               % (kind, k, len(same), text)))
        if prod.name == 'identifier_name_string':
            h = run.slots[1]['hole']
            v = run.value
            for k in ('_token_map', 'lexpos', 'lineno', 'colno'):
                if getattr(v, k, None) != getattr(h, k, None):
                    problems['clone'].append((label, 'PropIdentifier.%s not copied from the identifier' % k))
    return runs, problems


def fmt_choice(choice):
    return '[' + ','.join('%d:%s' % (k + 1, v[-1]) for k, v in sorted(choice.items())) + ']'


def all_nodes(Node, root):
    out, seen = [], set()

    def visit(v):
        if isinstance(v, list):
            for x in v:
                visit(x)
        elif isinstance(v, Node) and id(v) not in seen:
            seen.add(id(v))
            out.append(v)
            for k, x in vars(v).items():
                if k != '_token_map':
                    visit(x)
    visit(root)
    return out


def check_program(es5, Node, src, with_comments=False):
    """bounded stand-in: positions of a parsed program against the source text. -> list of problems"""
    try:
        tree = es5.Parser(with_comments=with_comments).parse(src)
    except Exception as e:
        if type(e).__name__ in ('ECMASyntaxError', 'ECMARegexSyntaxError'):
            return None
        raise
    starts = es5_lines.line_starts(src)
    probs = []
    for node in all_nodes(Node, tree):
        kind = type(node).__name__
        lexpos, lineno, colno = node.lexpos, node.lineno, node.colno
        if lexpos is None:
            probs.append('%s has no position' % kind)
            continue
        if kind == 'ES5Program' and not tree.children():
            continue                                      # known finding F19 handled by the E2 obligation
        placeholder = kind == 'EmptyStatement' and src[lexpos:lexpos + 1] != ';'
        if (lineno, colno) != es5_lines.linecol(src, lexpos, starts):
            probs.append('%s at offset %d records %d:%d, ES5 counting gives %d:%d' % (
                (kind, lexpos, lineno, colno) + es5_lines.linecol(src, lexpos, starts)))
            continue
        if placeholder:
            continue
        want = None
        if kind in ('BinOp', 'Assign', 'PostfixExpr'):
            want = node.op
        elif kind in OP_TEXT:
            want = OP_TEXT[kind]
        elif kind in FIRST_TEXT:
            want = FIRST_TEXT[kind]
        elif kind in ('Identifier', 'PropIdentifier', 'Number', 'String', 'Regex', 'Boolean', 'LineComment',
                      'BlockComment', 'Debugger'):
            want = node.value
        elif kind == 'UnaryExpr':
            want = node.op
        elif kind == 'Elision':
            want = ','
        if want is not None and not src.startswith(want, lexpos):
            probs.append('%s at %d:%d: source there is %r, expected its token %r' % (
                kind, lineno, colno, src[lexpos:lexpos + 12], want))
        for text, entries in (getattr(node, '_token_map', None) or {}).items():
            for (lp, ln, cn) in entries:
                if text == ';' and not src.startswith(';', lp):
                    continue                              # semicolon supplied by ASI: no source counterpart
                if kind == 'Elision':
                    text = ','                            # comma run: recorded where its first comma occurs
                if (ln, cn) != es5_lines.linecol(src, lp, starts):
                    probs.append('%s token %r at offset %d records %d:%d, ES5 counting gives %d:%d' % (
                        (kind, text, lp, ln, cn) + es5_lines.linecol(src, lp, starts)))
                elif not src.startswith(text, lp):
                    probs.append('%s records token %r at %d:%d but the source there is %r' % (
                        kind, text, ln, cn, src[lp:lp + 12]))
    return probs


SEPS = [' ', '\n', '\r\n', ' /*c*/ ', ' /*a\u2028b\u2029*/ ', '\r', ' /*a\nb*/ ', '  // x\n', '\t', '\n\n   ', ' /*\n\r*/ ', ' /*\r\r\n\n\r*/ ',
        '\n\r']


def main(run, tier):
    from . import parsefwd
    parsefwd.add(run, tier, positions=True)
    # the two position primitives every setpos / token-handler call rests on, for all integers (contracts/positions.py)
    from ..e1run import verify_functions as _vfp
    import contracts.positions as _cpos
    _vfp(run, _cpos.build(importlib.import_module('calmjs.parse.asttypes')), {}, {}, tier=tier)
    # positions are counted with the lexer's line-terminator patterns: their obligations (C06) are imported
    from . import c06 as _c06
    _c06.class_obligations(run, importlib.import_module('calmjs.parse.lexers.es5'))
    es5 = importlib.import_module('calmjs.parse.parsers.es5')
    asttypes = importlib.import_module('calmjs.parse.asttypes')
    g = core.G()
    shapes = core.Shapes(g)
    run.explanation = ('one obligation pair per grammar production, decided by running the real p_* action (and the '
                       'real Node.setpos/findpos/set_comments) on tagged slots for every child shape its contract admits')
    run.floor = 2 * len(g.productions) - 20
    for f in ('calmjs.parse.asttypes', 'calmjs.parse.parsers.es5'):
        from .. import scratch
        run.function(f, scratch.sha256_file(scratch.module_path(f))[:16])
    total_runs = 0
    for prod in g.productions:
        runs = 0
        merged = {'anchor': [], 'tokmap': [], 'clone': []}
        for wc in (False, True):
            r, problems = check_production(g, shapes, prod, with_comments=wc)
            runs += r
            for k in merged:
                merged[k].extend(problems[k])
        total_runs += runs
        for kind in ('anchor', 'tokmap') + (('clone',) if prod.name == 'identifier_name_string' else ()):
            name = 'O-%s[%s]' % (kind, prod)
            probs = merged[kind]
            seen = set()
            bad = False
            for label, why in probs:
                if (label, why) in seen or len(seen) >= 3:
                    continue
                seen.add((label, why))
                if run.failed(name, 'E2/tables', label, dict(production=str(prod), shapes=label, problem=why),
                              observed=why, required='C11 anchor / token-map rule', replayed=True) == 'violation':
                    bad = True
            if not bad:
                run.discharged(name, 'E2/tables', 'exec', 0.0,
                               detail=('%d tagged runs' % runs) if prod.number % 60 == 0 else None)
    run.extra['tagged_action_runs'] = total_runs
    # ---- bounded stand-in: whole pipeline on generated programs x layouts
    corpus = gen.corpus(g, depth2=(tier == 'thorough'))
    progs = [gen.render(t, sep) for _, t in corpus for sep in (SEPS if tier == 'thorough' else SEPS[:5])]
    progs += [p.replace(' ', s) for p in gen.EXTRA_PROGRAMS for s in (' ', '\n', '\r\n', ' /*c*/ ', ' /*a\u2028b*/ ')]
    n = ok = nfail = 0
    for src in progs:
        for wc in (False, True):
            probs = check_program(es5, asttypes.Node, src, wc)
            n += 1
            if probs is None:
                continue
            ok += 1
            for why in probs[:1]:
                nfail += 1
                if nfail > 10:
                    break
                run.failed('rt.positions', 'E4/bounded', src, dict(source=src, with_comments=wc, problem=why),
                           observed=why, required='position = ES5 line/column of its own token', replayed=True)
    run.bounded_check('rt.positions', 'generated minimal program per production (x depth-2 nestings in thorough) x %d '
                      'separator layouts x comment capture on/off; rejected layouts skipped' % (len(SEPS) if tier == 'thorough' else 5),
                      n, ok)
    run.trust('ply.yacc tracking contract: a reduced symbol takes (lineno, lexpos) of its first RHS symbol, or the '
              "lexer's current position for an empty production; p.lexpos(i)/p.lineno(i) read slot i",
              'Lexer.lookup_colno contract (C06): column of an offset on a line',
              'child positions are those of the child\'s first token (induction hypothesis over the derivation)')
    run.assume('actions branch on a child only through its node kind / None / list-ness (shapes are the least fixpoint '
               'of the real actions); one slot varied at a time for productions with > 2 non-terminal slots')


def replay(data):
    es5 = importlib.import_module('calmjs.parse.parsers.es5')
    asttypes = importlib.import_module('calmjs.parse.asttypes')
    w = data.get('witness') or {}
    if 'source' in w:
        probs = check_program(es5, asttypes.Node, w['source'], w.get('with_comments', False))
        print('source: %r\nproblems: %r' % (w['source'], probs))
        return 1 if probs else 0
    g = core.G()
    shapes = core.Shapes(g)
    bad = 0
    for prod in g.productions:
        if str(prod) == w.get('production'):
            for wc in (False, True):
                r, problems = check_production(g, shapes, prod, wc)
                for k, v in problems.items():
                    for label, why in v:
                        print('REPRODUCED', label, why)
                        bad += 1
    return 1 if bad else 0

"""C15 -- parsing is a pure function of the text: no history or thread effects (DESIGN 4, C15)."""
import importlib
import itertools
import json
import os
import subprocess
import sys
import threading

from .. import scratch
from .c14 import frame_obligations

LEVEL = 'other'

POOL = ['var a = 1;', 'a = b / c / d;', '/x/.test(y);', 'f((b', 'a)', 'if (x) /re/.test(y);', 'a = 1; // trailing',
        'b = 1;', 'function f(){ return 1 }\nf()', 'x = [1, 2', '"abc', 'i++\n/x/g', '/* c */ z;', 'var \\u0061;']

REF_SNIPPET = r'''
import sys, json
sys.path.insert(0, %(src)r)
from calmjs.parse.parsers.es5 import parse
from calmjs.parse.walkers import ReprWalker
text, wc = json.loads(sys.argv[1])
try:
    t = parse(text, with_comments=wc)
    out = ['tree', ReprWalker().walk(t, pos=True, omit=())]
except Exception as e:
    out = ['error', type(e).__name__, str(e)]
print(json.dumps(out))
'''


def outcome(es5, walkers, text, wc):
    try:
        t = es5.parse(text, with_comments=wc)
        return ['tree', walkers.ReprWalker().walk(t, pos=True, omit=())]
    except Exception as e:
        return ['error', type(e).__name__, str(e)]


def references(pool):
    """each (text, flag) parsed in its own fresh interpreter"""
    src = scratch.scratch_src()
    code = REF_SNIPPET % dict(src=src)
    procs = []
    for text in pool:
        for wc in (False, True):
            p = subprocess.Popen([sys.executable, '-c', code, json.dumps([text, wc])], stdout=subprocess.PIPE,
                                 stderr=subprocess.PIPE, env=dict(os.environ, PYTHONHASHSEED='0'))
            procs.append(((text, wc), p))
    ref = {}
    for key, p in procs:
        out, err = p.communicate()
        ref[key] = json.loads(out.decode('utf8').strip().split('\n')[-1])
    return ref


def bounded(run, tier):
    es5 = importlib.import_module('calmjs.parse.parsers.es5')
    walkers = importlib.import_module('calmjs.parse.walkers')
    pool = POOL if tier == 'thorough' else POOL[:10]
    es5.Parser()                     # ply writes its table modules into the scratch copy once, before the readers start
    ref = references(pool)
    n = 0
    nfail = [0]

    def fail(case, why):
        nfail[0] += 1
        if nfail[0] <= 10:
            run.failed('rt.parse_histories', 'E4/bounded', case, dict(problem=why), observed=why,
                       required='result depends only on (text, comment flag)', replayed=True)
    calls = [(t, wc) for t in pool for wc in (False, True)]
    L = 2 if tier == 'quick' else 3
    for hist in itertools.product(calls, repeat=L):
        n += 1
        for step, (t, wc) in enumerate(hist):
            got = outcome(es5, walkers, t, wc)
            if step == L - 1 or True:
                if got != ref[(t, wc)]:
                    fail('%r' % (hist[:step + 1],), 'parse(%r, with_comments=%s) after %r differs from a fresh interpreter: %s vs %s'
                         % (t, wc, hist[:step], str(got)[:80], str(ref[(t, wc)])[:80]))
                    break
    # threads (smoke: schedules are not explored)
    errors = []

    def worker(k):
        for rounds in range(3):
            for j, (t, wc) in enumerate(calls):
                if (j + k) % 3 == 0:
                    if outcome(es5, walkers, t, wc) != ref[(t, wc)]:
                        errors.append((t, wc))
    old = sys.getswitchinterval()
    for interval in (1e-6, 1e-4):
        sys.setswitchinterval(interval)
        ths = [threading.Thread(target=worker, args=(k,)) for k in range(8)]
        for th in ths:
            th.start()
        for th in ths:
            th.join()
        n += 1
    sys.setswitchinterval(old)
    if errors:
        fail('threads %r' % (errors[0],), 'parse(%r, with_comments=%s) under concurrent parses differs from a fresh interpreter' % errors[0])
    run.bounded_check('rt.parse_histories', 'all sequences of %d parse calls over %d texts x comment flag, every outcome compared '
                      'with a fresh interpreter; 8 threads x 2 switch intervals (smoke only)' % (L, len(pool)), n)


def main(run, tier):
    import contracts.frames as cf
    run.explanation = ('frame / ownership verification over the real AST of the lexer, parser, asttypes, factory, utils: every '
                       'store has a base owned by the current parse() call, Parser/Lexer are allocated per call, every Lexer '
                       'field is initialised per instance, no module/class-level mutable template, default, cache or global; '
                       'schedules are not explored (no shared mutable state => schedule independence, given the ply contract)')
    run.floor = 30
    for m in cf.C15['modules']:
        try:
            run.function(m, scratch.sha256_file(scratch.module_path(m))[:16])
        except (IOError, OSError):
            pass
    frame_obligations(run, cf.C15, 'C15')
    bounded(run, tier)
    run.trust('ply: lex(object=...) / yacc(module=...) return objects not shared between calls; generated table modules and '
              'master regexes are read-only after import (read off ply 3.11)',
              'CPython: no shared mutable state => no history or schedule dependence')
    run.assume('thread schedules are not explored deductively (this family is silent on concurrency); the thread run is a smoke test',
               'the analysis is syntactic (see C14)')


def replay(data):
    print(data.get('case'), data.get('observed'))
    return 1

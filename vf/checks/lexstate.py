"""Shared E1 obligations on the lexer's look-behind state machine (contracts/asi.py, slash.py, token.py).

C03 ("a text is accepted iff derivable") is decided on the grammar and the parser actions; between the text and the LALR driver
sits the lexer's state machine that supplies automatic semicolons and chooses the reader for `/`.  Its transition contracts are
the obligations of C04 / C05; they are imported here so that a change to that machine is reported under C03 as well."""
import importlib

from ..e1run import verify_functions


def add(run, tier, token=True):
    lexmod = importlib.import_module('calmjs.parse.lexers.es5')
    parmod = importlib.import_module('calmjs.parse.parsers.es5')
    import contracts.asi as ca
    import contracts.slash as cs_
    cs, lemmas, env = ca.build(lexmod)
    reg = dict((c.qualname, c) for c in cs if c.funcname.endswith('_create_semi_token'))
    verify_functions(run, cs, reg, {}, tier=tier)
    cs2, _, _ = cs_.build(lexmod, parmod)
    verify_functions(run, cs2, {}, {}, tier=tier)
    if token:
        import contracts.token as ctok
        verify_functions(run, ctok.build(lexmod), {}, {}, tier=tier)
        # ... about the token get_lexer_token hands it: ply's next token, each exactly once, whatever the comment switches
        import contracts.lexer as clex
        verify_functions(run, clex.token_bookkeeping(lexmod), {}, {}, tier=tier)

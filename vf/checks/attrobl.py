"""O-frame obligations: the store / load sites of named state variables found in the real AST are within
the sidecar table (contracts/frames.py: LEXER_STATE, COMMENT_CHANNEL).  Static; decided for all inputs
under the stated assumption that state is only reached through attribute syntax (reflective access is
itself an obligation)."""
import fnmatch

from .. import scratch, attrframe


def frame_obligations(run, table):
    accs = {}
    for mod in table['modules']:
        path = scratch.module_path(mod)
        accs[mod] = attrframe.analyse(path)
        run.function(mod, scratch.sha256_file(path)[:16])
    for kind in ('writes', 'reads'):
        for attr, allowed in sorted(table.get(kind, {}).items()):
            bad = []
            nsites = 0
            for mod, acc in accs.items():
                short = mod.rsplit('calmjs.parse.', 1)[-1]
                for fp, sites in sorted(getattr(acc, kind).get(attr, {}).items()):
                    for line, guards in sites:
                        nsites += 1
                        ok = False
                        for entry in allowed:
                            fglob, guard = entry if isinstance(entry, tuple) else (entry, None)
                            if fnmatch.fnmatchcase('%s:%s' % (short, fp), fglob) and (guard is None or guard in guards):
                                ok = True
                                break
                        if not ok:
                            bad.append('%s:%s line %d%s' % (short, fp, line, (' under ' + ' and '.join(guards)) if guards else ''))
            name = 'O-frame.%s[%s]' % (kind, attr)
            if bad:
                what = '%s of %r outside its frame: %s' % ('store' if kind == 'writes' else 'read', attr, '; '.join(bad[:4]))
                run.failed(name, 'frame', bad[0], dict(sites=bad, allowed=[str(a) for a in allowed]), observed=what,
                           required=table['why'].get(attr, table['why'].get('*', '')), replayed=False, solver_output=what)
            else:
                run.discharged(name, 'frame', 'ast', 0.0, detail='%d sites' % nsites)
    for mod, acc in accs.items():
        short = mod.rsplit('calmjs.parse.', 1)[-1]
        bad = ['%s:%s line %d %s' % (short, fp, line, what) for fp, line, what in acc.reflective
               if not any(fnmatch.fnmatchcase('%s:%s' % (short, fp), g) for g in table.get('reflective_ok', ()))]
        name = 'O-frame.reflective[%s]' % short
        if bad:
            run.failed(name, 'frame', bad[0], dict(sites=bad), observed='reflective attribute access: ' + '; '.join(bad[:4]),
                       required='state variables are reached through attribute syntax only (otherwise the frame table proves nothing)',
                       replayed=False, solver_output='; '.join(bad))
        else:
            run.discharged(name, 'frame', 'ast', 0.0)

"""C19 -- literal data in a program is extracted as the equal Python value (DESIGN 4, C19)."""
import importlib
import itertools
import json
import random
import warnings

from .. import scratch

LEVEL = 'other'


def forms(name, text):
    """(label, program, path to the binding in the resulting dict)"""
    yield 'var', 'var %s = %s;' % (name, text), lambda d: d
    yield 'assignment', '%s = %s;' % (name, text), lambda d: d
    yield 'var in function', 'function f() { var %s = %s; }' % (name, text), lambda d: d['f'][1]
    yield 'assignment in function', 'g = function () { %s = %s; };' % (name, text), lambda d: d['g'][1]
    yield 'among others', 'var p = 1; var %s = %s; q = 2;' % (name, text), lambda d: dict((k, v) for k, v in d.items() if k not in 'pq')


def same(a, b):
    """equality of JSON values as Python values, distinguishing 1 from 1.0 from True and -0.0 from 0.0"""
    if type(a) != type(b):
        return False
    if isinstance(a, dict):
        return list(sorted(a)) == list(sorted(b)) and all(same(a[k], b[k]) for k in a)
    if isinstance(a, list):
        return len(a) == len(b) and all(same(x, y) for x, y in zip(a, b))
    if isinstance(a, float):
        return repr(a) == repr(b)
    return a == b


def check_value(mods, text, folds=(False, True), only=None):
    es5, extractor = mods
    want = json.loads(text)
    probs = []
    for label, prog, path in forms('x', text):
        if only and label not in only:
            continue
        for fold in folds:
            try:
                with warnings.catch_warnings():
                    warnings.simplefilter('ignore')
                    d = extractor.ast_to_dict(es5.Parser().parse(prog), fold_ops=fold)
                got = path(d)
            except Exception as e:
                probs.append('%s fold_ops=%s: %r raised %s: %s' % (label, fold, prog, type(e).__name__, str(e)[:60]))
                continue
            if not isinstance(got, dict) or list(got) != ['x']:
                probs.append('%s fold_ops=%s: %r yields keys %r (exactly the bound name expected)' % (label, fold, prog, list(got) if isinstance(got, dict) else got))
            elif not same(got['x'], want):
                probs.append('%s fold_ops=%s: %r yields %r, a JSON parser gives %r' % (label, fold, prog, got['x'], want))
    return probs


def json_values(tier, seed):
    """JSON texts: scalars of every class, then nested structures (exhaustive small shapes + random deeper ones)"""
    scalars = ['0', '1', '-1', '12', '-0', '1.5', '-2.25', '0.1', '1e3', '1E3', '1e+3', '1e-3', '-1.5e-2', '0.0', '10.50', '123456789012345678901234567890',
               'true', 'false', 'null', '""', '"a"', '"a b"', '"\\""', '"\\\\"', '"\\n\\t\\r\\b\\f"', '"\\u0041"', '"\\u00e9"', '"é"', '"\'"', '"\'quoted\'"',
               '"\\u2028"', '"a\\\\nb"', '"//"', '"/*c*/"', '"</script>"', '" "', '"0"', '"null"', '"-"']
    for s in scalars:
        yield s
    keys = ['"a"', '"b"', '""', '"a b"', '"1"', '"if"', '"\\u0041"', '"\'"']
    small = ['1', '-2.5', '"s"', 'true', 'null', '[]', '{}']
    for a in small:
        yield '[%s]' % a
        yield '{"k": %s}' % a
        for b in small:
            yield '[%s, %s]' % (a, b)
            yield '{"a": %s, "b": %s}' % (a, b)
            yield '{"a": %s, "a": %s}' % (a, b)              # repeated key: the later one wins
    for k in keys:
        yield '{%s: 1}' % k
        yield '{%s: {%s: [null]}}' % (k, k)
    # keys that are words of the language or of an object's own vocabulary: a key is just a string
    from spec import es5_lexical as _lx
    for w in sorted(set(_lx.RESERVED_WORDS) | {'value', 'key', 'length', '__proto__', 'constructor', 'toString', 'NaN', 'undefined', 'Infinity', 'get', 'set',
                                               'arguments', 'eval', 'prototype', 'hasOwnProperty'}):
        yield '{"%s": 0, "status": "ok"}' % w
        yield '{"a": 1, "%s": [2, {"%s": null}], "z": 3}' % (w, w)
    yield '[[[[1]]]]'
    # "nested arbitrarily": beyond what the recursive rule walk can do within the interpreter's default recursion limit (finding F31)
    yield '{"deep": ' * 200 + '1' + '}' * 200
    yield '[' * 200 + '1' + ']' * 200
    yield '{"a": {"b": {"c": {"d": [1, {"e": null}]}}}}'
    yield '[{"a": [1, 2, {"b": [true, false, null]}], "c": -0.5}, [], {}, [[]], [{}]]'
    rnd = random.Random(seed)

    def rv(depth):
        r = rnd.random()
        if depth <= 0 or r < 0.4:
            return rnd.choice(scalars)
        if r < 0.7:
            return '[' + ', '.join(rv(depth - 1) for _ in range(rnd.randint(0, 3))) + ']'
        return '{' + ', '.join('%s: %s' % (rnd.choice(keys), rv(depth - 1)) for _ in range(rnd.randint(0, 3))) + '}'
    for _ in range(150 if tier == 'quick' else 2000):
        yield rv(3)


def literal_tables(run, mods, tier):
    """exhaustive token-level tables: every \\uXXXX escape, every raw character, every two-character escape, number shapes"""
    es5, extractor = mods
    par = es5.Parser

    def extract(text):
        with warnings.catch_warnings():
            warnings.simplefilter('ignore')
            return extractor.ast_to_dict(par().parse('x = %s;' % text))['x']
    n = 0
    bad = {}
    # every \uXXXX (also in groups of 16 per literal to keep the number of parses low)
    for base in range(0, 0x10000, 16):
        cps = range(base, base + 16)
        text = '"' + ''.join('\\u%04x' % c for c in cps) + '"'
        n += 16
        try:
            got, want = extract(text), json.loads(text)
        except Exception as e:
            bad.setdefault('unicode-escape', []).append((text, repr(e)))
            continue
        if got != want:
            for c in cps:
                t1 = '"\\u%04x"' % c
                try:
                    if extract(t1) != json.loads(t1):
                        bad.setdefault('unicode-escape lone surrogate' if 0xd800 <= c < 0xe000 else 'unicode-escape', []).append((t1, repr(extract(t1))))
                except Exception as e:
                    bad.setdefault('unicode-escape', []).append((t1, repr(e)))
            if all(extract('"\\u%04x"' % c) == json.loads('"\\u%04x"' % c) for c in cps):
                bad.setdefault('surrogate pair', []).append((text[:30], 'differs only in combination'))
    # surrogate pairs
    for hi in (0xd800, 0xd83d, 0xdbff):
        for lo in (0xdc00, 0xde00, 0xdfff):
            t1 = '"\\u%04x\\u%04x"' % (hi, lo)
            n += 1
            if extract(t1) != json.loads(t1):
                bad.setdefault('surrogate pair', []).append((t1, repr(extract(t1))))
    # every raw character admissible in both JSON and ES5 string literals
    chunk = []
    for cp in list(range(0x20, 0x3000)) + list(range(0x3000, 0x110000, 97 if tier == 'quick' else 7)):
        ch = chr(cp)
        if ch in '"\\' or cp in (0x2028, 0x2029) or 0xd800 <= cp < 0xe000:
            continue
        chunk.append(ch)
        if len(chunk) == 64:
            text = '"' + ''.join(chunk) + '"'
            n += 64
            try:
                if extract(text) != json.loads(text):
                    bad.setdefault('raw character', []).append((repr(text)[:40], ''))
            except Exception as e:
                bad.setdefault('raw character', []).append((repr(text)[:40], repr(e)))
            chunk = []
    # two-character escapes of JSON
    for esc in '"\\/bfnrt':
        t1 = '"\\%s"' % esc
        n += 1
        try:
            if extract(t1) != json.loads(t1):
                bad.setdefault('escape \\%s' % esc, []).append((t1, repr(extract(t1))))
        except Exception as e:
            bad.setdefault('escape \\%s' % esc, []).append((t1, repr(e)))
    # what follows an escape must not change its reading: each JSON escape followed by every printable ASCII character, and the same
    # tables (raw characters, escapes, followers) with fold_ops on -- operator folding may not touch a literal that stands alone
    def extract_fold(text):
        with warnings.catch_warnings():
            warnings.simplefilter('ignore')
            return extractor.ast_to_dict(par().parse('x = %s;' % text), fold_ops=True)['x']
    followers = [chr(c) for c in range(0x20, 0x7f) if chr(c) not in '"\\']
    for esc in '"\\/bfnrt':
        for f in followers:
            t1 = '"\\%s%s"' % (esc, f)
            for label, fn in (('', extract), (' (fold_ops)', extract_fold)):
                n += 1
                try:
                    if fn(t1) != json.loads(t1):
                        bad.setdefault('escape \\%s + following character%s' % (esc, label), []).append((t1, repr(fn(t1))))
                except Exception as e:
                    bad.setdefault('escape \\%s + following character%s' % (esc, label), []).append((t1, repr(e)))
    for text in ['"' + ''.join(followers) + '"', '"{id}"', '"{{}}"', '"%s %d {0}"', '"a{b}c"']:
        for wrap in ('%s', '{%s: %s}' % (text, text), '[%s]' % text):
            t1 = wrap % text if wrap == '%s' else wrap
            n += 1
            try:
                if extract_fold(t1) != json.loads(t1):
                    bad.setdefault('string with format characters (fold_ops)', []).append((t1[:60], repr(extract_fold(t1))[:80]))
            except Exception as e:
                bad.setdefault('string with format characters (fold_ops)', []).append((t1[:60], repr(e)))
    # number shapes: -? int frac? exp?
    ints = ['0', '1', '9', '10', '19', '123', '9007199254740993', '1' + '0' * 30]
    fracs = ['', '.0', '.5', '.25', '.000', '.123456789012345678']
    exps = ['', 'e0', 'E1', 'e+2', 'e-3', 'E+10', 'e-10', 'e308', 'e-320']
    for sign, i, f, e in itertools.product(('', '-'), ints, fracs, exps):
        t1 = sign + i + f + e
        n += 1
        try:
            got, want = extract(t1), json.loads(t1)
            if not same(got, want):
                bad.setdefault('number', []).append((t1, repr(got)))
        except Exception as ex:
            bad.setdefault('number', []).append((t1, repr(ex)))
    for kind, items in sorted(bad.items()):
        t1, got = items[0]
        why = '%s: %s extracts as %s, a JSON parser gives %r (%d such literals)' % (kind, t1, got, _safe_json(t1), len(items))
        run.failed('table.literals', 'E4/exhaustive-table', kind, dict(literal=t1, kind=kind, count=len(items), problem=why), observed=why,
                   required='literal_eval of the token text = the JSON value', replayed=True)
    if not bad:
        pass
    run.bounded_check('table.literals', 'all 65536 \\uXXXX escapes, 9 surrogate pairs, every raw character below U+3000 and a stride above, '
                      'all 8 JSON escapes, %d number spellings' % (2 * len(ints) * len(fracs) * len(exps)), n)


def _safe_json(t):
    try:
        return json.loads(t)
    except Exception:
        return '?'


def main(run, tier):
    es5 = importlib.import_module('calmjs.parse.parsers.es5')
    extractor = importlib.import_module('calmjs.parse.unparsers.extractor')
    mods = (es5, extractor)
    run.explanation = ('bounded stand-in with json.loads as the oracle: JSON values of every scalar class and nesting shape bound by var / '
                       'assignment / inside a function, with fold_ops off and on, must extract to exactly {name: value}; exhaustive '
                       'token-level tables for string escapes, raw characters and number spellings')
    for f in ('calmjs.parse.unparsers.extractor',):
        run.function(f, scratch.sha256_file(scratch.module_path(f))[:16])
    n = 0
    shown = {}
    for text in json_values(tier, run.seed):
        n += 1
        for why in check_value(mods, text):
            key = why.split(':')[0]
            kind = 'string' if text.startswith('"') else 'structure' if text[:1] in '[{' else 'scalar'
            case = '%s | %s' % (kind, text if len(text) < 60 else text[:57] + '...')
            if case in shown:
                continue
            shown[case] = 1
            if len(shown) > 12:
                break
            run.failed('rt.extract', 'E4/bounded', case, dict(literal=text, problem=why), observed=why,
                       required='{name: json.loads(literal)} and nothing else', replayed=True)
    run.bounded_check('rt.extract', 'JSON scalars of every class, all 1-2 element arrays/objects over 7 element values (incl. repeated keys), '
                      '8 key spellings, deep nestings, random values of depth <= 3 (seeded) x 5 binding forms x fold_ops off/on', n)
    literal_tables(run, mods, tier)
    from . import extractobl
    extractobl.add(run, tier)
    # E1: what each value-building rule hands to the dispatcher (contracts/extractor.py) -- LiteralEval evaluates exactly the text of
    # each chunk, GroupAsList keeps every value (also the falsy ones) in order, unary minus / plus of a Number operand, RawBoolean,
    # Raw, the token handler's fragment; finite scenarios (chunk / item lists of length 0..3), symbolic texts and numbers
    from ..e1run import verify_functions
    import contracts.extractor as cx
    verify_functions(run, cx.build(extractor, importlib.import_module('calmjs.parse.asttypes')), {}, {}, tier=tier)
    run.floor = 100
    run.trust('json.loads as the oracle for "the Python value a JSON parser gives"')
    run.assume('GroupAsMap / GroupAsAssignment / AttrListAssignment / TopLevelAttrs have no E1 contract (dict.update over a custom '
               'sequence class is outside the generator): they are decided per node kind by O-extract on stub children; '
               'compositionality of ast.literal_eval / JSON decoding over the escape segmentation is assumed, the per-token tables are exhaustive')


def replay(data):
    es5 = importlib.import_module('calmjs.parse.parsers.es5')
    extractor = importlib.import_module('calmjs.parse.unparsers.extractor')
    w = data.get('witness') or {}
    if 'literal' in w and 'kind' not in w:
        r = check_value((es5, extractor), w['literal'])
        print(w['literal'], r)
        return 1 if r else 0
    print(data.get('observed'))
    return 1

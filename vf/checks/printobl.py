"""O-print obligations shared by C01 / C02 (DESIGN 4, C02): for every grammar production, the node the real
action builds prints -- through the real definitions and handlers -- exactly the production's own terminals and
its children, in order, up to the licensed normalisations (automatic semicolon written out; semicolon
dropping of a statement terminator at the very end; trailing comma of an object literal)."""
from ..tables import core, printing

SKIP_LHS = {'array_literal', 'element_list', 'elision', 'elision_opt'}    # comma runs of elisions: bounded only
STATEMENT_TERMINATED = {'variable_statement', 'expr_statement', 'iteration_statement', 'continue_statement', 'break_statement',
                        'return_statement', 'throw_statement', 'debugger_statement', 'empty_statement'}


def list_separator(g, sym):
    """separator terminal text of a list-valued non-terminal (from its left-recursive production), or None"""
    seen = set()
    todo = [sym]
    while todo:
        s = todo.pop()
        if s in seen:
            continue
        seen.add(s)
        for p in g.productions:
            if p.name != s:
                continue
            if len(p.prod) == 3 and p.prod[0] == s and p.prod[1] in g.terminals:
                return g.token_text.get(p.prod[1])
            if len(p.prod) == 2 and p.prod[0] == s:
                return None
            if len(p.prod) == 1 and p.prod[0] in g.nonterminals:
                todo.append(p.prod[0])
    return None


_wrappers = {}


def wrapper_terminals(g, shapes, sym):
    """a non-terminal with the single production  N -> t.. X t..  whose action passes X's value through consumes
    the terminals itself but builds no node: the parent prints them (e.g. initializer -> EQ assignment_expr)"""
    if sym in _wrappers:
        return _wrappers[sym]
    res = ([], [])
    ps = [p for p in g.productions if p.name == sym]
    if len(ps) == 1 and sum(1 for x in ps[0].prod if x in g.nonterminals) == 1 and any(x in g.terminals for x in ps[0].prod):
        p = ps[0]
        k = [i for i, x in enumerate(p.prod) if x in g.nonterminals][0]
        try:
            r = core.run_action(g, p, next(iter(shapes.choices(p))), shapes=shapes)
            if r.value is r.slots[k + 1]['hole']:
                res = ([g.token_text.get(t, t) for t in p.prod[:k]], [g.token_text.get(t, t) for t in p.prod[k + 1:]])
        except (core.ActionRaised, StopIteration):
            pass
    _wrappers[sym] = res
    return res


def expected_items(g, run, shapes=None):
    out = []
    for i, slot in enumerate(run.slots[1:], 1):
        if slot['kind'] == 'T':
            out.append(('T', slot['text']))
            continue
        h = slot['hole']
        if h is None:
            continue
        if shapes is not None and not isinstance(h, list):
            pre, post = wrapper_terminals(g, shapes, slot['sym'])
            out.extend(('T', t) for t in pre)
            out.append(('H', i))
            out.extend(('T', t) for t in post)
            continue
        if isinstance(h, list):
            sep = list_separator(g, slot['sym'])
            for k, x in enumerate(h):
                if k and sep:
                    out.append(('T', sep))
                out.append(('H', i))
        else:
            out.append(('H', i))
    return out


def printed_items(frags, run):
    out = []
    hole_values = {}
    for slot in run.slots[1:]:
        h = slot.get('hole')
        for x in (h if isinstance(h, list) else [h]):
            if x is not None and hasattr(x, '_hole_slot'):
                hole_values[str(getattr(x, 'value', None))] = x._hole_slot
    for fr in frags:
        text = fr.text
        if printing.HOLE_OPEN in text:
            out.append(('H', printing.hole_slot(text[text.index(printing.HOLE_OPEN):])[0]))
        elif text.strip():
            t = text.strip()
            if t in hole_values:
                out.append(('H', hole_values[t]))       # a node cloned from a child (identifier_name_string)
            else:
                out.append(('T', t))
    return out


def check_production(g, shapes, pr, prod, configs, commented=False):
    probs = {}
    runs = 0
    cfgs = dict(pr.configs())
    for choice in shapes.choices(prod):
        lens = (None,)
        if any(sh[0] == 'list' for sh in choice.values()):
            lens = (1, 2, 3)
        for ll in lens:
            try:
                if commented:
                    # every terminal of the production carries captured comments: a printer without comment handlers prints none
                    hidden = dict((i, _comment_tokens(i)) for i, s_ in enumerate(prod.prod, 1) if s_ in g.terminals)
                    run = core.run_action(g, prod, choice, shapes=shapes, list_len=ll, with_comments=True, hidden=hidden)
                else:
                    run = core.run_action(g, prod, choice, shapes=shapes, list_len=ll)
            except core.ActionRaised:
                continue
            v = run.value
            if not isinstance(v, g.asttypes_mod.Node) or getattr(type(v), '__hole__', False):
                continue
            want = expected_items(g, run, shapes)
            label = '%s [%s]%s' % (prod, ','.join('%d:%s' % (k + 1, sh[-1]) for k, sh in sorted(choice.items())),
                                   '' if ll is None else ' len=%d' % ll)
            for cname in configs:
                try:
                    got = printed_items(pr.print_node(v, cfgs[cname]()), run)
                except Exception as e:
                    probs.setdefault(cname, []).append((label, 'printing raised %r' % (e,)))
                    continue
                runs += 1
                exp = list(want)
                if got != exp:
                    # licensed normalisations
                    alt = list(exp)
                    if prod.name == 'object_literal' and len(alt) >= 2 and alt[-2] == ('T', ',') and alt[-1] == ('T', '}'):
                        alt = alt[:-2] + [alt[-1]]                                   # trailing comma of an object literal
                    if got != alt and 'drop_semi' in cname and prod.name in STATEMENT_TERMINATED and alt and alt[-1] == ('T', ';'):
                        alt2 = alt[:-1]                                               # terminator of the last statement
                        if got == alt2:
                            continue
                    if got == alt:
                        continue
                    probs.setdefault(cname, []).append((label, 'prints %s, the production is %s' % (
                        ' '.join(x if k == 'T' else '<%d>' % x for k, x in got), ' '.join(x if k == 'T' else '<%d>' % x for k, x in exp))))
    return runs, probs


def _comment_tokens(i):
    import ply.lex
    out = []
    for k, (ty, text) in enumerate((('BLOCK_COMMENT', '/*c%d*/' % i), ('LINE_COMMENT', '// l%d' % i))):
        t = ply.lex.LexToken()
        t.type, t.value, t.lineno, t.lexpos, t.colno = ty, text, 1, 1000 * i + k, 1
        out.append(t)
    return out


def print_obligations(run, g, configs, commented=False):
    shapes = core.Shapes(g)
    pr = printing.Printing(g)
    total = 0
    for prod in g.productions:
        if prod.name in SKIP_LHS:
            continue
        runs, probs = check_production(g, shapes, pr, prod, configs, commented=commented)
        total += runs
        if not runs:
            continue
        for cname in configs:
            name = 'O-print[%s | %s%s]' % (prod, cname, ' | nodes carrying comments' if commented else '')
            bad = False
            seen = set()
            for label, why in probs.get(cname, []):
                if (label, why) in seen or len(seen) >= 3:
                    continue
                seen.add((label, why))
                if run.failed(name, 'E2/tables', label, dict(production=str(prod), config=cname, problem=why), observed=why,
                              required='the printed tokens and children are exactly those of the production, in order', replayed=True) == 'violation':
                    bad = True
            if not bad:
                run.discharged(name, 'E2/tables', 'exec', 0.0, detail=('%d printed runs' % runs) if prod.number % 100 == 0 else None)
    run.extra['print_runs'] = total
    run.trust('children print their own tokens in order (induction hypothesis of O-print)')
    run.assume('array literals with elisions (comma runs) are outside the per-production print obligations: bounded only')

"""C18 -- stream read/write helpers: same output, valid map link, no leaked streams (DESIGN 4, C18)."""
import base64
import importlib
import io as pyio
import json
import os
import posixpath

from .. import scratch
from ..e1run import verify_functions

LEVEL = 'proof'


class Boom(Exception):
    pass


class Tick(object):
    """fault injector: the k-th external call raises"""

    def __init__(self, k):
        self.k, self.n = k, 0

    def hit(self):
        self.n += 1
        if self.n == self.k:
            raise Boom('fault at external call %d' % self.k)


class S(pyio.StringIO):
    """instrumented stream double"""

    def __init__(self, tick, name=None, text='', origin='passed-in', log=None):
        pyio.StringIO.__init__(self, text)
        self.tick, self.closes, self.origin = tick, 0, origin
        self.final = None
        if name is not None:
            self.name = name
        if log is not None:
            log.append(self)

    def read(self, *a):
        self.tick.hit()
        return pyio.StringIO.read(self, *a)

    def write(self, s):
        self.tick.hit()
        return pyio.StringIO.write(self, s)

    def writelines(self, lines):
        self.tick.hit()
        return pyio.StringIO.writelines(self, lines)

    def close(self):
        self.closes += 1
        if self.final is None:
            self.final = self.getvalue()
        # keep the buffer readable for the check: do not really close


def closed_right(log):
    return all((s.closes == 1) if s.origin == 'factory' else (s.closes == 0) for s in log)


def arrangements(tick, log, outname, mapname):
    """list of (label, constructor -> (output_stream, sourcemap_stream)); only the chosen one creates streams"""
    def fac(name):
        def f():
            tick.hit()
            return S(tick, name, origin='factory', log=log)
        return f

    def same_factory():
        f = fac(outname)
        return f, f

    def same_open():
        o = S(tick, outname, log=log)
        return o, o
    return [
        ('factory/none', lambda: (fac(outname), None)),
        ('open/none', lambda: (S(tick, outname, log=log), None)),
        ('factory/same', same_factory),
        ('open/same', same_open),
        ('factory/factory', lambda: (fac(outname), fac(mapname))),
        ('factory/open', lambda: (fac(outname), S(tick, mapname, log=log))),
        ('open/factory', lambda: (S(tick, outname, log=log), fac(mapname))),
        ('open/open', lambda: (S(tick, outname, log=log), S(tick, mapname, log=log))),
    ]


PROGRAMS = ['var a = 1;', 'function f(x) { return x + 1; }\nf(2);', 'x = "s" + /r/.test(y) ? [1, 2] : {a: b};', '', '// only a comment\n']
NAMES = [('/tmp/w/out.js', '/tmp/w/out.js.map'), ('/tmp/w/build/out.js', '/tmp/w/maps/out.js.map'), ('out.js', 'out.js.map'),
         ('/b/out/p.min.js', '/b/out.maps/p.min.js.map'), ('/b/lib-min/p.js', '/b/lib-min-maps/p.js.map'), ('/a/o.js', 'rel/o.map'),
         ('/x/y/z/o.js', '/x/o.map')]


def bounded(run, mods, tier):
    cio, es5, unparsers, sourcemap = mods
    n = 0
    fails = []
    older = []        # (stream, times closed) of the previous call

    def fail(case, why, **kw):
        if len(fails) < 10:
            fails.append(case)
            run.failed('rt.io', 'E4/bounded', case, dict(problem=why, **kw), observed=why,
                       required='same output, valid map link, factory streams closed exactly once', replayed=True)
    printers = [('pretty', lambda: unparsers.pretty_printer()), ('minify', lambda: unparsers.minify_printer(obfuscate=True))]
    for src in PROGRAMS:
        for pname, mkp in printers:
            for outname, mapname in (NAMES if tier == 'thorough' else NAMES[:5]):
                # reference: the lower-level API
                tree = es5.Parser().parse(src)
                tree.sourcepath = '/tmp/w/src/in.js'
                ref_out = pyio.StringIO()
                ref_map, ref_sources, ref_names = sourcemap.write(mkp()(tree), ref_out)
                k = 0
                while True:
                    k += 1
                    tick = Tick(k if k > 1 else 10 ** 9)       # k == 1: no fault
                    reached = False
                    for idx in range(8):
                        log = []
                        tick.n = 0
                        label, mk = arrangements(tick, log, outname, mapname)[idx]
                        out_s, map_s = mk()
                        case = '%s | %s | %s | %s,%s | fault@%s' % (src, pname, label, outname, mapname, k if k > 1 else '-')
                        n += 1
                        try:
                            cio.write(mkp(), tree, out_s, map_s)
                            raised = None
                        except Boom as e:
                            raised = e
                        except Exception as e:
                            fail(case, 'unexpected %r' % (e,))
                            continue
                        if not closed_right(log):
                            fail(case, 'streams closed: %r' % [(s.origin, s.closes) for s in log])
                        # ... and the streams of earlier calls are left alone (a call owns only what it opened itself)
                        again = [(s.origin, getattr(s, 'name', None), c, s.closes) for s, c in older if s.closes != c]
                        if again:
                            fail(case + ' | after earlier calls', 'a stream of an earlier call was closed again: %r' % again[:3])
                        del older[:]
                        older.extend((s, s.closes) for s in log)
                        if tick.n >= tick.k:
                            reached = True
                        if raised is not None:
                            continue
                        if tick.n >= tick.k:
                            fail(case, 'a failure of external call %d did not propagate' % tick.k)
                        if k > 1:
                            continue
                        outs = [s for s in log if getattr(s, 'name', None) == outname]
                        text = outs[0].final if outs[0].final is not None else outs[0].getvalue()
                        body = ref_out.getvalue()
                        if not text.startswith(body):
                            fail(case, 'output does not start with the printer text')
                            continue
                        tail = text[len(body):]
                        if map_s is None:
                            if tail:
                                fail(case, 'unexpected trailer %r' % tail)
                            continue
                        same = label.endswith('/same')
                        if same:
                            pre = '\n//# sourceMappingURL=data:application/json;base64;charset=utf8,'
                            if not tail.startswith(pre):
                                fail(case, 'inline link malformed: %r' % tail[:60])
                                continue
                            doc = json.loads(base64.b64decode(tail[len(pre):]).decode('utf8'))
                        else:
                            maps = [s for s in log if getattr(s, 'name', None) == mapname]
                            mtext = maps[0].final if maps[0].final is not None else maps[0].getvalue()
                            doc = json.loads(mtext)
                            if not (tail.startswith('\n//# sourceMappingURL=') and tail.endswith('\n')):
                                fail(case, 'link line malformed: %r' % tail)
                                continue
                            url = tail[len('\n//# sourceMappingURL='):-1]
                            if os.path.isabs(outname) and os.path.isabs(mapname):
                                got = posixpath.normpath(posixpath.join(posixpath.dirname(outname), url))
                                if got != mapname:
                                    fail(case, 'sourceMappingURL %r resolves to %r, the map is %r' % (url, got, mapname))
                            elif url != mapname:
                                fail(case, 'sourceMappingURL %r is not the map name %r' % (url, mapname))
                        lower = sourcemap.encode_sourcemap('x', ref_map, ref_sources, ref_names)
                        if doc.get('mappings') != lower['mappings'] or doc.get('names') != lower['names'] or doc.get('version') != 3:
                            fail(case, 'source map differs from the lower-level API result')
                        mp = outname if same else mapname
                        if os.path.isabs(mp) and len(doc.get('sources', [])) == 1 and list(ref_sources) != [sourcemap.INVALID_SOURCE]:
                            got = posixpath.normpath(posixpath.join(posixpath.dirname(mp), doc['sources'][0]))
                            if got != '/tmp/w/src/in.js':     # (a stream without positioned fragments names no source: 'about:invalid')
                                fail(case, 'sources entry %r resolves to %r' % (doc['sources'][0], got))
                    if (k > 1 and not reached) or k > 60:
                        break
    # io.read: faults and re-labelling
    exc_mod = importlib.import_module('calmjs.parse.exceptions')
    for text in ('var a = 1;', 'var = ;', ''):
        for kind in ('factory', 'open'):
            for k in range(1, 6):
                tick = Tick(k if k > 1 else 10 ** 9)
                log = []
                if kind == 'factory':
                    def stream():
                        tick.hit()
                        return S(tick, 'in.js', text, origin='factory', log=log)
                else:
                    stream = S(tick, 'in.js', text, log=log)
                n += 1
                case = 'read %r %s fault@%s' % (text, kind, k if k > 1 else '-')
                try:
                    r = cio.read(es5.parse, stream)
                    if getattr(r, 'sourcepath', None) != 'in.js':
                        fail(case, 'sourcepath is %r' % (getattr(r, 'sourcepath', None),))
                except Boom:
                    pass
                except exc_mod.ECMASyntaxError as e:
                    if "in 'in.js'" not in str(e) and 'in.js' not in str(e):
                        fail(case, 'syntax error not labelled with the stream name: %s' % e)
                except Exception as e:
                    fail(case, 'unexpected %r' % (e,))
                if not closed_right(log):
                    fail(case, 'streams closed: %r' % [(s.origin, s.closes) for s in log])
    # several programs given as a list, a tuple, an iterator or a generator: the same text and the same map
    for pname, mkp in printers:
        srcs = ['var a = 1;', 'function f(b) { return b; }', 'c = a + 2;']
        def trees():
            out_ = []
            for i, s_ in enumerate(srcs):
                t_ = es5.Parser().parse(s_)
                t_.sourcepath = '/tmp/w/src/in%d.js' % i
                out_.append(t_)
            return out_
        def run_write(nodes):
            o, m = pyio.StringIO(), pyio.StringIO()
            o.name, m.name = '/tmp/w/out.js', '/tmp/w/out.js.map'
            cio.write(mkp(), nodes, o, m)
            return o.getvalue(), m.getvalue()
        for k in (1, 2, 3):
            want = run_write(trees()[:k])
            for label, mk in (('tuple', lambda ts: tuple(ts)), ('iterator', lambda ts: iter(ts)), ('generator', lambda ts: (t for t in ts)),
                              ('generator with other objects', lambda ts: (x for t in ts for x in (None, t)))):
                n += 1
                try:
                    got = run_write(mk(trees()[:k]))
                except Exception as e:
                    got = 'raised %r' % (e,)
                if got != want:
                    fail('nodes as %s | %s | %d programs' % (label, pname, k), 'write() of %d programs given as a %s differs from the same programs given as a list: %r' % (
                        k, label, (got[0][:80] if isinstance(got, tuple) else got)), nodes=label)
    # the read helper re-labels a syntax error: same class as the parser raises on the same text, message extended by the stream name
    for bad in ('var = 1;', 'a b', 'var r = /abc', 'x = /[/;', 'var s = "abc', 'a = 1 @'):
        try:
            es5.parse(bad)
            continue
        except Exception as e0:
            want, msg0 = type(e0), str(e0)
        class Named(pyio.StringIO):
            name = 'in.js'
        n += 1
        try:
            cio.read(es5.parse, Named(bad))
            fail('read | %r' % bad, 'io.read accepts %r, which the parser rejects' % bad, source=bad)
        except Exception as e1:
            if type(e1) is not want or 'in.js' not in str(e1) or msg0 not in str(e1):
                fail('read | %r' % bad, 'the parser raises %s(%r); io.read raises %s(%r)' % (want.__name__, msg0, type(e1).__name__, str(e1)), source=bad)
    run.bounded_check('rt.io', '%d programs (two of them empty) x 2 printers' % len(PROGRAMS) + ' x %d name pairs x 8 stream arrangements x a fault at every external call '
                      '(stream factory, read, write, writelines); io.read x {valid, invalid, empty} x faults'
                      % (len(NAMES) if tier == 'thorough' else 5), n)


def main(run, tier):
    cio = importlib.import_module('calmjs.parse.io')
    es5 = importlib.import_module('calmjs.parse.parsers.es5')
    unparsers = importlib.import_module('calmjs.parse.unparsers.es5')
    sourcemap = importlib.import_module('calmjs.parse.sourcemap')
    run.explanation = ('io.read and io.write verified path by path from the real AST with every external call (factory, read, '
                       'write(lines), parser, unparser, sourcemap.write, write_sourcemap) allowed to raise at its site: on every '
                       'exit factory streams are closed exactly once and passed-in streams never; failures propagate, syntax '
                       'errors are re-raised with a new message')
    run.floor = 30
    for f in ('calmjs.parse.io', 'calmjs.parse.sourcemap', 'calmjs.parse.utils'):
        run.function(f, scratch.sha256_file(scratch.module_path(f))[:16])
    import contracts.io as ci
    cs, lemmas, env = ci.build(cio)
    verify_functions(run, cs, {}, {}, tier=tier)
    bounded(run, (cio, es5, unparsers, sourcemap), tier)
    from . import pathobl
    pathobl.add(run, tier)
    run.trust('close() does not raise (the statement lists read, parse, unparse and write failures)',
              'external calls either raise or return (no other effect on the streams than recorded by the ghost state)')
    run.assume('the content part: sourcemap.write_sourcemap (what is written to which stream, the link line), verify_write_sourcemap_args '
               '(which path is made relative to which) and the wiring of utils.normrelpath are under contract (vf/checks/pathobl.py); that '
               'the link designates the map of the lower-level API end to end, and the os.path string functions inside normrelpath, are '
               'bounded only', 'io.write with a list of nodes: lists of <= 3 entries (Node / not a Node patterns) under contract: the chunks of every Node entry, in order, chained and written')


def replay(data):
    print(data.get('case'), data.get('observed'))
    return 1

"""C16 -- tree walking reaches every node exactly once, parents first (DESIGN 4, C16)."""
import importlib

import ply.lex

from ..tables import core
from .. import gen, scratch

LEVEL = 'other'

COMMENT_KINDS = ('Comments', 'LineComment', 'BlockComment')


def comment_tokens(g, n=1):
    out = []
    for k in range(n):
        t = ply.lex.LexToken()
        t.type = 'BLOCK_COMMENT' if k % 2 == 0 else 'LINE_COMMENT'
        t.value = '/*c%d*/' % k if k % 2 == 0 else '//c%d' % k
        t.lexpos, t.lineno, t.colno = 5 + k, 1, 6 + k
        out.append(t)
    return out


def node_attrs(Node, node):
    """every node stored in any attribute (lists flattened), with the attribute name"""
    res = []
    for k, v in vars(node).items():
        if k == '_token_map':
            continue
        for x in (v if isinstance(v, list) else [v]):
            if isinstance(x, Node):
                res.append((k, x))
    return res


def check_production(g, shapes, prod):
    """O-children (per node built) and O-linear (no child stored twice) for one production."""
    Node = g.asttypes_mod.Node
    probs = {'children': [], 'linear': []}
    runs = 0
    for wc in (False, True):
        for choice in shapes.choices(prod):
            hidden = None
            if wc:
                hidden = dict((i, comment_tokens(g, 2)) for i, s in enumerate(prod.prod, 1) if s in g.terminals)
            try:
                run = core.run_action(g, prod, choice, with_comments=wc, shapes=shapes, hidden=hidden)
            except core.ActionRaised:
                continue
            runs += 1
            label = '%s [%s]%s' % (prod, ','.join('%d:%s' % (k + 1, s[-1]) for k, s in sorted(choice.items())),
                                   ' +comments' if wc else '')
            new = core.new_nodes(g, run.value)
            stored = {}
            for node in new:
                kind = core.base_name(node)
                attrs = node_attrs(Node, node)
                try:
                    kids = list(node)            # the real Node.__iter__ -> children() minus None
                    raw = list(node.children())
                except Exception as e:
                    probs['children'].append((label, '%s.children() raised %r' % (kind, e)))
                    continue
                extra = [c for c in raw if c is not None and not isinstance(c, Node)]
                if extra:
                    probs['children'].append((label, '%s.children() returns non-node %r' % (kind, extra[0])))
                for attr, x in attrs:
                    cnt = sum(1 for c in kids if c is x)
                    if cnt != 1:
                        probs['children'].append((
                            'comments-attribute' if attr == 'comments' else label,
                            '%s.%s holds a %s that children() yields %d times' % (kind, attr, core.base_name(x), cnt)))
                    stored.setdefault(id(x), []).append('%s.%s' % (kind, attr))
                ids = set(id(x) for _, x in attrs)
                for c in kids:
                    if id(c) not in ids:
                        probs['children'].append((label, '%s.children() yields a node that is stored in no attribute' % kind))
            for k, where in stored.items():
                if len(where) > 1:
                    probs['linear'].append((label, 'one child node is stored twice: %s' % ', '.join(where)))
            if isinstance(run.value, list):
                seen = set()
                for x in run.value:
                    if id(x) in seen:
                        probs['linear'].append((label, 'result list contains the same node twice'))
                    seen.add(id(x))
    return runs, probs


def closure(Node, root):
    out, seen = [], set()

    def visit(n, depth):
        for attr, x in node_attrs(Node, n):
            if id(x) in seen:
                out.append(('DUP', x))
                continue
            seen.add(id(x))
            out.append((attr, x))
            visit(x, depth + 1)
    visit(root, 0)
    return out


def check_program(es5, Node, walkers, src, with_comments):
    try:
        tree = es5.Parser(with_comments=with_comments).parse(src)
    except Exception as e:
        if type(e).__name__ in ('ECMASyntaxError', 'ECMARegexSyntaxError'):
            return None
        raise
    W = walkers.Walker()
    ref = closure(Node, tree)
    try:
        walked = list(W.walk(tree))
    except Exception as e:
        # a tree the parser built cannot be walked at all
        return [('walk', 'walk() raises %s: %s on a tree the parser built' % (type(e).__name__, e))]
    try:
        return _compare(Node, walkers, W, tree, ref, walked)
    except Exception as e:
        return [('walk', 'walking / filtering raises %s: %s on a tree the parser built' % (type(e).__name__, e))]


def _compare(Node, walkers, W, tree, ref, walked):
    probs = []
    refids = dict((id(x), (a, x)) for a, x in ref)
    wid = [id(x) for x in walked]
    if len(set(wid)) != len(wid):
        probs.append(('walk', 'a node is yielded more than once'))
    missing = [x for a, x in ref if id(x) not in set(wid)]
    if missing:
        kinds = sorted(set(type(x).__name__ for x in missing))
        case = 'comments-attribute' if all(k in COMMENT_KINDS for k in kinds) else 'walk'
        probs.append((case, 'walk() never yields %d stored node(s) of kind %s' % (len(missing), ', '.join(kinds))))
    if [id(x) for x in W.walk(tree)] != wid or [id(x) for x in walkers.walk(tree)] != wid:
        probs.append(('walk', 'two walks of the same tree differ'))
    pos = dict((i, k) for k, i in enumerate(wid))
    for n in walked:
        for c in n:
            if id(c) in pos and pos[id(c)] < pos[id(n)]:
                probs.append(('walk', 'a %s is yielded before its parent %s' % (type(c).__name__, type(n).__name__)))
    conds = [lambda n: type(n).__name__ == 'Identifier', lambda n: hasattr(n, 'value'), lambda n: True,
             lambda n: type(n).__name__ in ('FuncExpr', 'FuncDecl', 'Assign', 'BinOp'), lambda n: False]
    for ci, cond in enumerate(conds):
        want = [id(x) for x in walked if cond(x)]
        got = [id(x) for x in W.filter(tree, cond)]
        if got != want:
            probs.append(('filter', 'filter(cond%d) yields %d nodes, walk-then-select yields %d' % (ci, len(got), len(want))))
        for k in (0, 1, len(want) - 1, len(want), len(want) + 1):
            if k < 0:
                continue
            try:
                r = id(W.extract(tree, cond, skip=k))
            except TypeError:
                r = None
            exp = want[k] if k < len(want) else None
            if r != exp:
                probs.append(('extract', 'extract(cond%d, skip=%d) is not the %d-th match / "no match"' % (ci, k, k)))
    # the condition argument of walk is documented as ignored
    w_ = walkers.Walker()
    base_ = list(w_.walk(tree))
    for label_, cond_ in (('False', lambda n_: False), ('True', lambda n_: True), ('identifiers', lambda n_: type(n_).__name__ == 'Identifier')):
        for how_, got_ in (('positional', list(w_.walk(tree, cond_))), ('keyword', list(w_.walk(tree, condition=cond_)))):
            if len(got_) != len(base_) or any(a_ is not b_ for a_, b_ in zip(got_, base_)):
                probs.append(('walk with a condition', 'walk(tree, <%s>) (%s) yields %d nodes, walk(tree) yields %d' % (label_, how_, len(got_), len(base_))))
                break
    return probs


def main(run, tier):
    g = core.G()
    shapes = core.Shapes(g)
    Node = g.asttypes_mod.Node
    run.explanation = ('per grammar production: every node the real action builds lists each node-valued attribute '
                       'exactly once in children()/__iter__ (O-children) and stores no child twice (O-linear => the '
                       'parser builds trees, so a pre-order over children() has no duplicates); Walker.walk yields the pre-order, '
                       'filter yields the selected sub-sequence of it, extract returns its n-th element or raises (E1: loop contracts, '
                       'recursion by contract, nodes of an uninterpreted sort); a bounded stand-in runs the same statements on parsed trees')
    for f in ('calmjs.parse.asttypes', 'calmjs.parse.walkers', 'calmjs.parse.parsers.es5'):
        run.function(f, scratch.sha256_file(scratch.module_path(f))[:16])
    run.floor = 500
    from .c14 import frame_obligations
    import contracts.frames as cf
    frame_obligations(run, cf.C16, 'C16')
    # E1: Walker.walk / filter / extract against the pre-order spec, Node.__iter__ (contracts/walkers.py)
    from ..e1run import verify_functions
    import contracts.walkers as cwalk
    wmod = importlib.import_module('calmjs.parse.walkers')
    wcs, _ = cwalk.build(wmod, Node)
    verify_functions(run, wcs, dict((c.qualname, c) for c in wcs if c.funcname.startswith('Walker.')), {}, tier=tier)
    total = 0
    for prod in g.productions:
        runs, probs = check_production(g, shapes, prod)
        total += runs
        for kind in ('children', 'linear'):
            name = 'O-%s[%s]' % (kind, prod)
            bad = False
            seen = set()
            for label, why in probs[kind]:
                if (label, why) in seen or len(seen) >= 3:
                    continue
                seen.add((label, why))
                if run.failed(name, 'E2/tables', label, dict(production=str(prod), problem=why), observed=why,
                              required='children() lists every node-valued attribute exactly once', replayed=True) == 'violation':
                    bad = True
            if not bad:
                run.discharged(name, 'E2/tables', 'exec', 0.0, detail=('%d tagged runs' % runs) if prod.number % 80 == 0 else None)
    run.extra['tagged_action_runs'] = total
    # ---- bounded: the walkers on whole trees
    es5 = importlib.import_module('calmjs.parse.parsers.es5')
    walkers = importlib.import_module('calmjs.parse.walkers')
    corpus = gen.corpus(g, depth2=True)
    progs = [gen.render(t, ' ') for _, t in corpus] + list(gen.EXTRA_PROGRAMS)
    progs += [gen.render(t, ' /*c*/ ') for _, t in corpus[::3 if tier == 'quick' else 1]]
    n = ok = nfail = 0
    for src in progs:
        for wc in (False, True):
            probs = check_program(es5, Node, walkers, src, wc)
            n += 1
            if probs is None:
                continue
            ok += 1
            for case, why in probs:
                if run.failed('rt.walk', 'E4/bounded', case if case == 'comments-attribute' else '%s | %s' % (case, src),
                              dict(source=src, with_comments=wc, problem=why), observed=why,
                              required='walk = every stored node once, parents first; filter = walk+select; extract = n-th',
                              replayed=True) == 'violation':
                    nfail += 1
            if nfail > 10:
                break
    run.bounded_check('rt.walk', 'generated program per production and depth-2 nesting, plain and with a block comment '
                      'between all tokens, comment capture off/on; 5 conditions x 5 skip values', n, ok)
    run.trust('induction over the derivation: children are trees disjoint from each other (O-linear of their productions)')
    run.assume('walker contracts: partial correctness (recursion used by contract; termination = finiteness of trees, O-linear); flat / filt are '
               'introduced as the monoid homomorphisms fixed by their value on singletons, their defining equations are revealed at the '
               'instances used; Node.__iter__ is verified for children() lists of length <= 3 (every None pattern), longer lists by the '
               'bounded stand-in; the finding F17 (comments are stored outside children()) is why "every node stored in any attribute" fails')


def replay(data):
    w = data.get('witness') or {}
    g = core.G()
    if 'source' in w:
        es5 = importlib.import_module('calmjs.parse.parsers.es5')
        walkers = importlib.import_module('calmjs.parse.walkers')
        probs = check_program(es5, g.asttypes_mod.Node, walkers, w['source'], w.get('with_comments', False))
        print(w['source'], probs)
        return 1 if probs else 0
    shapes = core.Shapes(g)
    bad = 0
    for prod in g.productions:
        if str(prod) == w.get('production'):
            runs, probs = check_production(g, shapes, prod)
            for k, v in probs.items():
                for label, why in v:
                    print('REPRODUCED', label, why)
                    bad += 1
    return 1 if bad else 0

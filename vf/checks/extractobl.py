"""O-extract obligations for C19 (E2 style): what the real extractor rule table makes of each JSON-relevant node kind, with the
children replaced by stubs that yield a given Python value.

By structural induction over a JSON-compatible literal: the leaves (string, number, boolean, null, negative number) are decided
by the exhaustive token tables of c19.py; every composite kind (array, object with its property assignments, the var / assignment
statement that binds the literal, the program) is shown here to combine the values of its children exactly as JSON does -- in
order, none dropped, duplicated or converted -- for children of every value class the rule code could tell apart (an opaque
object, and the falsy / empty value of each JSON class).  Assumption stated in the evidence: rule code distinguishes child values
only by type, truthiness and equality with the enumerated representatives."""
import importlib
import itertools


class Opaque(object):
    def __init__(self, n):
        self.n = n

    def __repr__(self):
        return '<opaque %d>' % self.n


def child_values():
    return [Opaque(1), 0, '', None, False, [], {}, 'text', -1.5, [0], {'k': None}, True]


def add(run, tier):
    ext = importlib.import_module('calmjs.parse.unparsers.extractor')
    at = importlib.import_module('calmjs.parse.asttypes')
    rt = importlib.import_module('calmjs.parse.ruletypes')

    class Hole(at.Node):
        def __init__(self, value):
            self._hole_value = value

        def children(self):
            return []

    class HoleRule(rt.Token):
        def __call__(self, walk, dispatcher, node):
            yield next(dispatcher.token(None, node, node._hole_value, None))

    def extract(tree, fold):
        ext.definitions['Hole'] = (HoleRule(),)
        try:
            return ext.ast_to_dict(tree, fold_ops=fold)
        finally:
            del ext.definitions['Hole']

    def same(a, b):
        if isinstance(a, Opaque) or isinstance(b, Opaque):
            return a is b
        if type(a) is not type(b):
            return False
        if isinstance(a, list):
            return len(a) == len(b) and all(same(x, y) for x, y in zip(a, b))
        if isinstance(a, dict):
            return list(a.keys()) == list(b.keys()) and all(same(a[k], b[k]) for k in a)
        return a == b

    def bind(kind, name, expr):
        ident = at.Identifier(name)
        if kind == 'var':
            return at.VarStatement([at.VarDecl(ident, expr)])
        return at.ExprStatement(at.Assign(left=ident, op='=', right=expr))

    def decide(name, tree, want, detail):
        if want is None:            # one binding statement: {bound name: value of the stub}
            st = tree.children()[0]
            target = st.children()[0].identifier if type(st).__name__.endswith('VarStatement') else st.expr.left
            stub = st.children()[0].initializer if type(st).__name__.endswith('VarStatement') else st.expr.right
            want = {target.value: stub._hole_value}
        for fold in (False, True):
            try:
                got = extract(tree, fold)
                why = None if same(got, want) else 'extracted %r, JSON semantics give %r' % (got, want)
            except Exception as e:
                why = 'raised %s: %s' % (type(e).__name__, str(e)[:120])
            if why:
                run.failed(name, 'E2/tables', detail, dict(case=detail, fold_ops=fold, problem=why), observed='%s (fold_ops=%s): %s' % (detail, fold, why),
                           required='the value of a composite literal is the JSON composition of the values of its parts', replayed=True)
                return
        run.discharged(name, 'E2/tables', 'exec', 0.0, detail=detail)
    vals = child_values()
    # ---- binding forms with one child of every value class
    for kind in ('var', 'assign'):
        for v in vals:
            decide('O-extract[%s binding | %r]' % (kind, v), at.ES5Program([bind(kind, 'x', Hole(v))]), {'x': v}, '%s x = <%r>' % (kind, v))
    # the bound name is the key, whatever it spells (names of global values and contextual words are legal binding names)
    for nm_ in ('undefined', 'Infinity', 'NaN', 'get', 'set', 'eval', 'arguments', 'of', '$', '_', 'x1'):
        for kind in ('var', 'assign'):
            decide('O-extract[%s binding named %s]' % (kind, nm_), at.ES5Program([bind(kind, nm_, Hole(Opaque(7)))]), None, '%s %s = <opaque>' % (kind, nm_))
    # several bindings in one program / one var statement: order and last-wins as for a dict
    a, b, c = Opaque(1), Opaque(2), Opaque(3)
    decide('O-extract[program | three statements]', at.ES5Program([bind('var', 'x', Hole(a)), bind('assign', 'y', Hole(b)), bind('var', 'z', Hole(c))]),
           {'x': a, 'y': b, 'z': c}, 'var x; y = ; var z')
    decide('O-extract[var statement | two declarations]', at.ES5Program([at.VarStatement([at.VarDecl(at.Identifier('x'), Hole(a)),
                                                                                          at.VarDecl(at.Identifier('y'), Hole(b))])]),
           {'x': a, 'y': b}, 'var x = , y = ')
    # ---- arrays: every length <= 3, every value class in every position (pairs exhaustively, triples on a diagonal)
    for n in range(0, 4):
        combos = itertools.product(vals, repeat=n) if n <= 2 else [tuple(vals[(i + k) % len(vals)] for k in range(n)) for i in range(len(vals))]
        for items in combos:
            decide('O-extract[array | %s]' % ', '.join(repr(x) for x in items), at.ES5Program([bind('var', 'x', at.Array([Hole(x) for x in items]))]),
                   {'x': list(items)}, 'array of %d' % n)
    # ---- objects: key spellings x value classes, then several properties (order, repeated key last wins)
    keys = [('a', lambda: at.PropIdentifier('a')), ('', lambda: at.String('""')), ('b c', lambda: at.String('"b c"')), ('0', lambda: at.String("'0'")),
            ('a', lambda: at.String('"a"')), ('key', lambda: at.String('"key"')),
            # words the language (and the extractor's own statement handling) knows: as keys they are plain strings
            ('return', lambda: at.String('"return"')), ('var', lambda: at.PropIdentifier('var')), ('function', lambda: at.String('"function"'))]
    for (k, mk) in keys:
        for v in vals:
            decide('O-extract[object | %r: %r]' % (k, v), at.ES5Program([bind('assign', 'x', at.Object([at.Assign(left=mk(), op=':', right=Hole(v))]))]),
                   {'x': {k: v}}, 'object {%r: <%r>}' % (k, v))
    decide('O-extract[object | empty]', at.ES5Program([bind('var', 'x', at.Object([]))]), {'x': {}}, 'empty object')
    for ks in itertools.product(range(len(keys)), repeat=2):
        props = [at.Assign(left=keys[i][1](), op=':', right=Hole(v)) for i, v in zip(ks, (a, b))]
        want = {}
        for i, v in zip(ks, (a, b)):
            want[keys[i][0]] = v
        decide('O-extract[object | keys %r, %r]' % (keys[ks[0]][0], keys[ks[1]][0]), at.ES5Program([bind('var', 'x', at.Object(props))]), {'x': want},
               'object with two properties')
    # two properties, every pair of value classes: same key (the later one wins, whatever the values) and different keys
    for v1, v2 in itertools.product(vals[:9], repeat=2):
        for k1, k2 in (('"k"', '"k"'), ('"k"', '"m"')):
            props = [at.Assign(left=at.String(k1), op=':', right=Hole(v1)), at.Assign(left=at.String(k2), op=':', right=Hole(v2))]
            want = {}
            want[k1[1:-1]] = v1
            want[k2[1:-1]] = v2
            decide('O-extract[object | %s: %r, %s: %r]' % (k1, v1, k2, v2), at.ES5Program([bind('var', 'x', at.Object(props))]), {'x': want},
                   'object {%s: <%r>, %s: <%r>}' % (k1, v1, k2, v2))
    # ---- nesting of composites in composites (one level: the induction step with a composite child built by the real rules)
    inner_arr = lambda v: at.Array([Hole(v)])
    inner_obj = lambda v: at.Object([at.Assign(left=at.String('"k"'), op=':', right=Hole(v))])
    for v in vals[:7]:
        decide('O-extract[array in array | %r]' % (v,), at.ES5Program([bind('var', 'x', at.Array([inner_arr(v), Hole(a)]))]), {'x': [[v], a]}, 'nested array')
        decide('O-extract[object in array | %r]' % (v,), at.ES5Program([bind('var', 'x', at.Array([inner_obj(v)]))]), {'x': [{'k': v}]}, 'object in array')
        decide('O-extract[array in object | %r]' % (v,), at.ES5Program([bind('var', 'x', at.Object([at.Assign(left=at.String('"p"'), op=':', right=inner_arr(v))]))]),
               {'x': {'p': [v]}}, 'array in object')
        decide('O-extract[object in object | %r]' % (v,), at.ES5Program([bind('var', 'x', at.Object([at.Assign(left=at.String('"p"'), op=':', right=inner_obj(v))]))]),
               {'x': {'p': {'k': v}}}, 'object in object')
    run.assume('O-extract: the extractor rule code tells child values apart only by type, truthiness and equality with the enumerated '
               'representatives (opaque object, 0, "", None, False, [], {}, a string, a negative float, non-empty list / dict, True)')

"""C09 -- the source map decodes to exactly the positions the fragments carried (DESIGN 4, C09)."""
import importlib
import io
import itertools
import random

from .. import gen, scratch
from ..e1run import Concrete, verify_functions, prove_lemmas
from spec import sourcemap_v3 as v3

LEVEL = 'other'


def gen_lines(text):
    """generated (line, column) bookkeeping by LF / CR / CRLF counting -- independent of the code under test"""
    line = col = 0
    i = 0
    out = []
    while i < len(text):
        c = text[i]
        if c == '\r' and text[i + 1:i + 2] == '\n':
            i += 2
            line, col = line + 1, 0
        elif c in '\r\n':
            i += 1
            line, col = line + 1, 0
        else:
            i += 1
            col += 1
    return line, col


def check_stream(sm, frags, normalize):
    """Run sourcemap.write on a fragment stream and decode the result with the independent V3 decoder."""
    frags = list(frags)
    out = io.StringIO()
    mappings, sources, names = sm.write(iter(frags), out, normalize=normalize)
    text = out.getvalue()
    probs = []
    if text != ''.join(f[0] for f in frags):
        probs.append('written text differs from the concatenated fragment texts')
    smap = sm.encode_sourcemap('out.js', mappings, sources, names)
    try:
        decoded = v3.decode_mappings_v3(smap['mappings'])
    except Exception as e:
        return ['mappings do not decode: %r' % (e,)]
    nlines = gen_lines(text)[0] + 1
    if len(decoded) != nlines:
        probs.append('%d mapping lines for %d lines of output' % (len(decoded), nlines))
    for li, segs in enumerate(decoded):
        prev = -1
        for sg in segs:
            if sg[0] < prev:
                probs.append('generated columns decrease on line %d' % li)
            prev = sg[0]
            if sg[0] < 0:
                probs.append('negative generated column')
            if len(sg) > 1:
                if not 0 <= sg[1] < len(smap['sources']):
                    probs.append('source index %d out of range (%d sources)' % (sg[1], len(smap['sources'])))
                if sg[4] is not None and not 0 <= sg[4] < len(smap['names']):
                    probs.append('name index %d out of range (%d names)' % (sg[4], len(smap['names'])))
                if sg[2] < 0 or sg[3] < 0:
                    probs.append('negative source position %r' % (sg,))
    # each explicitly positioned fragment: generated position -> its source position
    written = ''
    cur_source = None
    first_source = next((f[4] for f in frags if f[1] is not None and f[2] is not None and f[4] is not None), None)
    for (t, lineno, colno, name, source) in frags:
        if lineno is not None and colno is not None and source is not None:
            cur_source = source
        if lineno and colno and lineno > 0 and colno > 0 and t:
            gl, gc = gen_lines(written)
            want_src = cur_source if cur_source is not None else first_source
            want_src = 'about:invalid' if (want_src is NotImplemented or want_src is None) else want_src
            segs = decoded[gl] if gl < len(decoded) else []
            cand = [sg for sg in segs if sg[0] <= gc]
            if not cand:
                probs.append('fragment %r written at %d:%d has no mapping' % (t, gl, gc))
            else:
                sg = cand[-1]
                if len(sg) == 1:
                    probs.append('fragment %r written at %d:%d falls in an unmapped run' % (t, gl, gc))
                else:
                    got = (smap['sources'][sg[1]] if 0 <= sg[1] < len(smap['sources']) else None, sg[2], sg[3] + (gc - sg[0]))
                    want = (want_src, lineno - 1, colno - 1)
                    if got != want:
                        probs.append('fragment %r written at %d:%d decodes to %r, it carried %r' % (t, gl, gc, got, want))
                    if name is not None:
                        exact = [x for x in segs if x[0] == gc and len(x) > 1]
                        nm = smap['names'][exact[-1][4]] if exact and exact[-1][4] is not None and 0 <= exact[-1][4] < len(smap['names']) else None
                        if nm != name:
                            probs.append('renamed fragment %r (original %r) decodes to name %r' % (t, name, nm))
                    elif not normalize and sg[0] != gc:
                        probs.append('fragment %r at %d:%d has no exact segment with normalisation off' % (t, gl, gc))
        written += t
    return probs


def synthetic_streams(tier, seed):
    """well-formed synthetic fragment streams: lineno/colno both None, both 0, or both positive; a fragment
    containing a line end is followed by a fresh fragment; '\\r' never split from its '\\n'."""
    texts = ['a', 'bc', ' ', '\n', '\r\n', 'x\n', '\r']
    alpha = []
    for t in texts:
        alpha.append((t, None, None, None, None))
        alpha.append((t, 0, 0, None, None))
    for (l, c) in ((1, 1), (1, 5), (2, 3), (3, 1)):
        alpha.append(('tok', l, c, None, 'f1.js'))
        alpha.append(('t', l, c, None, None))
    alpha.append(('q', 2, 2, 'orig', 'f1.js'))
    alpha.append(('r', 1, 9, 'other', 'f2.js'))
    alpha.append(('u', 4, 4, None, 'f2.js'))
    alpha.append(('m\nn', 2, 1, None, 'f1.js'))
    alpha.append(('v', 5, 1, None, NotImplemented))
    n = 2 if tier == 'quick' else 3
    for L in range(1, n + 1):
        for t in itertools.product(alpha, repeat=L):
            ok = True
            for a, b in zip(t, t[1:]):
                if a[0].endswith('\r') and b[0].startswith('\n'):
                    ok = False
            if ok:
                yield list(t)
    rnd = random.Random(seed)
    for _ in range(400 if tier == 'quick' else 4000):
        t = [rnd.choice(alpha) for _ in range(rnd.randint(3, 9))]
        if all(not (a[0].endswith('\r') and b[0].startswith('\n')) for a, b in zip(t, t[1:])):
            yield t


def main(run, tier):
    sm = importlib.import_module('calmjs.parse.sourcemap')
    vlq = importlib.import_module('calmjs.parse.vlq')
    run.explanation = ('Names / Bookkeeper / Book state machines and normalize_mapping_line (loop contract over lines of any length: what a '
                       'linearly interpolating consumer sees at every input segment) by VCs from the real AST (E1, z3); which path is made '
                       'relative to which in verify_write_sourcemap_args (E1); sourcemap.write with both loops cut: every positioned piece '
                       'is mapped at the column where it is written to its own file / line / column / name, a mapping line ends exactly '
                       'after a piece ending in CR or LF (E1); the composition of the layers only by a bounded stand-in against an '
                       'independent Source Map V3 decoder (spec/sourcemap_v3.py); VLQ layer proved under C10')
    for f in ('calmjs.parse.sourcemap', 'calmjs.parse.vlq'):
        run.function(f, scratch.sha256_file(scratch.module_path(f))[:16])
    run.floor = 30
    import contracts.sourcemap as cs_
    cs, lemmas, env = cs_.build(sm)
    prove_lemmas(run, lemmas, both=(tier == 'thorough'))
    verify_functions(run, cs, dict((c.qualname, c) for c in cs), {}, tier=tier, both=(tier == 'thorough'))
    from . import pathobl
    pathobl.add(run, tier)
    # ---- E1: normalize_mapping_line, loop contract over lines of any length (contracts/normalize.py)
    import contracts.normalize as cnorm
    from spec import sourcemap_v3 as _v3s

    def _ncall(args):
        return sm.normalize_mapping_line(list(args[0]), args[1])

    def _npost(args, res):
        if isinstance(res, Exception):
            return 'raised %r' % (res,)
        return _v3s.normalized_line_defect(args[0], args[1], res[0], res[1])

    def _ninputs(tier_, seed_):
        base = [(), (0,), (2,), (0, 0, 0, 0), (3, 0, 0, 3), (3, 1, -1, 3), (0, 1, 0, 0), (3, 0, 1, -2), (3, 0, 0, 3, 1), (1, 0, 0, 3)]
        for L in range(0, 4):
            for line in itertools.product(base, repeat=L):
                for carry in (0, 4):
                    yield (line, carry)
    nconc = Concrete('calmjs.parse.sourcemap:normalize_mapping_line', _ncall, _npost, _ninputs, bound='lines of <= 3 segments over 10 shapes')
    verify_functions(run, cnorm.build(sm), {}, {nconc.qualname: nconc}, tier=tier, both=(tier == 'thorough'))
    # ---- the VLQ layer the mappings string is written with (obligations of C10, imported: C09 rests on them)
    from .c10 import vlq_layer
    vlq_layer(run, tier)
    # ---- E1: sourcemap.write, both loops cut (contracts/smwrite.py); witness inputs = the synthetic streams below
    import contracts.smwrite as csm

    def _wcall(args):
        return check_stream(sm, args[0], False)

    def _wpost(args, res):
        if isinstance(res, Exception):
            return 'raised %r' % (res,)
        return res[0] if res else None
    wconc = Concrete('calmjs.parse.sourcemap:write', _wcall, _wpost, lambda t_, s_: ((fr,) for fr in synthetic_streams('quick', s_)),
                     bound='the synthetic fragment streams of rt.sourcemap.synthetic, normalize off')
    verify_functions(run, csm.build(sm), {}, {wconc.qualname: wconc}, tier=tier)
    # the small pieces the contracts above take as given (contracts/smsmall.py): an empty Names table, names listed in index order,
    # the book default_book builds (generated columns from 0, source lines / columns from 1)
    import contracts.smsmall as csmall
    verify_functions(run, csmall.build(sm), {}, {}, tier=tier)
    # ---- bounded: normalize_mapping_line against its decode-view post-condition, exhaustively over short lines
    from spec import sourcemap_v3 as _v3
    segs = [(), (0,), (2,)] + [(dc, ds, dl, dsc) for dc in (0, 3) for ds in (0, 1, -1) for dl in (0, 1, -1) for dsc in (0, 3, -2)]
    segs += [(3, 0, 0, 3, 0), (3, 0, 0, 3, 1), (0, 1, -1, 0, 2), (1, 0, 0, 3, -1)]
    nn = 0
    bad = None
    for L in range(0, 4 if tier == 'quick' else 5):
        pool = segs if L <= 2 else segs[::3] + segs[-4:] if L == 3 else segs[::7]
        for line in itertools.product(pool, repeat=L):
            for carry in (0, 4):
                nn += 1
                res, out = sm.normalize_mapping_line(list(line), carry)
                why = _v3.normalized_line_defect(line, carry, res, out)
                if why and (bad is None or len(line) < len(bad[0])):
                    bad = (line, carry, res, out, why)
    if bad:
        why = 'normalize_mapping_line(%r, %r) = (%r, %r): %s' % bad
        run.failed('rt.normalize_mapping_line', 'E4/bounded', repr(bad[:2]), dict(line=repr(bad[0]), carry=bad[1], problem=why), observed=why,
                   required='a linearly interpolating V3 consumer sees the same mapping at every input segment', replayed=True)
    run.bounded_check('rt.normalize_mapping_line', 'all lines of <= 2 segments over %d relative segments (deltas of -1/0/1 in source and line, '
                      'in and out of column sync, names, terminators, empty), thinned alphabets for 3%s; carry 0 and 4' % (
                          len(segs), '' if tier == 'quick' else ' and 4'), nn)
    # ---- bounded: synthetic streams
    n = nfail = 0
    for frags in synthetic_streams(tier, run.seed):
        for normalize in (False, True):
            n += 1
            try:
                probs = check_stream(sm, frags, normalize)
            except Exception as e:
                probs = ['sourcemap.write raised %r' % (e,)]
            for why in probs[:1]:
                nfail += 1
                if nfail <= 10:
                    run.failed('rt.sourcemap.synthetic', 'E4/bounded', 'normalize=%s | %r' % (normalize, frags),
                               dict(fragments=repr(frags), normalize=normalize, problem=why), observed=why,
                               required='decoded map = positions the fragments carried', replayed=True)
    # the documented multi-call form: one write() per input, sharing book / sources / names / mappings (normalisation off)
    for first, second in (([('a', 1, 1, 'first', 'one.js'), (' ', None, None, None, None), ('b', 1, 3, 'second', 'one.js'), ('\n', 0, 0, None, None)],
                           [('a', 1, 1, 'value', 'two.js'), ('c', 1, 2, None, 'two.js')]),
                          ([('x', 2, 4, None, 'one.js')], [('y', 1, 1, 'orig', 'two.js'), ('z', 1, 2, 'other', 'one.js')])):
        n += 1
        out = io.StringIO()
        book, srcs, nms, maps = sm.default_book(), sm.Names(), sm.Names(), None
        r1 = sm.write(iter(first), out, normalize=False, book=book, sources=srcs, names=nms)
        r2 = sm.write(iter(second), out, normalize=False, book=book, sources=srcs, names=nms, mappings=r1[0])
        smap = sm.encode_sourcemap('out.js', r2[0], r2[1], r2[2])
        dec = v3.decode_mappings_v3(smap['mappings'])
        want = []
        cur_src = None
        for f in first + second:
            if f[1] is None or f[2] is None:
                continue                          # unmapped
            cur_src = f[4] or cur_src             # no source given: the source in effect
            want.append((f[3], cur_src))
        got = []
        for segs in dec:
            for sg in segs:
                if len(sg) > 1:
                    nm = smap['names'][sg[4]] if len(sg) > 4 and sg[4] is not None and 0 <= sg[4] < len(smap['names']) else None
                    src_ = smap['sources'][sg[1]] if 0 <= sg[1] < len(smap['sources']) else '<out of range>'
                    got.append((nm, src_))
        if got != want:
            why = 'two write() calls sharing book/sources/names: decoded (name, source) per positioned fragment %r, expected %r' % (got, want)
            run.failed('rt.sourcemap.multicall', 'E4/bounded', repr(first[:1] + second[:1]), dict(first=repr(first), second=repr(second), problem=why),
                       observed=why, required='every positioned fragment maps to its own source file and original name', replayed=True)
    run.bounded_check('rt.sourcemap.synthetic', 'all well-formed streams of <= %d fragments over a 25-fragment alphabet + '
                      'random longer streams (seeded) x normalize off/on' % (2 if tier == 'quick' else 3), n)
    # ---- bounded: streams of the real printers, one and two source files
    from ..tables import core, printing
    g = core.G()
    pr = printing.Printing(g)
    es5 = importlib.import_module('calmjs.parse.parsers.es5')
    unparsers = importlib.import_module('calmjs.parse.unparsers.es5')
    corpus = gen.corpus(g, depth2=(tier == 'thorough'))
    progs = [gen.render(t, sep) for _, t in corpus for sep in (' ', '\n')] + list(gen.EXTRA_PROGRAMS)
    cfgs = pr.configs()
    m = ok = 0
    trees = []
    for k, src in enumerate(progs):
        try:
            t = es5.Parser().parse(src)
        except Exception:
            continue
        t.sourcepath = 'src%d.js' % (k % 3)
        trees.append(t)
        cn, mk = cfgs[k % len(cfgs)]
        for normalize in (False, True):
            frags = list(unparsers.Unparser(rules=mk())(t))
            m += 1
            try:
                probs = check_stream(sm, frags, normalize)
            except Exception as e:
                probs = ['sourcemap.write raised %r' % (e,)]
            ok += 1
            for why in probs[:1]:
                nfail += 1
                if nfail <= 12:
                    run.failed('rt.sourcemap.printer', 'E4/bounded', '%s normalize=%s | %s' % (cn, normalize, src),
                               dict(source=src, config=cn, normalize=normalize, problem=why), observed=why,
                               required='decoded map = positions the fragments carried', replayed=True)
    # several files chained
    for k in range(0, min(len(trees) - 1, 60 if tier == 'quick' else 400)):
        cn, mk = cfgs[k % len(cfgs)]
        for normalize in (False, True):
            frags = list(itertools.chain(unparsers.Unparser(rules=mk())(trees[k]), unparsers.Unparser(rules=mk())(trees[k + 1])))
            m += 1
            try:
                probs = check_stream(sm, frags, normalize)
            except Exception as e:
                probs = ['sourcemap.write raised %r' % (e,)]
            for why in probs[:1]:
                nfail += 1
                if nfail <= 12:
                    run.failed('rt.sourcemap.multi', 'E4/bounded', '%s normalize=%s | #%d' % (cn, normalize, k),
                               dict(config=cn, normalize=normalize, problem=why), observed=why,
                               required='decoded map = positions the fragments carried', replayed=True)
    run.bounded_check('rt.sourcemap.printer', 'generated programs x 2 layouts, printer configuration rotating, normalize off/on; '
                      'consecutive programs chained as several source files', m)
    run.trust('C10 (VLQ layer)', 'str.splitlines / io.StringIO / json / base64 (library contracts)',
              'the independent decoder spec/sourcemap_v3.py as the oracle')
    run.assume('under contract (E1): Bookkeeper / Names, normalize_mapping_line (lines of any length, decode view kept), sourcemap.write with '
               'normalize off (both loops cut: every explicitly positioned piece is mapped at its generated column to its own file, line, '
               'column and name; str.splitlines / rstrip over-approximated), encode_sourcemap and the VLQ layer; NOT under contract: '
               'normalize_mappings (the per-line driver of normalize_mapping_line), inferred positions of unpositioned pieces, and the '
               'composition write -> normalize -> encode -> decode as a whole: bounded stand-ins against the independent decoder',
               'well-formed stream = lineno/colno both None, both 0 or both positive, CR never split from its LF across fragments')


def replay(data):
    sm = importlib.import_module('calmjs.parse.sourcemap')
    w = data.get('witness') or {}
    if 'fragments' in w:
        frags = eval(w['fragments'], {'NotImplemented': NotImplemented})
        probs = check_stream(sm, frags, w['normalize'])
        print(w['fragments'], probs)
        return 1 if probs else 0
    print(data.get('observed'))
    return 1

"""C04 -- automatic semicolon insertion follows ECMA-262 7.9 (DESIGN 4, C04)."""
import importlib
import itertools

from ..tables import core
from .. import scratch

LEVEL = 'other'

# ECMA-262 5.1, 7.9 + 12: statements whose terminating semicolon may be supplied automatically
ASI_STATEMENTS = {'variable_statement', 'expr_statement', 'iteration_statement', 'continue_statement', 'break_statement',
                  'return_statement', 'throw_statement', 'debugger_statement'}


def grammar_obligations(run, g, shapes):
    prods = g.productions
    with_auto = [p for p in prods if 'AUTOSEMI' in p.prod]
    lhs = set(p.name for p in with_auto)
    name = 'O-asi-gram.statements'
    if lhs == ASI_STATEMENTS:
        run.discharged(name, 'E2/tables', 'exec', 0.0, detail=sorted(lhs))
    else:
        run.failed(name, 'E2/tables', 'set', dict(got=sorted(lhs), want=sorted(ASI_STATEMENTS)), observed=repr(sorted(lhs ^ ASI_STATEMENTS)),
                   required='exactly the 7.9 statement kinds have an automatic-semicolon alternative', replayed=True)
    by_key = dict(((p.name, tuple(p.prod)), p) for p in prods)
    for p in with_auto:
        name = 'O-asi-gram.pair[%s]' % p
        why = None
        if p.prod[-1] != 'AUTOSEMI' or p.prod.count('AUTOSEMI') != 1:
            why = 'AUTOSEMI is not exactly the last symbol'
        elif p.name == 'iteration_statement' and p.prod[0] != 'DO':
            why = 'only do-while among the iteration statements ends in a semicolon'
        else:
            twin = by_key.get((p.name, tuple(p.prod[:-1]) + ('SEMI',)))
            if twin is None:
                why = 'no explicit-semicolon twin production'
            elif twin.func != p.func:
                why = 'twin production runs a different action (%s vs %s)' % (twin.func, p.func)
            else:
                # same action; and the node built does not depend on which of the two tokens closed the statement
                for choice in shapes.choices(p):
                    try:
                        a = core.run_action(g, p, choice, shapes=shapes)
                        b = core.run_action(g, twin, choice, shapes=shapes)
                    except core.ActionRaised:
                        continue
                    if shape_of_tree(g, a.value) != shape_of_tree(g, b.value):
                        why = 'the two alternatives build different nodes'
        if why:
            run.failed(name, 'E2/tables', str(p), dict(production=str(p), problem=why), observed=why,
                       required='identical trees with or without the semicolon', replayed=True)
        else:
            run.discharged(name, 'E2/tables', 'exec', 0.0)
    # never an empty statement, never inside a for(;;) header
    for p in prods:
        if p.name == 'empty_statement' or (p.name == 'iteration_statement' and p.prod and p.prod[0] == 'FOR'):
            name = 'O-asi-gram.explicit_only[%s]' % p
            if 'AUTOSEMI' in p.prod:
                run.failed(name, 'E2/tables', str(p), dict(production=str(p)), observed='AUTOSEMI accepted',
                           required='only a written semicolon (7.9.1)', replayed=True)
            else:
                run.discharged(name, 'E2/tables', 'exec', 0.0)


def shape_of_tree(g, v):
    Node = g.asttypes_mod.Node
    if isinstance(v, list):
        return [shape_of_tree(g, x) for x in v]
    if not isinstance(v, Node):
        return v
    if getattr(type(v), '__hole__', False):
        return ('hole', v._hole_slot, v._hole_variant)
    return (core.base_name(v), [(k, shape_of_tree(g, x)) for k, x in sorted(vars(v).items())
                                if k not in ('_token_map', 'lexpos', 'lineno', 'colno')])


# ---- bounded differential: explicit semicolons vs omitted ------------------------------------------

STMTS = ['var a = 1;', 'a = b;', 'a++;', 'do x; while (y);', 'debugger;', 'f(1, 2);', 'a = function () { return 1; };',
         'x = {a: 1};', 'x = [1, 2];', 'x = /re/g;', 'x = a ? b : c;', 'throw e;', 'x = a + b;', '"use strict";', 'new Foo;']
IN_LOOP = ['continue;', 'break;', 'continue l;', 'break l;']
IN_FUNC = ['return;', 'return a;', 'return a + b;']

LAYOUTS = ['\n', '\r', '\r\n', '\u2028', '\u2029', ' // c\n', '\n\n  ', ' /*c*/\n', '\n/*c*/ ', ' /*\n*/ ', '\n// c\n', ' /* a\r\n b */ ']


def contexts():
    yield 'top', '%s'
    yield 'block', '{ %s }'
    yield 'function', 'function g() { %s }'
    yield 'loop', 'l: while (q) { %s }'
    yield 'case', 'switch (k) { case 1: %s }'
    yield 'if-else', 'if (t) { %s } else { z; }'
    yield 'function in if header', 'if (f(function () { %s })) { z; }'
    yield 'function in for header', 'for (i = function () { %s }; i; ) { z; }'


def programs(tier):
    """(label, pieces) where pieces = [stmt_without_semicolon, ...] joined by ';' explicitly or by a layout"""
    pool = STMTS if tier == 'thorough' else STMTS[:9]
    for cname, ctx in contexts():
        extra = (IN_LOOP if cname == 'loop' else []) + (IN_FUNC if cname.startswith('function') else [])
        seq = pool + extra
        for a, b in itertools.product(seq, repeat=2):
            if tier == 'quick' and (hash((a, b, cname)) % 3):
                continue
            yield cname, ctx, [a, b]


def norm_tree(walkers, t):
    return walkers.ReprWalker().walk(t)      # positions omitted


_TT = {}


def bounded(run, tier):
    es5 = importlib.import_module('calmjs.parse.parsers.es5')
    walkers = importlib.import_module('calmjs.parse.walkers')
    n = 0
    fails = {}

    def parse(src):
        try:
            return ('tree', norm_tree(walkers, es5.Parser().parse(src)))
        except Exception as e:
            return 'raised %s: %s' % (type(e).__name__, str(e)[:60])
    layouts = LAYOUTS if tier == 'thorough' else LAYOUTS
    for cname, ctx, stmts in programs(tier):
        explicit = ctx % ' '.join(stmts)
        ref = parse(explicit)
        if isinstance(ref, str):
            continue
        bare = [s[:-1] for s in stmts]
        for lay in layouts:
            # (a) drop the first statement's semicolon, separated from the next statement by `lay`
            src = ctx % (bare[0] + lay + stmts[1])
            n += 1
            got = parse(src)
            if got != ref:
                fails.setdefault(('between', lay, bare[0].split()[0]), []).append((src, explicit, got))
            # (b) drop the last semicolon before `}` / end of input (no line terminator needed)
            src = ctx % (stmts[0] + ' ' + bare[1] + (lay if lay.strip() == '' or lay.endswith('\n') else ' '))
            n += 1
            got = parse(src)
            if got != ref:
                fails.setdefault(('last', lay, bare[1].split()[0]), []).append((src, explicit, got))
            # (c) both
            src = ctx % (bare[0] + lay + bare[1])
            n += 1
            got = parse(src)
            if got != ref:
                fails.setdefault(('both', lay, bare[0].split()[0]), []).append((src, explicit, got))
    for (where, lay, kind), items in sorted(fails.items()):
        src, explicit, got = items[0]
        why = ('with the semicolon omitted (%s, layout %r) %r parses differently from %r: %s' % (where, lay, src, explicit, str(got)[:100]))
        run.failed('rt.asi.omitted', 'E4/bounded', 'layout=%r after=%s (%s)' % (lay, kind, where), dict(source=src, explicit=explicit, layout=lay, where=where, count=len(items), problem=why),
                   observed=why, required='identical trees with explicit and omitted semicolons', replayed=True)
    # restricted productions and places where no semicolon may be inserted
    cases = []
    for lt in ('\n', '\r\n', '\u2029', ' // c\n', ' /*\n*/ ', '\n/*c*/'):
        cases += [('function g() { return%sa; }' % lt, 'function g() { return; a; }', 'restricted return'),
                  ('l: while (q) { break%sl; }' % lt, 'l: while (q) { break; l; }', 'restricted break'),
                  ('l: while (q) { continue%sl; }' % lt, 'l: while (q) { continue; l; }', 'restricted continue'),
                  ('a%s++b;' % lt, 'a; ++b;', 'restricted postfix ++'),
                  ('a%s--%sb;' % (lt, lt), 'a; --b;', 'restricted postfix --')]
        cases += [('throw%se;' % lt, None, 'throw + line terminator is an error'),
                  ('for (a%sb; c) ;' % lt, None, 'no insertion in a for header'),
                  ('for (a; b%s) ;' % lt, None, 'no insertion in a for header'),
                  ('if (a)%selse b;' % lt, None, 'no insertion that yields an empty statement'),
                  ('while (a)%s' % lt, None, 'no insertion that yields an empty statement')]
    # ES5 (unlike ES2015) has no special rule for do-while: its terminator is subject to the ordinary conditions
    cases += [('do x; while (y) z', None, 'no insertion after do-while without a line terminator'),
              ('if (a) do x; while (y) else z', None, 'no insertion after do-while without a line terminator'),
              ('do x; while (y) /* c */ z;', None, 'no insertion after do-while without a line terminator'),
              ('do { x } while (y) z', None, 'no insertion after do-while without a line terminator')]
    # no line terminator between the two tokens: a token that itself spans lines (string continuation), a single-line comment,
    # or mere white space does not license an insertion
    for sep in (' ', '\t', ' /* c */ ', '\xa0'):
        for first in ('x = "a\\\nb"', "s = 'one \\\r\ntwo'", 'x = "a\\\u2028b"', 'x = 1', 'a = b', 'f()'):
            cases.append(('%s%sy = 2' % (first, sep), None, 'no insertion without a line terminator between the tokens'))
            cases.append(('var q = %s%svar t' % (first.split('= ', 1)[-1], sep), None, 'no insertion without a line terminator between the tokens'))
    for src, expect, what in cases:
        n += 1
        got = parse(src)
        if expect is None:
            if not (isinstance(got, str) and 'SyntaxError' in got):
                why = '%s: %r must be rejected, got %s' % (what, src, str(got)[:80])
                run.failed('rt.asi.forbidden', 'E4/bounded', '%s | %r' % (what, src), dict(source=src, problem=why), observed=why,
                           required='7.9.1: never in a for header, never yielding an empty statement', replayed=True)
        else:
            ref = parse(expect)
            if got != ref:
                why = '%s: %r must parse like %r, got %s' % (what, src, expect, str(got)[:100])
                run.failed('rt.asi.restricted', 'E4/bounded', '%s | %r' % (what, src), dict(source=src, explicit=expect, problem=why), observed=why,
                           required='restricted productions (7.9.1)', replayed=True)
    # line terminators are neutral wherever no restricted production is involved (no spurious insertion)
    from .. import gen
    corpus = gen.corpus(core.G(), depth2=(tier == 'thorough'))
    extra_tok = [[('ID', 'x'), ('EQ', '='), ('ID', 'a'), ('PLUSPLUS', '++'), ('PLUS', '+'), ('ID', 'b'), ('SEMI', ';')],
                 [('ID', 'f'), ('LPAREN', '('), ('ID', 'a'), ('COMMA', ','), ('ID', 'i'), ('MINUSMINUS', '--'), ('RPAREN', ')'), ('SEMI', ';')],
                 [('ID', 'a'), ('PLUSPLUS', '++'), ('SEMI', ';')], [('PLUSPLUS', '++'), ('ID', 'a'), ('SEMI', ';')]]
    T = lambda text: [(_TT.get(x, 'ID' if x.isalpha() else x), x) for x in text.split()]
    _TT.update({'if': 'IF', 'while': 'WHILE', 'for': 'FOR', 'with': 'WITH', 'else': 'ELSE', '(': 'LPAREN', ')': 'RPAREN', '{': 'LBRACE', '}': 'RBRACE',
                ';': 'SEMI', '=': 'EQ', '++': 'PLUSPLUS', '--': 'MINUSMINUS', ',': 'COMMA', 'do': 'DO'})
    # a prefix ++/-- on the line after a statement header, `else`, `do`, an operator or a block: the line break is neutral
    prefix_ok = [T('if ( a ) ++ b ;'), T('while ( a ) -- b ;'), T('for ( ; ; ) ++ i ;'), T('with ( o ) ++ p ;'), T('if ( a ) b ; else ++ c ;'),
                 T('x = ++ b ;'), T('{ } ++ i ;'), T('a ; -- b ;'), T('do ++ i ; while ( a ) ;'), T('f ( a , ++ b ) ;'), T('for ( k in o ) -- k ;')]
    extra_tok += prefix_ok
    sentences = [t for _, t in corpus][::(1 if tier == 'thorough' else 2)] + extra_tok
    spurious = {}
    for toks in sentences:
        flat = ' '.join(x for _, x in toks)
        ref = parse(flat)
        if isinstance(ref, str):
            continue
        for i in range(1, len(toks)):
            if toks[i - 1][0] in ('RETURN', 'BREAK', 'CONTINUE', 'THROW'):
                continue
            if toks[i][0] in ('PLUSPLUS', 'MINUSMINUS') and not (toks in prefix_ok and toks[i + 1][0] == 'ID' and toks[i - 1][0] != 'ID'):
                continue          # could be a postfix operator: restricted production, checked above
            src = ' '.join(x for _, x in toks[:i]) + '\n' + ' '.join(x for _, x in toks[i:])
            n += 1
            got = parse(src)
            if got != ref:
                spurious.setdefault((toks[i - 1][0], toks[i][0]), []).append((src, flat, got))
    for (l, r), items in sorted(spurious.items())[:8]:
        src, flat, got = items[0]
        why = 'a line terminator between %s and %s changes the parse of %r: %s' % (l, r, flat, str(got)[:90])
        run.failed('rt.asi.neutral', 'E4/bounded', '%s|%s' % (l, r), dict(source=src, explicit=flat, problem=why), observed=why,
                   required='with every semicolon written, a line break outside restricted productions does not change the tree', replayed=True)
    run.bounded_check('rt.asi', 'pairs of statements (15 + loop/function-only kinds) in 6 contexts x %d separating layouts x {first, last, both} '
                      'semicolons omitted, compared with the explicit program; restricted productions and forbidden insertions x 6 '
                      'layouts' % len(layouts), n)


def main(run, tier):
    g = core.G()
    shapes = core.Shapes(g)
    run.explanation = ('grammar facts of 7.9 decided on the extracted grammar (which statements have an automatic-semicolon alternative, '
                       'each paired with an explicit twin running the same action to an equal node; none in for headers or empty '
                       'statements); the look-behind state machine of the lexer by transition contracts on the real AST; the decision '
                       '"offending token" itself is ply\'s error detection (assumed); bounded differential stand-in')
    run.floor = 15
    from . import parsefwd
    parsefwd.add(run, tier)
    from . import attrobl
    import contracts.frames as _fr
    attrobl.frame_obligations(run, _fr.LEXER_STATE)
    for f in ('calmjs.parse.lexers.es5', 'calmjs.parse.parsers.es5'):
        run.function(f, scratch.sha256_file(scratch.module_path(f))[:16])
    grammar_obligations(run, g, shapes)
    from ..e1run import verify_functions
    # Parser.p_error is where the parser asks for an automatic semicolon and where it gives up: its contract (contracts/slash.py) is
    # part of "exactly where ES5 allows"
    import contracts.slash as _slash
    _pcs, _, _ = _slash.build(importlib.import_module('calmjs.parse.lexers.es5'), importlib.import_module('calmjs.parse.parsers.es5'))
    verify_functions(run, [c_ for c_ in _pcs if c_.funcname == 'Parser.p_error'], {}, {}, tier=tier)
    import contracts.asi as ca
    cs, lemmas, env = ca.build(importlib.import_module('calmjs.parse.lexers.es5'))
    verify_functions(run, cs, dict((c.qualname, c) for c in cs if c.funcname.endswith('_create_semi_token')), {}, tier=tier)
    bounded(run, tier)
    run.trust("ply calls p_error with the first token that has no action in the current state (the 'offending token' of 7.9.1)",
              'E1 transition contracts speak about the immediately preceding raw token; that this equals "a line terminator '
              'occurred since the previous real token" is the representation invariant whose failures are the known findings')
    run.assume('the full statement (for all programs x all subsets of removable semicolons x all layouts) is not proved: grammar '
               'facts + transition contracts + bounded differential')


def replay(data):
    es5 = importlib.import_module('calmjs.parse.parsers.es5')
    walkers = importlib.import_module('calmjs.parse.walkers')
    w = data.get('witness') or {}
    if 'source' in w:
        def parse(src):
            try:
                return norm_tree(walkers, es5.Parser().parse(src))
            except Exception as e:
                return 'raised %s: %s' % (type(e).__name__, e)
        got = parse(w['source'])
        print(repr(w['source']), '->', str(got)[:300])
        if w.get('explicit'):
            ref = parse(w['explicit'])
            print(repr(w['explicit']), '->', str(ref)[:300])
            return 0 if got == ref else 1
        return 0 if isinstance(got, str) else 1
    print(data.get('observed'))
    return 1

"""C03 -- the parser accepts exactly the ES5 grammar and builds the tree it dictates (DESIGN 4, C03)."""
import importlib
import itertools
import json
import os
import re

from ..tables import core
from .. import gen, scratch, charclass as cc
from spec import es5_actions as A, es5_lexical

LEVEL = 'other'


def base(sym):
    return re.sub(r'_(noin|nobf)$', '', sym)


def suffix(sym):
    m = re.search(r'_(noin|nobf)$', sym)
    return m.group(1) if m else ''


def action_obligations(run, g, shapes):
    """O-act: kind and slot->attribute mapping of the node every production builds (spec/es5_actions.py); binary operator levels
    (precedence + left associativity) generated from the ES5 operator table; every child reaches the result exactly once."""
    for prod in g.productions:
        name = 'O-act[%s]' % prod
        bsyms = [base(s) for s in prod.prod]
        key = '%s -> %s' % (base(prod.name), ' '.join('SEMI' if s == 'AUTOSEMI' else s for s in bsyms))
        lvl = base(prod.name)
        expect = None
        why = None
        if lvl in A.OPERATORS and len(prod.prod) == 3:
            op = prod.prod[1]
            i = A.LEVELS.index(lvl)
            if op not in A.OPERATORS[lvl]:
                why = 'operator %s does not belong to the %s level' % (op, lvl)
            elif base(prod.prod[0]) != lvl or base(prod.prod[2]) != A.LEVELS[i + 1]:
                why = 'operands %s / %s: a left-associative level is  %s -> %s OP %s' % (prod.prod[0], prod.prod[2], lvl, lvl, A.LEVELS[i + 1])
            expect = ('BinOp', {'left': 1, 'op': A.T(2), 'right': 3})
        elif lvl in A.OPERATORS and len(prod.prod) == 1:
            i = A.LEVELS.index(lvl)
            if base(prod.prod[0]) != A.LEVELS[i + 1]:
                why = '%s must fall through to %s' % (lvl, A.LEVELS[i + 1])
        elif lvl == 'unary_expr_common' and len(prod.prod) == 2:
            if prod.prod[0] not in A.UNARY:
                why = '%s is not a unary operator' % prod.prod[0]
            expect = ('UnaryExpr', {'op': A.T(1), 'value': 2})
        elif key in A.TABLE:
            expect = A.TABLE[key]
        if why is None:
            why = check_action(g, shapes, prod, expect)
        if why:
            run.failed(name, 'E2/tables', str(prod), dict(production=str(prod), problem=why), observed=why,
                       required='the tree the ES5 production dictates', replayed=True)
        else:
            run.discharged(name, 'E2/tables', 'exec', 0.0)


def check_action(g, shapes, prod, expect):
    Node = g.asttypes_mod.Node
    for choice in shapes.choices(prod):
        try:
            r = core.run_action(g, prod, choice, shapes=shapes, list_len=2)
        except core.ActionRaised as e:
            if type(e.exc).__name__ == 'ProductionError' and prod.name == 'expr_statement':
                continue                                   # function expression as a statement: rejected by design (12.4)
            return 'action raised %r' % (e.exc,)
        v = r.value
        # every child value flows into the result exactly once (no operand dropped or duplicated)
        holes = {}

        def count(x):
            if isinstance(x, list):
                for y in x:
                    count(y)
            elif isinstance(x, Node):
                if getattr(type(x), '__hole__', False):
                    holes[(x._hole_slot, x._hole_variant)] = holes.get((x._hole_slot, x._hole_variant), 0) + 1
                else:
                    for k, y in vars(x).items():
                        if k != '_token_map':
                            count(y)
        count(v)
        for i, s in enumerate(r.slots[1:], 1):
            h = s.get('hole')
            for x in (h if isinstance(h, list) else [h]):
                if isinstance(x, Node) and getattr(type(x), '__hole__', False):
                    c = holes.get((x._hole_slot, x._hole_variant), 0)
                    cloned = prod.name == 'identifier_name_string'
                    if c != 1 and not cloned:
                        return 'the child in slot %d reaches the result %d times' % (i, c)
        if expect is None:
            continue
        kind, mapping = expect
        if kind == 'GroupingOp' and isinstance(v, Node) and getattr(type(v), '__hole__', False):
            continue                                       # (( a )) collapses to the inner grouping: licensed
        if not isinstance(v, Node) or core.base_name(v) != kind:
            return 'builds %s, the production dictates %s' % (core.base_name(v) if isinstance(v, Node) else type(v).__name__, kind)
        got = core.attr_holes(g, v)
        for attr, slot in mapping.items():
            if isinstance(slot, tuple):
                text = r.slots[slot[1]]['text'] if r.slots[slot[1]]['kind'] == 'T' else None
                if getattr(v, attr, None) != text:
                    return '%s.%s is %r, the production dictates the text of slot %d (%r)' % (kind, attr, getattr(v, attr, None), slot[1], text)
            else:
                tags = got.get(attr, [])
                if r.slots[slot].get('hole') is None:
                    continue
                if not tags or any(t != slot for t in tags):
                    return '%s.%s holds slot(s) %r, the production dictates slot %d' % (kind, attr, tags, slot)
        for attr, tags in got.items():
            if attr not in mapping and attr not in ('comments',) and any(isinstance(t, int) for t in tags):
                return '%s.%s holds a child (slot %r) that the production does not dictate' % (kind, attr, tags)
    return None


def family_obligations(run, g):
    """O-family: the _noin family is the base family without the `in` operator, renamed consistently in every operand that ends
    the enclosing expression; the _nobf family is the base family with its left-most operand restricted."""
    prods = {}
    for p in g.productions:
        prods.setdefault(p.name, []).append(tuple(p.prod))
    for n in sorted(g.nonterminals):
        sfx = suffix(n)
        if not sfx:
            continue
        b = base(n)
        name = 'O-family[%s]' % n
        if b not in prods:
            run.failed(name, 'E2/tables', n, dict(problem='no base family member'), observed='no %s' % b, required='family', replayed=True)
            continue
        want = set()
        for rhs in prods[b]:
            if sfx == 'noin':
                # ECMA-262 A.3: every operand that has a NoIn form takes it, except the middle operand of ?:
                if 'IN' in rhs and b == 'relational_expr':
                    continue
                out = [s + '_noin' if (s + '_noin' in g.nonterminals and not (len(rhs) == 5 and k == 2)) else s
                       for k, s in enumerate(rhs)]
                want.add(tuple(out))
            else:
                # the look-ahead restriction of 12.4 concerns the first token only: the left-most symbol is restricted
                out = list(rhs)
                if out and out[0] + '_nobf' in g.nonterminals:
                    out[0] = out[0] + '_nobf'
                elif out and out[0] == 'primary_expr':
                    out[0] = 'primary_expr_no_brace'
                elif out and out[0] in ('object_literal', 'function_expr') and len(out) == 1:
                    continue                               # the two forms an expression statement may not start with
                want.add(tuple(out))
        got = set(prods[n])
        if got == want:
            run.discharged(name, 'E2/tables', 'exec', 0.0)
        else:
            extra = sorted(' '.join(x) for x in got - want)
            miss = sorted(' '.join(x) for x in want - got)
            why = '%s has %s; ES5 dictates %s' % (n, extra or 'nothing extra', miss or 'nothing missing')
            run.failed(name, 'E2/tables', '%s | extra=%s | missing=%s' % (n, ';'.join(extra), ';'.join(miss)),
                       dict(nonterminal=n, extra=extra, missing=miss, problem=why), observed=why,
                       required='the restricted family mirrors the base family', replayed=True)


def conflict_obligations(run):
    g = core.G(with_tables=True)
    lr = g.lr
    sr = sorted((st, tok, res) for st, tok, res in lr.sr_conflicts)
    rr = sorted((st, str(a), str(b)) for st, a, b in lr.rr_conflicts)
    summary = dict(shift_reduce=sorted(set((tok, res) for _, tok, res in sr)), n_shift_reduce=len(sr),
                   reduce_reduce=sorted(set((a, b) for _, a, b in rr)), n_reduce_reduce=len(rr))
    path = os.path.join(os.path.dirname(os.path.dirname(os.path.dirname(os.path.abspath(__file__)))), 'spec', 'conflicts.json')
    with open(path) as fd:
        audited = json.load(fd)
    cur = json.loads(json.dumps(summary))
    if cur == audited['summary']:
        run.discharged('O-conflict', 'E2/tables', 'exec', 0.0, detail=dict(n_shift_reduce=len(sr), n_reduce_reduce=len(rr)))
    else:
        run.failed('O-conflict', 'E2/tables', 'conflicts', dict(current=cur, audited=audited['summary']),
                   observed='LALR conflict set differs from the audited list: %s' % json.dumps(cur)[:300],
                   required='the conflicts ply resolves silently are exactly the audited ones (spec/conflicts.json)', replayed=False,
                   solver_output=json.dumps(cur)[:2000])
    return summary


def number_spec(s):
    """ES5 7.8.3 NumericLiteral (+ Annex B octal) recogniser, written from the grammar"""
    if re.fullmatch(r'0[xX][0-9a-fA-F]+', s):
        return True
    if re.fullmatch(r'0[0-7]+', s):
        return True                                         # B.1.1 legacy octal
    dec_int = r'(?:0|[1-9][0-9]*)'
    exp = r'(?:[eE][+-]?[0-9]+)'
    return bool(re.fullmatch(r'%s\.[0-9]*%s?|\.[0-9]+%s?|%s%s?' % (dec_int, exp, exp, dec_int, exp), s))


def lexical_obligations(run, lexmod):
    Lexer = lexmod.Lexer
    rx = re.compile(cc.rule_pattern(Lexer.t_NUMBER), re.VERBOSE)
    alpha = '0179.eE+-xXaf'
    bad = None
    n = 0
    for L in range(1, 6):
        for t in itertools.product(alpha, repeat=L):
            s = ''.join(t)
            n += 1
            if (rx.fullmatch(s) is not None) != number_spec(s):
                bad = s
    # digits of other scripts are not digits of the language (a `\\d` in a str pattern matches every Unicode Nd character)
    alpha2 = '01.e+x\u0663\uff18\u0967'
    for L in range(1, 6):
        for t in itertools.product(alpha2, repeat=L):
            s = ''.join(t)
            n += 1
            if (rx.fullmatch(s) is not None) != es5_lexical.is_numeric_literal(s):
                bad = s if bad is None or len(s) < len(bad) else bad
    if bad is None:
        run.discharged('lex.number', 'E3/charclass', 'exhaustive', 0.0, detail='t_NUMBER = NumericLiteral on all %d strings of length <= 5 over %r and over %r' % (n, alpha, alpha2))
    else:
        run.failed('lex.number', 'E3/charclass', bad, dict(literal=bad), observed='t_NUMBER and the ES5 NumericLiteral grammar disagree on %r' % bad,
                   required='7.8.3', replayed=True)
    # regular expression literals (7.8.5): exhaustive short strings on the real compiled pattern
    rrx = re.compile(cc.rule_pattern(Lexer.t_regex_REGEX), re.VERBOSE)
    ralpha = ['/', 'a', '\\', '[', ']', '\n', '\u2028', '*', 'g', '\r']
    bad = None
    n = 0
    for L in range(0, 7):
        for t in itertools.product(ralpha, repeat=L):
            s_ = ''.join(t)
            n += 1
            if (rrx.fullmatch(s_) is not None) != es5_lexical.is_regex_literal(s_):
                bad = s_ if bad is None or len(s_) < len(bad) else bad
    if bad is None:
        run.discharged('lex.regex_literal', 'E3/charclass', 'exhaustive', 0.0,
                       detail='t_regex_REGEX = RegularExpressionLiteral on all %d strings of length <= 6 over %r' % (n, ralpha))
    else:
        why = 't_regex_REGEX %s %r, the ES5 RegularExpressionLiteral grammar %s' % (
            'accepts' if rrx.fullmatch(bad) else 'rejects', bad, 'does not derive it' if rrx.fullmatch(bad) else 'derives it')
        run.failed('lex.regex_literal', 'E3/charclass', bad, dict(literal=bad), observed=why, required='7.8.5', replayed=True)
    # the keyword table is exactly the ES5 reserved words of non-strict code (7.6.1): a word more rejects valid identifiers,
    # a word less accepts reserved words as identifiers
    kw = set(Lexer.keywords_dict)
    extra_kw, missing_kw = sorted(kw - set(es5_lexical.RESERVED_WORDS)), sorted(set(es5_lexical.RESERVED_WORDS) - kw)
    if not extra_kw and not missing_kw:
        run.discharged('lex.keyword_table', 'E3/const', 'python', 0.0)
    else:
        why = 'keywords of the lexer that ES5 does not reserve: %r; reserved words it lacks: %r' % (extra_kw, missing_kw)
        run.failed('lex.keyword_table', 'E3/const', (extra_kw + missing_kw)[0], dict(extra=extra_kw, missing=missing_kw), observed=why,
                   required='7.6.1.1 keywords, 7.6.1.2 future reserved words (non-strict), null / true / false', replayed=True)
    sets = cc.es5_sets()
    ident = re.compile(Lexer.identifier)
    start = cc.from_regex(ident)
    ascii_start = cc.intersect(start, [(0, 127)])
    want = cc.from_chars('abcdefghijklmnopqrstuvwxyzABCDEFGHIJKLMNOPQRSTUVWXYZ$_')
    part_ascii = cc.from_pred(lambda cp: cp < 128 and ident.fullmatch('a' + chr(cp)) is not None)
    ok = ascii_start == want and part_ascii == cc.union(want, cc.from_chars('0123456789'))
    if ok:
        run.discharged('lex.identifier_ascii', 'E3/charclass', 'intervals', 0.0)
    else:
        run.failed('lex.identifier_ascii', 'E3/charclass', 'ascii', dict(start=cc.show(ascii_start), part=cc.show(part_ascii)),
                   observed='ASCII identifier characters: start {%s} part {%s}' % (cc.show(ascii_start), cc.show(part_ascii)),
                   required='[A-Za-z$_] then [A-Za-z0-9$_]', replayed=True)
    # IdentifierPart includes IdentifierStart everywhere, also after a digit / mark
    bad = [cp for lo, hi in start for cp in range(lo, hi + 1) if ident.fullmatch('a1' + chr(cp)) is None]
    if not bad:
        run.discharged('lex.identifier_part_includes_start', 'E3/charclass', 'exhaustive', 0.0)
    else:
        why = 'a1%s is lexed as two tokens: %d identifier-start characters are not accepted after a digit' % (chr(bad[0]), len(bad))
        run.failed('lex.identifier_part_includes_start', 'E3/charclass', 'letters-after-digit', dict(first='U+%04X' % bad[0], count=len(bad)),
                   observed=why, required='IdentifierPart :: IdentifierStart | ... (7.6)', replayed=True)
    for nm, text, what in (('lex.identifier_zwnj_zwj', 'a\u200cb\u200dc', 'ZWNJ / ZWJ in IdentifierPart'),
                           ('lex.identifier_unicode_escape', '\\u0061b', '\\uXXXX escapes in identifiers')):
        if ident.fullmatch(text) is not None:
            run.discharged(nm, 'E3/charclass', 'exec', 0.0)
        else:
            run.failed(nm, 'E3/charclass', what, dict(text=text), observed='%r is not one identifier for the lexer' % text,
                       required=what + ' (7.6)', replayed=True)
    part = cc.from_pred(lambda cp: ident.fullmatch('a' + chr(cp)) is not None)
    x = cc.intersect(cc.union(part, start), cc.union(sets['WhiteSpace'], sets['LineTerminator']))
    if not x:
        run.discharged('lex.identifier_disjoint_separators', 'E3/charclass', 'intervals', 0.0)
    else:
        why = 'identifier characters of the lexer that are ES5 white space / line terminators: {%s}' % cc.show(x)
        run.failed('lex.identifier_disjoint_separators', 'E3/charclass', 'a%sb' % chr(x[0][0]), dict(chars=cc.show(x)), observed=why,
                   required='WhiteSpace and LineTerminator separate tokens (7.2, 7.3); no Unicode version makes them IdentifierPart', replayed=True)
    # no character is an identifier character for the lexer that is not one for Unicode 15, except the three whose category changed
    # since the lexer's table was generated (U+1885, U+1886: letters until Unicode 8; U+19DA: a digit until Unicode 5.1).  Letters the
    # table lacks are allowed: ES5 accepts any Unicode version >= 3.0.
    recategorised = [(0x1885, 0x1886), (0x19da, 0x19da)]
    extra_all = cc.minus(cc.minus(cc.union(start, part), sets['IdentifierPart']), recategorised)
    extra_start = cc.minus(cc.minus(start, sets['IdentifierStart']), recategorised)
    if not extra_all and not extra_start:
        run.discharged('lex.identifier_within_unicode', 'E3/charclass', 'intervals', 0.0)
    else:
        bad_ = extra_start or extra_all
        why = 'the lexer takes %s as identifier %s; Unicode %s does not class them so' % (cc.show(bad_), 'start characters' if extra_start else 'characters', sets['unicode_version'])
        run.failed('lex.identifier_within_unicode', 'E3/charclass', 'U+%04X' % bad_[0][0], dict(chars=cc.show(bad_)), observed=why,
                   required='IdentifierStart / IdentifierPart of 7.6 (categories Lu Ll Lt Lm Lo Nl, $ _, and Mn Mc Nd Pc ZWNJ ZWJ)', replayed=True)
    extra = cc.minus(start, sets['IdentifierStart'])
    run.notes.append('identifier start characters of the lexer outside Unicode %s letters: {%s} (re-categorised since the table was built; '
                     'not an obligation: ES5 allows any Unicode version >= 3.0)' % (sets['unicode_version'], cc.show(extra, 4)))


def main(run, tier):
    g = core.G()
    shapes = core.Shapes(g)
    lexmod = importlib.import_module('calmjs.parse.lexers.es5')
    es5 = importlib.import_module('calmjs.parse.parsers.es5')
    run.explanation = ('decided for all inputs: every action builds the node its ES5 production dictates (kind, which child goes where, '
                       'operator levels = precedence and left associativity, no child dropped), the NoIn / no-brace-or-function families '
                       'mirror the base family, the set of LALR conflicts ply resolves silently is the audited one, numeric literals and '
                       'identifier classes against the lexical grammar; NOT decided: that the LALR automaton recognises exactly the '
                       'language of the grammar -- bounded differential against an independent reference recogniser')
    run.floor = 300
    for f in ('calmjs.parse.parsers.es5', 'calmjs.parse.asttypes', 'calmjs.parse.lexers.es5'):
        run.function(f, scratch.sha256_file(scratch.module_path(f))[:16])
    from . import parsefwd
    parsefwd.add(run, tier)
    from . import lexstate
    lexstate.add(run, tier)
    action_obligations(run, g, shapes)
    family_obligations(run, g)
    conflict_obligations(run)
    lexical_obligations(run, lexmod)
    from . import c03_bounded
    c03_bounded.bounded(run, tier, g, es5)
    run.trust("ply's LALR(1) construction and table-driven driver", 'spec/es5_actions.py (hand transcription of what ES5 dictates per production)',
              'spec/conflicts.json (audited conflict list)')
    run.assume('language equality between the LALR automaton (with conflict resolution) and the grammar is not proved',
               'early errors are not checked; function declarations in statement position are deliberately admitted')


def replay(data):
    print(data.get('case'), data.get('observed'))
    return 1

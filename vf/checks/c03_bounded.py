"""Bounded differential for C03: the real parser against an independent reference recogniser of the ES5 syntactic
grammar (spec/es5_reference.py, written separately from the specification text), on token strings without line
terminators: every sentence generated from the extracted grammar, their single-token mutations, and all short
token strings over a representative alphabet."""
import importlib
import re
import itertools
import random

from .. import gen

ALPHABET = [('ID', 'a'), ('NUMBER', '1'), ('SEMI', ';'), ('LPAREN', '('), ('RPAREN', ')'), ('LBRACE', '{'), ('RBRACE', '}'),
            ('COMMA', ','), ('EQ', '='), ('PLUS', '+'), ('PLUSPLUS', '++'), ('IN', 'in'), ('VAR', 'var'), ('IF', 'if'), ('ELSE', 'else'),
            ('FOR', 'for'), ('FUNCTION', 'function'), ('RETURN', 'return'), ('COLON', ':'), ('PERIOD', '.'), ('LBRACKET', '['),
            ('RBRACKET', ']'), ('NEW', 'new'), ('CONDOP', '?')]
MUTATE = [('ID', 'b'), ('SEMI', ';'), ('LPAREN', '('), ('RPAREN', ')'), ('LBRACE', '{'), ('RBRACE', '}'), ('COMMA', ','), ('IN', 'in'),
          ('PLUS', '+'), ('EQ', '='), ('COLON', ':'), ('FUNCTION', 'function'), ('NUMBER', '2'), ('PERIOD', '.')]


def render(tokens):
    return ' '.join(t for _, t in tokens)


def parser_accepts(es5, tokens):
    try:
        es5.parse(render(tokens))          # the public entry point, called many times in a row in this process
        return True
    except Exception as e:
        if type(e).__name__ in ('ECMASyntaxError', 'ECMARegexSyntaxError'):
            return False
        raise


def signature(tokens, ref, got):
    kinds = [t for t, _ in tokens]
    if 'GETPROP' in kinds or 'SETPROP' in kinds or any(x == 'get' or x == 'set' for _, x in tokens):
        return 'get/set'
    for i, k in enumerate(kinds):
        if k == 'FUNCTION' and i + 1 < len(kinds) and kinds[i + 1] == 'LPAREN' and (i == 0 or kinds[i - 1] in ('SEMI', 'LBRACE', 'RBRACE', 'RPAREN', 'ELSE', 'DO', 'COLON')):
            return 'statement starting with an anonymous function'
    # the same production (member_expr_nobf -> function_expr) with a name: at the start of a statement `function f(){}` is a
    # declaration in ES5, so a `.`, `(` or `[` directly behind its body cannot follow
    for i, k in enumerate(kinds):
        if k == 'FUNCTION' and i + 1 < len(kinds) and kinds[i + 1] == 'ID' and (i == 0 or kinds[i - 1] in ('SEMI', 'LBRACE', 'RBRACE', 'RPAREN', 'ELSE', 'DO', 'COLON')):
            depth, j, seen = 0, i, False
            while j < len(kinds):
                if kinds[j] == 'LBRACE':
                    depth += 1
                    seen = True
                elif kinds[j] == 'RBRACE':
                    depth -= 1
                    if seen and depth == 0:
                        break
                j += 1
            if j + 1 < len(kinds) and kinds[j + 1] in ('PERIOD', 'LPAREN', 'LBRACKET'):
                return 'statement starting with a named function that is accessed or called'
    return 'other'


_M = {}


def _init(src_root):
    from .. import scratch
    scratch.use_existing(src_root)
    _M['es5'] = importlib.import_module('calmjs.parse.parsers.es5')
    _M['ref'] = importlib.import_module('spec.es5_reference')


def _work(chunk):
    out = []
    es5, ref = _M['es5'], _M['ref']
    known = ref.TOKEN_TYPES
    for kind, toks in chunk:
        # a token type the ES5 grammar does not have (a word the implementation treats as a keyword): for ES5 it is an identifier
        rtoks = [(ty, tx) if (ty in known or ty in ('GETPROP', 'SETPROP')) else ('ID' if re.fullmatch(r'[A-Za-z_$][A-Za-z0-9_$]*', tx) else ty, tx) for ty, tx in toks]
        want = ref.accepts(rtoks)
        got = parser_accepts(es5, toks)
        if want != got:
            out.append((kind, toks, want, got))
    return len(chunk), out


def char_level(run, es5):
    """white space / illegal characters at the edges of and inside a text (public entry point)."""
    from .. import charclass
    sets = charclass.es5_sets()
    walkers = importlib.import_module('calmjs.parse.walkers')
    rw = walkers.ReprWalker()
    ws = [chr(cp) for lo, hi in sets['WhiteSpace'] for cp in range(lo, hi + 1)]
    lt = [chr(cp) for lo, hi in sets['LineTerminator'] for cp in range(lo, hi + 1)]
    bad = [chr(cp) for cp in list(range(0, 32)) + list(range(127, 160)) + [0x180e, 0x200b, 0x2060, 0xfffe, 0xffff, 0xe000]
           if chr(cp) not in ws and chr(cp) not in lt]
    base = rw.walk(es5.parse('a;b'))
    n = 0
    for c in ws + lt + bad:
        for where, text in (('leading', c + 'a;b'), ('between tokens', 'a;' + c + 'b'), ('trailing', 'a;b' + c)):
            n += 1
            try:
                got = rw.walk(es5.parse(text))
            except Exception as e:
                if type(e).__name__ not in ('ECMASyntaxError', 'ECMARegexSyntaxError'):
                    raise
                got = None
            want = None if c in bad else base
            if got != want:
                why = '%s U+%04X: %s' % (where, ord(c), 'rejected, but it is ES5 white space / a line terminator' if got is None else
                                         ('accepted, but U+%04X is not a SourceCharacter any ES5 token or separator can contain here' % ord(c)
                                          if want is None else 'read as a different tree'))
                run.failed('rt.grammar.chars', 'E4/bounded', '%s U+%04X' % (where, ord(c)), dict(source=text, problem=why),
                           observed=why, required='white space and line terminators separate tokens and nothing else does', replayed=True)
    # 7.8.5: a regular expression literal may start with any character but * \\ / [ (and line terminators); \\x and [..] are
    # the backslash sequence and class forms
    m = 0
    for cp in range(0x20, 0x7f):
        c = chr(cp)
        lit = '/[' + 'a]/' if c == '[' else '/\\a/' if c == '\\' else None if c in '*/' else '/' + c + 'a/'
        if lit is None:
            continue
        for ctx, tail in (('x = ', ';'), ('s.split(', ');'), ('if (x) ', '.test(y);'), ('{ a; } ', '.test(y);'), ('x = a + ', ';'),
                          ('return_ = typeof ', ';')):
            m += 1
            text = ctx + lit + tail
            try:
                tree = es5.parse(text)
                found = [n.value for n in walkers.Walker().filter(tree, lambda n: type(n).__name__ == 'Regex')]
                why = None if found == [lit] else 'read as %r instead of one regular expression literal %s' % (str(tree), lit)
            except Exception as e:
                if type(e).__name__ not in ('ECMASyntaxError', 'ECMARegexSyntaxError'):
                    raise
                why = 'rejected (%s)' % str(e)[:80]
            if why:
                run.failed('rt.grammar.chars', 'E4/bounded', 'regex %s in %r' % (lit, ctx), dict(source=text, problem=why), observed='%r: %s' % (text, why),
                           required='RegularExpressionFirstChar admits every character but * \\ / [ and line terminators', replayed=True)
    n += m
    run.bounded_check('rt.grammar.chars', 'every ES5 WhiteSpace / LineTerminator code point and %d other control / format code points, '
                      'leading, between two statements and trailing' % len(bad), n)


def bounded(run, tier, g, es5):
    char_level(run, es5)
    import multiprocessing
    from .. import scratch
    ref = importlib.import_module('spec.es5_reference')
    corpus = gen.corpus(g, depth2=True)
    shown = {}

    def report(kind, tokens, want, got):
        src = render(tokens)
        sig = signature(tokens, want, got)
        key = '%s | %s' % ('reference accepts, parser rejects' if want else 'parser accepts, reference rejects', sig)
        cnt = shown.get(key, 0)
        shown[key] = cnt + 1
        if cnt >= 3:
            return
        why = '%s: %r -- the ES5 grammar %s it, the parser %s it' % (kind, src, 'derives' if want else 'does not derive',
                                                                    'accepts' if got else 'rejects')
        run.failed('rt.grammar', 'E4/bounded', '%s | %s' % (key, src), dict(source=src, problem=why), observed=why,
                   required='accepted iff derivable from the ES5 grammar', replayed=True)
    work = [('generated sentence', toks) for _, toks in corpus]
    rnd = random.Random(run.seed)
    step = 8 if tier == 'quick' else 1
    for label, toks in corpus[::step]:
        for i in range(len(toks)):
            for m in (MUTATE if tier == 'thorough' else rnd.sample(MUTATE, 2)):
                work.append(('mutation', toks[:i] + [m] + toks[i + 1:]))
                work.append(('mutation', toks[:i] + [m] + toks[i:]))
            work.append(('mutation', toks[:i] + toks[i + 1:]))
    L = 3 if tier == 'quick' else 4
    alpha = ALPHABET if tier == 'thorough' else ALPHABET[:18]
    for k in range(1, L + 1):
        for t in itertools.product(alpha, repeat=k):
            work.append(('short string', list(t)))
    if tier == 'quick':
        for t in itertools.product(ALPHABET[:9], repeat=4):
            work.append(('short string', list(t)))
    else:
        # length 5 over the 15 most structural token kinds (the full alphabet at length 5 is 8.5 million parses: 50 minutes on 16 idle cores)
        for t in itertools.product(ALPHABET[:15], repeat=5):
            work.append(('short string', list(t)))
    es5.Parser()
    chunks = [work[i:i + 500] for i in range(0, len(work), 500)]
    # the same texts in an order where each follows a text ending in an operand (acceptance must not depend on history)
    rx = [('REGEX', '/x/'), ('PERIOD', '.'), ('ID', 'test'), ('LPAREN', '('), ('ID', 'b'), ('RPAREN', ')'), ('SEMI', ';')]
    enders = [[('ID', 'a')], [('ID', 'f'), ('LPAREN', '('), ('RPAREN', ')')], [('ID', 'i'), ('PLUSPLUS', '++')],
              [('ID', 'x'), ('EQ', '='), ('LBRACKET', '['), ('NUMBER', '1'), ('RBRACKET', ']')], [('ID', 'f'), ('LPAREN', '(')]]
    hist = []
    for e in enders:
        hist += [('after another parse', e), ('after another parse', rx), ('after another parse', [('ID', 'a'), ('RPAREN', ')')])]
    chunks.append(hist)
    n = 0
    fails = []
    ctx = multiprocessing.get_context('fork')
    with ctx.Pool(16, initializer=_init, initargs=(scratch.scratch_src(),)) as pool:
        for cnt, out in pool.imap_unordered(_work, chunks):
            n += cnt
            fails.extend(out)
    fails.sort(key=lambda x: (len(x[1]), render(x[1])))
    for kind, toks, want, got in fails:
        report(kind, toks, want, got)
    run.bounded_check('rt.grammar', '%d generated sentences; single-token substitutions/insertions/deletions of every %s sentence; all token '
                      'strings of length <= %d over %d token kinds%s; oracle = spec/es5_reference.py (independent ES5 recogniser)' % (
                          len(corpus), 'eighth' if tier == 'quick' else '', L, len(alpha), ' and length 4 over 9' if tier == 'quick' else ' and length 5 over 15'), n)

"""Bounded differential for C03: the real parser against an independent reference recogniser of the ES5 syntactic
grammar (spec/es5_reference.py, written separately from the specification text), on token strings without line
terminators: every sentence generated from the extracted grammar, their single-token mutations, and all short
token strings over a representative alphabet."""
import importlib
import itertools
import random

from .. import gen

ALPHABET = [('ID', 'a'), ('NUMBER', '1'), ('SEMI', ';'), ('LPAREN', '('), ('RPAREN', ')'), ('LBRACE', '{'), ('RBRACE', '}'),
            ('COMMA', ','), ('EQ', '='), ('PLUS', '+'), ('PLUSPLUS', '++'), ('IN', 'in'), ('VAR', 'var'), ('IF', 'if'), ('ELSE', 'else'),
            ('FOR', 'for'), ('FUNCTION', 'function'), ('RETURN', 'return'), ('COLON', ':'), ('PERIOD', '.'), ('LBRACKET', '['),
            ('RBRACKET', ']'), ('NEW', 'new'), ('CONDOP', '?')]
MUTATE = [('ID', 'b'), ('SEMI', ';'), ('LPAREN', '('), ('RPAREN', ')'), ('LBRACE', '{'), ('RBRACE', '}'), ('COMMA', ','), ('IN', 'in'),
          ('PLUS', '+'), ('EQ', '='), ('COLON', ':'), ('FUNCTION', 'function'), ('NUMBER', '2'), ('PERIOD', '.')]


def render(tokens):
    return ' '.join(t for _, t in tokens)


def parser_accepts(es5, tokens):
    try:
        es5.Parser().parse(render(tokens))
        return True
    except Exception as e:
        if type(e).__name__ in ('ECMASyntaxError', 'ECMARegexSyntaxError'):
            return False
        raise


def signature(tokens, ref, got):
    kinds = [t for t, _ in tokens]
    if 'GETPROP' in kinds or 'SETPROP' in kinds or any(x == 'get' or x == 'set' for _, x in tokens):
        return 'get/set'
    return 'other'


def bounded(run, tier, g, es5):
    try:
        ref = importlib.import_module('spec.es5_reference')
    except ImportError:
        ref = None
    corpus = gen.corpus(g, depth2=True)
    n = 0
    shown = {}

    def report(kind, tokens, want, got, label=''):
        src = render(tokens)
        sig = signature(tokens, want, got)
        key = '%s | %s | %s' % (kind, 'reference accepts, parser rejects' if want else 'parser accepts, reference rejects', sig)
        cnt = shown.get(key, 0)
        shown[key] = cnt + 1
        if cnt >= 4:
            return
        why = '%s: %r -- the ES5 grammar %s it, the parser %s it %s' % (kind, src, 'derives' if want else 'does not derive',
                                                                       'accepts' if got else 'rejects', label)
        run.failed('rt.grammar', 'E4/bounded', '%s | %s' % (key, src), dict(source=src, problem=why), observed=why,
                   required='accepted iff derivable from the ES5 grammar', replayed=True)
    # (1) every sentence generated from the extracted grammar is accepted, unless the reference says it is not ES5
    for label, toks in corpus:
        n += 1
        got = parser_accepts(es5, toks)
        want = ref.accepts(toks) if ref else True
        if got != want:
            report('generated sentence', toks, want, got)
    if ref is not None:
        # (2) single-token mutations of the sentences
        rnd = random.Random(run.seed)
        step = 6 if tier == 'quick' else 1
        for label, toks in corpus[::step]:
            for i in range(len(toks)):
                for m in (MUTATE if tier == 'thorough' else rnd.sample(MUTATE, 3)):
                    for mut in (toks[:i] + [m] + toks[i + 1:], toks[:i] + toks[i + 1:], toks[:i] + [m] + toks[i:]):
                        n += 1
                        want = ref.accepts(mut)
                        got = parser_accepts(es5, mut)
                        if got != want:
                            report('mutation', mut, want, got)
        # (3) all short token strings
        L = 4 if tier == 'quick' else 5
        alpha = ALPHABET if tier == 'thorough' else ALPHABET[:16]
        for k in range(1, L + 1):
            for t in itertools.product(alpha, repeat=k):
                toks = list(t)
                n += 1
                want = ref.accepts(toks)
                got = parser_accepts(es5, toks)
                if got != want:
                    report('short string', toks, want, got)
    run.bounded_check('rt.grammar', ('%d generated sentences' % len(corpus)) + (
        '; their single-token substitutions/deletions/insertions; all token strings of length <= %d over %d token kinds; oracle = '
        'spec/es5_reference.py' % (4 if tier == 'quick' else 5, 16 if tier == 'quick' else len(ALPHABET)) if ref else
        ' (reference recogniser not available: acceptance only)'), n)

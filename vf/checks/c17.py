"""C17 -- cached-table and freshly built parsers behave identically (DESIGN 4, C17)."""
import glob
import importlib
import os
import re
import sys

from .. import gen, scratch
from ..e1run import verify_functions

LEVEL = 'other'


def lexer_view(p):
    lx = p.lexer.lexer
    view = {}
    view['lexstatere'] = dict((st, [(rx.pattern, [getattr(f, '__name__', f) if not isinstance(f, tuple) else
                                                   (getattr(f[0], '__name__', f[0]), f[1]) for f in names])
                                    for rx, names in lst]) for st, lst in lx.lexstatere.items())
    view['lexstateignore'] = dict(lx.lexstateignore)
    view['lexstateerrorf'] = dict((k, getattr(v, '__name__', v)) for k, v in lx.lexstateerrorf.items())
    view['lextokens'] = sorted(lx.lextokens)
    view['lexstateinfo'] = dict(lx.lexstateinfo)
    view['lexreflags'] = int(lx.lexreflags)
    view['lexliterals'] = lx.lexliterals
    return view


def parser_view(p):
    pr = p.parser
    view = {}
    # states without entries are stored as {} by the table generator and omitted by the table module: same table
    view['action'] = dict((k, dict(v)) for k, v in pr.action.items() if v)
    view['goto'] = dict((k, dict(v)) for k, v in pr.goto.items() if v)
    view['productions'] = [(x.name, x.len, x.str, x.func) for x in pr.productions]
    view['defaulted_states'] = dict(pr.defaulted_states)
    return view


def compare_views(run, label, a, b):
    for comp in sorted(a):
        name = 'tables.%s[%s]' % (comp, label)
        if a[comp] == b[comp]:
            size = len(a[comp]) if hasattr(a[comp], '__len__') else 1
            run.discharged(name, 'E2/tables', 'exec', 0.0, detail='%s: %d entries equal' % (comp, size) if comp in ('action', 'lexstatere') else None)
        else:
            diff = ''
            if isinstance(a[comp], dict):
                ks = [k for k in set(a[comp]) | set(b[comp]) if a[comp].get(k) != b[comp].get(k)]
                diff = 'first differing key %r: %r vs %r' % (ks[0], str(a[comp].get(ks[0]))[:120], str(b[comp].get(ks[0]))[:120])
            else:
                diff = '%r vs %r' % (str(a[comp])[:150], str(b[comp])[:150])
            run.failed(name, 'E2/tables', comp, dict(component=comp, pair=label, difference=diff), observed=diff,
                       required='identical lexer/LALR tables', replayed=True)


def partial_first_build(run, es5, optimize, pdir, fresh):
    """first-build helper with one generated module missing and the other left over from older sources"""
    lexfile = os.path.join(pdir, es5.lextab.rsplit('.', 1)[1] + '.py')
    yaccfile = os.path.join(pdir, es5.yacctab.rsplit('.', 1)[1] + '.py')
    for stale, missing, edit in ((lexfile, yaccfile, lambda t: t.replace('0[0-7]+', '0[0-6]+')),
                                 (yaccfile, lexfile, lambda t: re.sub(r"_lr_method = 'LALR'", "_lr_method = 'LALR'\n_vf_tampered = True", t))):
        label = 'stale %s, missing %s' % (os.path.basename(stale).split('_')[0], os.path.basename(missing).split('_')[0])
        with open(stale) as fd:
            text = fd.read()
        with open(stale, 'w') as fd:
            fd.write(edit(text))
        os.unlink(missing)
        for f in glob.glob(os.path.join(pdir, '__pycache__', '*tab_*')):
            os.unlink(f)
        for m in (es5.lextab, es5.yacctab):
            sys.modules.pop(m, None)
        importlib.invalidate_caches()
        try:
            optimize.optimize_build('calmjs.parse.parsers.es5')
            err = None
        except Exception as e:
            err = e
        name = 'tables.first_build[%s]' % label
        if err is not None:
            run.failed(name, 'E2/tables', 'raised', dict(error=repr(err)), observed=repr(err), required='the first-build helper regenerates the modules', replayed=True)
            es5.Parser()
            continue
        for m in (es5.lextab, es5.yacctab):
            sys.modules.pop(m, None)
        importlib.invalidate_caches()
        regen = es5.Parser()
        compare_views(run, 'first build (%s) vs in-memory' % label, dict(lexer_view(regen), **parser_view(regen)),
                      dict(lexer_view(fresh), **parser_view(fresh)))
        run.discharged(name, 'E2/tables', 'exec', 0.0)


def c_locale_rebuild(run, es5, pdir, fresh):
    """the maintenance entry point (python -m calmjs.parse.parsers.optimize) under a non-UTF-8 locale"""
    import subprocess
    env = dict(os.environ, LC_ALL='C', LANG='C', PYTHONUTF8='0', PYTHONCOERCECLOCALE='0', PYTHONPATH=scratch.scratch_src())
    env.pop('PYTHONIOENCODING', None)
    # the entry point itself (what setup.py's build hook and the documentation run), not a call of the function it is expected to make
    p = subprocess.run([sys.executable, '-m', 'calmjs.parse.parsers.optimize'], env=env, stdout=subprocess.PIPE, stderr=subprocess.PIPE, universal_newlines=True)
    for m in (es5.lextab, es5.yacctab):
        sys.modules.pop(m, None)
    importlib.invalidate_caches()
    name = 'tables.reoptimize_all[C locale]'
    try:
        if p.returncode != 0:
            raise RuntimeError('helper exited %d: %s' % (p.returncode, p.stderr.strip().splitlines()[-1:] or ''))
        left = sorted(os.path.basename(x) for x in glob.glob(os.path.join(pdir, '*tab_*.py')))
        want_files = sorted(m.rsplit('.', 1)[1] + '.py' for m in (es5.lextab, es5.yacctab))
        if not set(want_files) <= set(left):
            raise RuntimeError('the helper, run in a fresh process, leaves the modules %r; the parser loads %r' % (left, want_files))
        regen = es5.Parser()
        compare_views(run, 'rebuilt under LC_ALL=C vs in-memory', dict(lexer_view(regen), **parser_view(regen)),
                      dict(lexer_view(fresh), **parser_view(fresh)))
        run.discharged(name, 'E2/tables', 'exec', 0.0)
    except Exception as e:
        run.failed(name, 'E2/tables', 'LC_ALL=C', dict(error=repr(e)[:300]), observed='after python -m ...optimize under LC_ALL=C: %r' % (e,),
                   required='the helper writes the modules as UTF-8 whatever the locale, and they drive identical parses', replayed=True)
        for f_ in glob.glob(os.path.join(pdir, '*tab_*.py')):
            os.unlink(f_)
        for m in (es5.lextab, es5.yacctab):
            sys.modules.pop(m, None)
        importlib.invalidate_caches()
        es5.Parser()


def main(run, tier):
    es5 = importlib.import_module('calmjs.parse.parsers.es5')
    optimize = importlib.import_module('calmjs.parse.parsers.optimize')
    walkers = importlib.import_module('calmjs.parse.walkers')
    utils = importlib.import_module('calmjs.parse.utils')
    run.explanation = ('entry-by-entry equality of the finite artefacts that drive a parse (master regexes, token tables, LALR action/goto '
                       'tables, productions) between {tables loaded from the generated modules, tables built in memory with '
                       'optimisation off, modules regenerated by the optimize helper after tampering}; flag forwarding of '
                       'Parser.__init__/Parser.parse proved on the real AST; "equal tables => equal parses" is ply determinism (assumed)')
    run.floor = 30
    for f in ('calmjs.parse.parsers.es5', 'calmjs.parse.parsers.optimize', 'calmjs.parse.utils', 'calmjs.parse.lexers.es5'):
        run.function(f, scratch.sha256_file(scratch.module_path(f))[:16])
    pdir = os.path.dirname(scratch.module_path('calmjs.parse.parsers.es5'))
    es5.Parser()                                   # writes the table modules (first build)
    for m in (es5.lextab, es5.yacctab):
        sys.modules.pop(m, None)
    cached = es5.Parser()                          # now loaded from the generated modules
    tabs = sorted(os.path.basename(x) for x in glob.glob(os.path.join(pdir, '*tab_*.py')))
    if len(tabs) < 2:
        run.failed('tables.generated_modules_exist', 'E2/tables', 'missing', dict(found=tabs), observed=repr(tabs),
                   required='optimised construction writes lextab_* and yacctab_* modules', replayed=True)
    else:
        run.discharged('tables.generated_modules_exist', 'E2/tables', 'exec', 0.0, detail=tabs)
    try:
        fresh = es5.Parser(lex_optimize=False, yacc_optimize=False, lextab='calmjs.parse.parsers.vf_lextab_inmem',
                           yacctab='calmjs.parse.parsers.vf_yacctab_inmem')
        run.discharged('tables.in_memory_parser_builds', 'E2/tables', 'exec', 0.0)
    except BaseException as e:
        why = 'Parser(lex_optimize=False, yacc_optimize=False) cannot be built: %s: %s' % (type(e).__name__, str(e)[:200])
        run.failed('tables.in_memory_parser_builds', 'E2/tables', 'construct', dict(error=repr(e)[:300]), observed=why,
                   required='the parser gives the same result with optimisation disabled (ply validates rules and tokens only in that mode)', replayed=True)
        return
    compare_views(run, 'cached vs in-memory', dict(lexer_view(cached), **parser_view(cached)), dict(lexer_view(fresh), **parser_view(fresh)))
    # stale modules: tamper the generated lextab and yacctab, regenerate with the helper from unchanged sources
    lexfile = os.path.join(pdir, es5.lextab.rsplit('.', 1)[1] + '.py')
    yaccfile = os.path.join(pdir, es5.yacctab.rsplit('.', 1)[1] + '.py')
    with open(lexfile) as fd:
        lt = fd.read()
    with open(lexfile, 'w') as fd:
        fd.write(lt.replace('0[0-7]+', '0[0-6]+').replace("'SEMI'", "'SEMI'", 1))
    with open(yaccfile) as fd:
        yt = fd.read()
    with open(yaccfile, 'w') as fd:
        fd.write(re.sub(r"_lr_method = 'LALR'", "_lr_method = 'LALR'\n_vf_tampered = True", yt))
    for f in glob.glob(os.path.join(pdir, '__pycache__', '*tab_*')):
        os.unlink(f)
    try:
        optimize.reoptimize(es5)
        err = None
    except Exception as e:
        err = e
    if err is not None:
        run.failed('tables.reoptimize_runs', 'E2/tables', 'raised', dict(error=repr(err)), observed=repr(err),
                   required='the optimize helper regenerates the modules', replayed=True)
    else:
        run.discharged('tables.reoptimize_runs', 'E2/tables', 'exec', 0.0)
        for m in (es5.lextab, es5.yacctab):
            sys.modules.pop(m, None)
        regen = es5.Parser()
        compare_views(run, 'regenerated vs in-memory', dict(lexer_view(regen), **parser_view(regen)),
                      dict(lexer_view(fresh), **parser_view(fresh)))
        with open(yaccfile) as fd:
            still = '_vf_tampered' in fd.read()
        if still:
            run.failed('tables.reoptimize_purges_yacctab', 'E2/tables', 'stale', dict(file=yaccfile), observed='tampered yacctab survived reoptimize',
                       required='regenerated from sources', replayed=True)
        else:
            run.discharged('tables.reoptimize_purges_yacctab', 'E2/tables', 'exec', 0.0)
    # tab names: pure function of the module name
    a, b = utils.generate_tab_names('calmjs.parse.parsers.es5'), utils.generate_tab_names('calmjs.parse.parsers.es5')
    ok = a == b and a == (es5.lextab, es5.yacctab) and all(n.startswith('calmjs.parse.parsers.') for n in a)
    (run.discharged if ok else (lambda *x, **k: run.failed('names.generate_tab_names', 'E2/tables', 'names', dict(got=a),
                                                             observed=repr(a), required='stable names used by Parser and by the helper', replayed=True)))(
        'names.generate_tab_names', 'E2/tables', 'exec', 0.0)
    # the names: the version part is that of the installed ply whenever it is known (only then do helper and parser agree on the files)
    saved_dist = utils.ply_dist
    try:
        for dist in (None, '3.11', '3.8'):
            for assumed in ('unknown', '3.10', '3.11'):
                utils.ply_dist = None if dist is None else utils._Distribution('ply', dist)
                got = utils.generate_tab_names('calmjs.parse.parsers.es5', _version=assumed) if assumed != 'unknown' else utils.generate_tab_names('calmjs.parse.parsers.es5')
                ver = (dist if dist is not None else assumed).replace('.', '_')
                want = tuple('calmjs.parse.parsers.%s_es5_py%d_ply%s' % (t, sys.version_info.major, ver) for t in ('lextab', 'yacctab'))
                nm = 'names.generate_tab_names[installed ply %s, assumed %s]' % (dist, assumed)
                if tuple(got) == want:
                    run.discharged(nm, 'E2/tables', 'exec', 0.0)
                else:
                    run.failed(nm, 'E2/tables', 'names', dict(got=got, want=want), observed='%r, the parser loads %r' % (got, want),
                               required='the installed ply version names the modules; an assumed version only stands in when none is installed', replayed=True)
    finally:
        utils.ply_dist = saved_dist
    # ---- E1: flags forwarded unchanged
    import contracts.parser_init as cp
    cs, lemmas, env = cp.build(es5)
    verify_functions(run, cs, {}, {}, tier=tier)
    import contracts.optimize as co
    ocs, _, _ = co.build(optimize)
    verify_functions(run, ocs + co.build_all(optimize) + co.build_validate(optimize) + co.build_unlink(optimize), {}, {}, tier=tier)
    partial_first_build(run, es5, optimize, pdir, fresh)
    c_locale_rebuild(run, es5, pdir, fresh)
    # ---- bounded: differential parse under the three configurations
    from ..tables import core
    g = core.G()
    corpus = gen.corpus(g, depth2=(tier == 'thorough'))
    progs = [gen.render(t, ' ') for _, t in corpus] + [gen.render(t, '\n') for _, t in corpus[::4]] + list(gen.EXTRA_PROGRAMS)
    progs += ['x = 017;', 'a = /re/g;', 'var = ;', '"abc', 'a\n++b', '#!/usr/bin/env node\nvar a = 1;\n', '#! x', '@', 'a # b', '\\u0061 = 1', '/* open', "'open"]
    rw = walkers.ReprWalker()
    n = nfail = 0

    def out(mk, src, wc):
        try:
            return ('tree', rw.walk(mk(wc).parse(src), pos=True))
        except Exception as e:
            return ('error', type(e).__name__, str(e))
    cfg = {
        'cached': lambda wc: es5.Parser(with_comments=wc),
        'in-memory': lambda wc: es5.Parser(lex_optimize=False, yacc_optimize=False, with_comments=wc,
                                           lextab='calmjs.parse.parsers.vf_lextab_inmem', yacctab='calmjs.parse.parsers.vf_yacctab_inmem'),
    }
    for src in progs:
        for wc in (False, True):
            n += 1
            r = dict((k, out(mk, src, wc)) for k, mk in cfg.items())
            if r['cached'] != r['in-memory']:
                nfail += 1
                if nfail <= 8:
                    why = 'cached-table parser: %s...; in-memory parser: %s...' % (str(r['cached'])[:120], str(r['in-memory'])[:120])
                    run.failed('rt.differential', 'E4/bounded', src, dict(source=src, with_comments=wc, problem=why), observed=why,
                               required='same result (tree with positions, or error) under both configurations', replayed=True)
    run.bounded_check('rt.differential', 'generated program per production (+ nestings in thorough) x comment capture, parsed with '
                      'module-loaded (regenerated) and in-memory tables, trees compared with positions', n)
    run.trust('ply driver determinism: equal tables and equal action functions => equal parses for every text',
              'ply.lex/ply.yacc table (de)serialisation')
    run.assume('setup.py build hook (optimize_build at install time) is not exercised')


def replay(data):
    print(data.get('case'), data.get('observed'))
    return 1

"""C02 -- minified output parses back to the same program; no token fusion (DESIGN 4, C02)."""
import importlib
import multiprocessing

from ..tables import core
from .. import roundtrip, scratch

LEVEL = 'other'

_M = {}


def _init(src_root):
    scratch.use_existing(src_root)
    _M['es5'] = importlib.import_module('calmjs.parse.parsers.es5')
    _M['unparsers'] = importlib.import_module('calmjs.parse.unparsers.es5')
    _M['asttypes'] = importlib.import_module('calmjs.parse.asttypes')


def check_program(src):
    """-> list of (config, problem)"""
    es5, unparsers, asttypes = _M['es5'], _M['unparsers'], _M['asttypes']
    try:
        tree = es5.parse(src)                # the public entry point, many times in a row in this process
    except Exception:
        return None
    out = []
    for drop in (False, True):
        cfg = 'drop_semi=%s' % drop
        try:
            text = unparsers.minify_print(tree, drop_semi=drop)
        except Exception as e:
            out.append((cfg, 'PRINT-RAISED minify_print raised %r' % (e,), None, 'PRINT-RAISED'))
            continue
        try:
            t2 = es5.parse(text)
        except Exception as e:
            out.append((cfg, 'REJECTED %r minifies to %r which does not parse: %s' % (src, text, str(e)[:80]), text, diagnose(tree, drop)))
            continue
        a = roundtrip.norm(asttypes, tree, strip_cont=True, drop_empty=drop)
        b = roundtrip.norm(asttypes, t2, strip_cont=True, drop_empty=drop)
        if a != b:
            out.append((cfg, 'DIFFERENT %r minifies to %r which parses to a different tree' % (src, text), text, diagnose(tree, drop)))
    return out


def char_class(c):
    import unicodedata
    if not c:
        return 'none'
    if c.isascii() and (c.isalnum() or c == '_'):
        return 'digit' if c.isdigit() else 'ascii-word'
    if c == '$':
        return '$'
    cat = unicodedata.category(c)
    if cat in ('Lu', 'Ll', 'Lt', 'Lm', 'Lo', 'Nl'):
        return 'non-ascii-letter'
    if cat in ('Mn', 'Mc'):
        return 'combining-mark'
    if cat == 'Nd':
        return 'non-ascii-digit'
    if cat == 'Pc':
        return 'connector'
    return repr(c)


def lex_types(text):
    lexmod = importlib.import_module('calmjs.parse.lexers.es5')
    lx = lexmod.Lexer()
    lx.input(text)
    out = []
    try:
        while True:
            t = lx.token()
            if not t:
                break
            out.append((t.type, t.value))
    except Exception:
        out.append(('ERROR', ''))
    return out


def diagnose(tree, drop):
    """signature of the first pair of fragments printed without a separator whose concatenation lexes differently, else
    of the dropped semicolon"""
    unparsers = _M['unparsers']
    frags = [f.text for f in unparsers.minify_printer(drop_semi=drop)(tree)]
    for x, y in zip(frags, frags[1:]):
        if not x.strip() or not y.strip():
            continue
        a, b, ab = lex_types(x), lex_types(y), lex_types(x + y)
        if ('ERROR', '') in a or ('ERROR', '') in b:
            continue          # a fragment that does not lex on its own (e.g. a lone `)`): not a fusion candidate
        if ab != a + b:
            return 'FUSE %s[%s] + [%s]%s' % (a[-1][0] if a else '?', char_class(x[-1:]), char_class(y[:1]), b[0][0] if b else '?')
    # `get` / `set` printed as a plain identifier with exactly one blank and an identifier-like word behind it: the lexer's accessor
    # look-ahead types it GETPROP / SETPROP
    words = [f for f in frags if f.strip()]
    for x, y in zip(words, words[1:]):
        if x in ('get', 'set') and lex_types(x + ' ' + y)[:1] and lex_types(x + ' ' + y)[0][0] in ('GETPROP', 'SETPROP'):
            return 'ACCESSOR-LOOKAHEAD %s + %s' % (x, (lex_types(y) or [('?', '')])[0][0])
    if drop:
        full = [f.text for f in unparsers.minify_printer(drop_semi=False)(tree) if f.text.strip()]
        part = [f for f in frags if f.strip()]
        i = 0
        while i < len(part) and i < len(full) and part[i] == full[i]:
            i += 1
        if i < len(full) and full[i] == ';':
            prev = full[i - 1] if i else ''
            nxt = full[i + 1] if i + 1 < len(full) else 'END'
            owner = 'statement'
            if prev == ')':
                depth, j = 0, i - 1
                while j >= 0:
                    if full[j] == ')':
                        depth += 1
                    elif full[j] == '(':
                        depth -= 1
                        if depth == 0:
                            break
                    j -= 1
                kw = full[j - 1] if j > 0 else '?'
                if kw == 'for' and 'in' in full[j:i] and ';' not in full[j:i]:
                    kw = 'for-in'
                owner = 'empty body of %s' % kw if kw in ('while', 'for', 'for-in', 'if', 'with') else 'after )'
                if kw == 'while' and j >= 2:
                    # do ... while (x);  -- the semicolon terminates the do-while, it is not a body
                    d2, q = 0, j - 2
                    while q >= 0:
                        if full[q] == 'do' and d2 == 0:
                            owner = 'terminator of do-while'
                            break
                        q -= 1
            elif prev in ('else', 'do'):
                owner = 'empty body of %s' % prev
            elif prev == ':':
                owner = 'empty statement after :'
            if nxt == '{':
                # a block follows: does anything but braces and semicolons follow before the enclosing block (or the text) ends?
                depth_, q_ = 0, i + 1
                while q_ < len(full) and full[q_] in '{};' and (full[q_] != '}' or depth_ > 0):
                    depth_ += {'{': 1, '}': -1}.get(full[q_], 0)
                    q_ += 1
                if q_ >= len(full) or (full[q_] == '}' and depth_ == 0):
                    return 'SEMI-DROPPED %s before a block without any text token' % owner
            return 'SEMI-DROPPED %s before %r' % (owner, nxt if nxt in ('}', 'END', 'else', 'while') else 'token')
    return 'OTHER'


def _work(chunk):
    return [(s, check_program(s)) for s in chunk]


def classify(src, text, why):
    """a stable case key: the kind of failure + the adjacent token pair / construct where the texts first diverge"""
    kind = why.split(' ')[0]
    return kind


def main(run, tier):
    g = core.G()
    run.explanation = ('bounded stand-in: generated program per production and nesting, with token-text variations (non-ASCII / $ / '
                       'combining-mark identifiers, all numeric spellings, strings with continuations, regexes) and hand-written '
                       'fusion candidates, minified with and without semicolon dropping, re-parsed and compared structurally; the '
                       'per-production print obligations (E2) decide token order/presence for all programs')
    for f in ('calmjs.parse.rules', 'calmjs.parse.handlers.core', 'calmjs.parse.unparsers.es5', 'calmjs.parse.unparsers.walker',
              'calmjs.parse.ruletypes'):
        run.function(f, scratch.sha256_file(scratch.module_path(f))[:16])
    run.floor = 300
    from . import printfwd
    printfwd.add(run, tier)
    # ---- E2: what is printed for each production (order and presence of its tokens and children)
    from . import printobl
    printobl.print_obligations(run, g, ('minify', 'minify+drop_semi'))
    printobl.print_obligations(run, g, ('minify', 'minify+drop_semi'), commented=True)
    from . import sepobl
    sepobl.sep_obligations(run, g, ('minify', 'minify+drop_semi'))
    from . import parsefwd
    parsefwd.add(run, tier)
    # ---- the pattern the minifier strips line continuations with = the ES5 LineContinuation, on all short escape soups
    import itertools
    import re as _re
    from spec import es5_lexical
    lexmod = importlib.import_module('calmjs.parse.lexers.es5')
    patt = lexmod.PATT_LINE_CONTINUATION
    alpha = ['\\', '\n', '\r', '\u2028', 'a']
    bad_lc = None
    n_lc = 0
    for L in range(0, 7):
        for t in itertools.product(alpha, repeat=L):
            body = ''.join(t)
            # only bodies that can be inside a string literal: no raw line terminator unless it follows an unescaped backslash
            stripped = es5_lexical.strip_line_continuations(body)
            if any(c in stripped.replace('\\\\', '') for c in '\n\r\u2028') or stripped.replace('\\\\', '').endswith('\\'):
                continue
            n_lc += 1
            if patt.sub('', body) != stripped and (bad_lc is None or len(body) < len(bad_lc)):
                bad_lc = body
    if bad_lc is None:
        run.discharged('lex.line_continuation_pattern', 'E3/charclass', 'exhaustive', 0.0, detail='%d string bodies of length <= 6 over %r' % (n_lc, alpha))
    else:
        why = 'PATT_LINE_CONTINUATION turns the string body %r into %r; removing the LineContinuations gives %r' % (
            bad_lc, patt.sub('', bad_lc), es5_lexical.strip_line_continuations(bad_lc))
        run.failed('lex.line_continuation_pattern', 'E3/charclass', bad_lc, dict(body=bad_lc), observed=why,
                   required='only backslash + LineTerminatorSequence is removed (7.8.4); every other character of the literal stays', replayed=True)
    # ---- E2 (depth 2): which statement terminators survive drop_semi, per statement production x context
    from . import semiobl
    from ..tables import printing as _printing
    semiobl.semi_obligations(run, g, core.Shapes(g), _printing.Printing(g))
    # ---- bounded round trip
    importlib.import_module('calmjs.parse.parsers.es5').Parser()
    progs = roundtrip.programs(g, tier)
    chunks = [progs[i:i + 100] for i in range(0, len(progs), 100)]
    ctx = multiprocessing.get_context('fork')
    n = ok = 0
    fails = []
    with ctx.Pool(16, initializer=_init, initargs=(scratch.scratch_src(),)) as pool:
        for res in pool.imap_unordered(_work, chunks):
            for src, out in res:
                n += 1
                if out is None:
                    continue
                ok += 1
                for cfg, why, text, sig in out:
                    fails.append((src, cfg, why, text, sig))
    fails.sort(key=lambda x: (len(x[0]), x[0]))
    shown = 0
    sigs = {}
    for src, cfg, why, text, sig in fails:
        key = '%s | %s' % (sig, 'drop_semi' if ('True' in cfg and sig.startswith('SEMI')) else 'any')
        if key in sigs:
            continue
        sigs[key] = src
        res = run.failed('rt.minify', 'E4/bounded', key, dict(source=src, config=cfg, minified=text, problem=why),
                         observed=why, required='minified text parses back to the same program', replayed=True)
        if res == 'violation':
            shown += 1
            if shown >= 12:
                break
    run.bounded_check('rt.minify', 'one program per production and per depth-2 nesting x token-text variations + %d hand-written fusion '
                      'candidates, x drop_semi off/on' % len(roundtrip.HAND), n, ok)
    # trees that carry captured comments: the minifier prints no comments, the program must survive unchanged
    es5 = importlib.import_module('calmjs.parse.parsers.es5')
    unp = importlib.import_module('calmjs.parse.unparsers.es5')
    at = importlib.import_module('calmjs.parse.asttypes')
    commented = ['// note\nx = 1;\ny = 2;', 'function f() {\n // why\n return 1;\n}', 'x = /* a */ 1 + /* b */ 2; // end\n', '/* header */\nvar a = {b: 1 /* c */};',
                 'if (a) { // x\n b; } else /* y */ c;', 'switch (a) { // s\n case 1: /* k */ b; }', 'a; // one\n// two\nb;\n/* tail */']
    m = 0
    for src in commented:
        want = roundtrip.norm(at, es5.Parser().parse(src), strip_cont=True, drop_empty=True)
        for ds in (False, True):
            m += 1
            text = unp.minify_print(es5.Parser(with_comments=True).parse(src), drop_semi=ds)
            try:
                got = roundtrip.norm(at, es5.Parser().parse(text), strip_cont=True, drop_empty=True)
                why = None if got == want else 'reads back as a different program'
            except Exception as e:
                why = 'does not parse: %s' % str(e)[:60]
            if why:
                why = 'tree parsed with comment capture, minified (drop_semi=%s) to %r: %s' % (ds, text, why)
                run.failed('rt.minify.comments', 'E4/bounded', '%s | drop_semi=%s' % (src[:30], ds), dict(source=src, minified=text, problem=why), observed=why,
                           required='minified text parses back to the same program, with or without captured comments in the tree', replayed=True)
    run.bounded_check('rt.minify.comments', '%d commented programs parsed with capture x drop_semi off/on' % len(commented), m)
    run.trust('parser determinism (same token sequence => same tree)', 'C03/C04 (this parser stands in for "any conforming ES5 parser")')
    run.assume('"any conforming ES5 parser" is not decidable here: no second parser exists in the sandbox; the token-level argument '
               '(same tokens up to licensed normalisations) carries it, together with the adjacency obligations O-sep (every adjacency of every '
               'production against the FIRST / LAST token classes of the grammar; open classes through a fixed set of representative spellings, '
               'other spellings bounded)')


def replay(data):
    _init(scratch.scratch_src())
    w = data.get('witness') or {}
    if 'source' in w:
        r = check_program(w['source'])
        print(repr(w['source']), r)
        return 1 if r else 0
    print(data.get('observed'))
    return 1

"""C07 -- name obfuscation is a consistent, capture-free renaming (DESIGN 4, C07)."""
import importlib
import itertools

from .. import scratch
from spec import scopes, es5_lexical

LEVEL = 'other'

PROGRAMS = [
    # hoisting seen from an inner scope that closes first: the nearer declaration comes later in the text than the use, an outer one earlier
    'var value = 100; function middle(other) { function inner() { return value + other; } var value = other + 1; return inner; }',
    'var v = 1; function f(p) { try { g(); } catch (e) { h(v, p); } var v = p; return v; }',
    'function outer(n) { var k = 1; return function () { return function () { return k + later + n; }; var later = 2; }; }',
    'var a = 1; function f(b) { var c = a + b; return function () { return c + d; }; }',
    'function f(x, y) { var z = x + y; function g(q) { return q + z + x; } return g(z); } f(1, 2);',
    'function run(t, c) { try { t(); } catch (taskError) { try { c(); } catch (cleanupError) { report(taskError, cleanupError); } } }',
    'function f() { try { a(); } catch (e) { var e = 2; var v = e; } return [e, v]; }',
    'function f() { try { a(); } catch (e) { (function () { return e; })(); } }',
    'function f() { try { a(); } catch (e) { var w = 1; } return w; }',
    'var g = function h() { return h; }; function k() { var h = 1; return g + h; }',
    'function outer() { var inner = function inner2(n) { return n ? inner2(n - 1) : inner; }; return inner(3); }',
    'function f(a) { return function (b) { return function (c) { return a + b + c + free1; }; }; }',
    'function f() { var x = {x: 1, y: x, get z() { return x; }, set z(v) { x = v; }}; return x.x + x.y; }',
    'function f() { l: for (var l = 0; l < 3; l++) { continue l; } return l; }',
    'function f(a) { var a; function a2() { } var b = function () { var a = b; return a; }; return a + a2 + b; }',
    'function f() { return typeof undeclared + window.x + this.y; }',
    'function f(arguments2, b) { return arguments + arguments2 + b; }',
    'var top1 = 1, top2 = function (p) { return p + top1; }; function top3() { return top2(top1); }',
    'function f() { for (var k in o) { var v = o[k]; } return k + v; }',
    'function f() { switch (a) { case 1: var s = 1; break; default: s = 2; } return s; }',
    'function a() { function b() { function c() { return a + b + c; } return c; } return b; }',
    '(function () { var x = 1; (function () { var y = x; (function () { var z = y + x; })(); })(); })();',
    'function f(do1, if1, in1) { var new1 = do1 + if1 + in1; return new1; }',
    # one spelling free in one function and bound in another / in a sibling
    'function f() { return a; } function g(a, b) { return a - b; }',
    'function f() { for (i = 0; i < 3; i++) { } } function g() { for (var i = 0, j = 1; i < j; i++) { } return i + j; }',
    'function f(a) { return function () { return b + a; }; } function g(b) { var a = b; return a; } x = a + b;',
    'function f() { try { } catch (e) { } return e; } function g(e, f) { try { } catch (f) { return e + f; } }',
    'function f() { function a() { return b; } var b; return a; } function g() { return a + b; }',
    # functions with parameters and locals written directly inside a catch block; labels that share a spelling with a variable
    'function run(items, cb) { var count = 0; try { go(); } catch (err) { items.forEach(function (a, b) { var c = a; cb(a, b, err, count, items, c); }); } }',
    'function t() { try { } catch (e) { return function (x, y) { return function (z) { return x + y + z + e + t; }; }; } }',
    'function poll(queue) { ready: while (queue.length) { if (ready) break ready; queue.pop(); } }',
    'function s(a) { var b = "one \\\ntwo" + a; return b + \'x\\\r\\ny\'; }',
    'function o() { var done = 0; function i() { done: for (;;) { done = 1; continue done; } } return i; }',
    # the name of a named function expression is bound inside that function only (ES5 13): the same spelling outside it is another variable
    'var f = 1; function outer() { var g = function f() { return f; }; return f; }',
    'function outer() { var g = function inner() { return inner; }; return [g, inner]; }',
    'function outer(cb) { cb(function again(n) { return n ? again(n - 1) : 0; }); var again = 2; return again; }',
    # a catch clause directly at program level: the short names it may take must avoid the (unrenamed) top-level names used inside it
    'var a = load(); try { a.run(); } catch (err) { report(a, err); }',
    'var a = 1, b = 2; try { go(a); } catch (e1) { (function () { return [a, b, e1]; })(); }',
    'var c = 0, a = 1; try { x(); } catch (first) { try { y(); } catch (second) { z(a, c, first, second); } }',
]


def many_names(n):
    names = ['v%d' % i for i in range(n)]
    # a flat argument list: a 3000-term sum would nest 3000 deep and hit Python's recursion limit in the unparser (a resource limit of
    # the library, not a renaming question)
    body = 'var ' + ', '.join('%s = %d' % (x, i) for i, x in enumerate(names)) + '; return use(' + ', '.join(names) + ', outside);'
    return 'function big() { %s }' % body


def many_names_catch(n):
    """as many_names, with a catch clause in the same scope: the catch parameter's name comes from a generator of its own"""
    names = ['w%d' % i for i in range(n)]
    body = 'var ' + ', '.join('%s = %d' % (x, i) for i, x in enumerate(names)) + '; try { risky(); } catch (problem) { report(problem, ' + ', '.join(names) + '); }'
    return 'function big() { %s }' % body


def short_among_many(n):
    """many frequently used locals plus single-letter ones used once (so they come last in the renaming order)"""
    names = ['y%02d' % i for i in range(n)]
    body = 'var ' + ', '.join('%s = %d' % (x, i) for i, x in enumerate(names)) + '; var q = x; '
    body += 'return ' + ' + '.join('%s * %s' % (x, x) for x in names) + ' + q + z;'
    return 'function total(x, z) { %s }' % body


def nested_many(n):
    names = ['w%d' % i for i in range(n)]
    return ('function outer(p) { var ' + ', '.join(names) + '; return function inner(q) { var r = q + p; return r + '
            + ' + '.join(names[::7]) + '; }; }')


def idents(lexmod, text):
    lx = lexmod.Lexer()
    lx.input(text)
    out = []
    while True:
        t = lx.token()
        if not t:
            break
        out.append((t.type, t.value))
    return out


def check(mods, src, cfg_name, mk_printer, globals_flag, printer=None):
    es5, unparsers, lexmod, rules = mods
    tree = es5.Parser().parse(src)
    plain_printer, obf_printer = mk_printer(False), (printer or mk_printer(True))
    plain = ''.join(f.text for f in plain_printer(tree))
    obf = ''.join(f.text for f in obf_printer(tree))
    probs = []
    try:
        t2 = es5.Parser().parse(obf)
    except Exception as e:
        return ['obfuscated output does not parse: %s | %r' % (str(e)[:80], obf[:120])]
    ta, tb = idents(lexmod, plain), idents(lexmod, obf)
    if len(ta) != len(tb) or any(x[0] != y[0] or (x[0] != 'ID' and x[1] != y[1]) for x, y in zip(ta, tb)):
        # a generated name that is a keyword changes the token type: reported below too
        probs.append('obfuscated output differs from the plain output of the same printer in more than identifier spellings')
    for ty, val in tb:
        if ty == 'ID' and val in es5_lexical.RESERVED_WORDS:
            probs.append('generated name %r is a reserved word' % val)
    b1, top1 = scopes.binding(tree)
    b2, top2 = scopes.binding(t2)
    if scopes.canonical(b1) != scopes.canonical(b2):
        k = next((i for i, (x, y) in enumerate(zip(scopes.canonical(b1), scopes.canonical(b2))) if x != y), None)
        probs.append('binding structure changes at identifier occurrence #%s (%r -> %r): %r' % (
            k, b1[k][0] if k is not None and k < len(b1) else '?', b2[k][0] if k is not None and k < len(b2) else '?', obf[:140]))
    else:
        for (s1, bind1), (s2, bind2) in zip(b1, b2):
            if bind1 == 'free' and s1 != s2:
                probs.append('free name %r renamed to %r' % (s1, s2))
            if bind1 not in ('free', 'label') and not globals_flag and bind1[0] == top1.id and s1 != s2:
                probs.append('top-level name %r renamed to %r although obfuscate_globals is off' % (s1, s2))
    # property names
    def props(t):
        out = []
        stack = [t]
        while stack:
            n = stack.pop()
            if isinstance(n, list):
                stack.extend(n)
            elif hasattr(n, 'children'):
                if type(n).__name__ == 'PropIdentifier':
                    out.append(n.value)
                stack.extend(v for k, v in vars(n).items() if k not in ('_token_map', 'comments'))
        return sorted(out)
    if props(tree) != props(t2):
        probs.append('a property name was renamed')
    return probs


def name_generator_obligation(run, obfmod, lexmod, tier):
    """bounded prefix of the infinite generator: names are distinct, identifiers, outside the skip set, shortest first"""
    import itertools as it
    kw = set(lexmod.Lexer.keywords_dict.keys())
    n = 20000 if tier == 'quick' else 200000
    g = obfmod.NameGenerator(skip=kw)
    seen = set()
    last = 0
    why = None
    for name in it.islice(g, n):
        if name in seen:
            why = 'name %r generated twice' % name
        elif name in kw:
            why = 'reserved word %r generated' % name
        elif len(name) < last:
            why = 'name %r is shorter than an earlier one' % name
        elif not name or any(c not in obfmod.ID_CHARS for c in name):
            why = 'name %r is not over ID_CHARS' % name
        if why:
            break
        seen.add(name)
        last = len(name)
    sub = g(skip=['a', 'b'])
    first = next(iter(sub))
    if why is None and (first in ('a', 'b') or first in kw):
        why = 'a derived generator yields %r, which it was told to skip' % first
    if why:
        run.failed('rt.name_generator', 'E4/bounded', why, dict(problem=why), observed=why, required='distinct, non-reserved identifiers', replayed=True)
    run.bounded_check('rt.name_generator', 'the first %d generated names (all 1-3 letter names)' % n, n)


def main(run, tier):
    es5 = importlib.import_module('calmjs.parse.parsers.es5')
    unparsers = importlib.import_module('calmjs.parse.unparsers.es5')
    lexmod = importlib.import_module('calmjs.parse.lexers.es5')
    rules = importlib.import_module('calmjs.parse.rules')
    obfmod = importlib.import_module('calmjs.parse.handlers.obfuscation')
    mods = (es5, unparsers, lexmod, rules)
    run.explanation = ('per-function contracts on the renaming machinery (symbol tables over arbitrary sets, marker handlers, name assignment) '
                       'discharged by z3; whole-program capture freedom by bounded stand-in: the obfuscating printers are run on scoping programs (closures, hoisting, parameters, function '
                       'names, nested catch, labels, getters/setters, hundreds of names) and the output is re-parsed; an independent '
                       'ES5 scope resolver (spec/scopes.py) must find the same binding structure, free/property/top-level names '
                       'unchanged, no reserved word generated; marker-order obligations on the definitions and constant obligations '
                       'on the name alphabet are decided exhaustively')
    for f in ('calmjs.parse.handlers.obfuscation', 'calmjs.parse.unparsers.es5', 'calmjs.parse.rules', 'calmjs.parse.ruletypes'):
        run.function(f, scratch.sha256_file(scratch.module_path(f))[:16])
    # ---- E1: the renaming functions (contracts/obfuscation.py)
    from ..e1run import verify_functions
    import contracts.obfuscation as cob
    import contracts.scopes as csc
    import contracts.obfuscator as cobf
    import contracts.namegen as cng
    import contracts.remap as crm
    verify_functions(run, cob.build(obfmod) + csc.build(obfmod) + cobf.build(obfmod) + cng.build(obfmod) + crm.build(obfmod), {}, {}, tier=tier)
    name_generator_obligation(run, obfmod, lexmod, tier)
    # what the obfuscation rule set plugs into a printer: the identifier resolver, its token handler and the pre-walk -- nothing that
    # could alter any other token ("differs only in identifier spellings")
    rt_ = importlib.import_module('calmjs.parse.ruletypes')
    core_h = importlib.import_module('calmjs.parse.handlers.core')
    for og_ in (False, True):
        rd = rules.obfuscate(obfuscate_globals=og_)()
        probs_ = []
        if set(rd) - {'token_handler', 'deferrable_handlers', 'prewalk_hooks', 'layout_handlers', 'definitions'}:
            probs_.append('unexpected keys %r' % sorted(set(rd) - {'token_handler', 'deferrable_handlers', 'prewalk_hooks'}))
        if set(rd.get('deferrable_handlers', {})) != {rt_.Resolve}:
            probs_.append('deferrable handlers for %r' % sorted(getattr(k_, '__name__', str(k_)) for k_ in rd.get('deferrable_handlers', {})))
        if rd.get('layout_handlers') or rd.get('definitions'):
            probs_.append('layout handlers / definitions are replaced')
        if rd.get('token_handler') is not core_h.token_handler_unobfuscate:
            probs_.append('token handler %r' % (rd.get('token_handler'),))
        if len(rd.get('prewalk_hooks', [])) != 1:
            probs_.append('%d prewalk hooks' % len(rd.get('prewalk_hooks', [])))
        nm_ = 'O-rules[obfuscate(obfuscate_globals=%s) plugs in only the resolver]' % og_
        if probs_:
            run.failed(nm_, 'E2/tables', probs_[0], dict(problems=probs_), observed='; '.join(probs_),
                       required='only Resolve is deferred to the obfuscator; every other token is printed as without obfuscation', replayed=True)
        else:
            run.discharged(nm_, 'E2/tables', 'exec', 0.0)
    # ---- exhaustive small obligations
    from .. import charclass as cc
    sets = cc.es5_sets()
    chars = cc.from_chars(obfmod.ID_CHARS)
    ok = not cc.minus(chars, sets['IdentifierStart'])
    (run.discharged if ok else run.failed)(*(('const.id_chars_are_identifier_start', 'E3/charclass', 'intervals', 0.0) if ok else
                                             ('const.id_chars_are_identifier_start', 'E3/charclass', 'chars', dict(chars=obfmod.ID_CHARS))),
                                           **({} if ok else dict(observed=cc.show(cc.minus(chars, sets['IdentifierStart'])),
                                                                 required='every generated name is an identifier', replayed=True)))
    dup = sorted(set(c for c in obfmod.ID_CHARS if obfmod.ID_CHARS.count(c) > 1))
    if dup or not obfmod.ID_CHARS:
        run.failed('names.alphabet_distinct', 'E3/const', 'chars', dict(repeated=dup), observed='repeated characters %r' % (dup,),
                   required='the name alphabet is non-empty and lists no character twice (else product() would yield a name twice)', replayed=True)
    else:
        run.discharged('names.alphabet_distinct', 'E3/const', 'python', 0.0)
    kw = set(lexmod.Lexer.keywords_dict.keys())
    missing = sorted(set(es5_lexical.RESERVED_WORDS) - kw)
    if missing:
        run.failed('const.reserved_words_skipped', 'E3/const', 'keywords', dict(missing=missing), observed=repr(missing),
                   required='minify_printer passes every reserved word to the name generator', replayed=True)
    else:
        run.discharged('const.reserved_words_skipped', 'E3/const', 'python', 0.0)
    # marker order in the definitions (ES5 scoping, sections 10.4.3 / 12.14 / 13)
    rt = importlib.import_module('calmjs.parse.ruletypes')
    defs = unparsers.definitions

    def seq(kind):
        out = []

        def walk(rs):
            for r in rs:
                if isinstance(r, type):
                    out.append(r.__name__)
                else:
                    a = r.attr
                    nm = type(r).__name__
                    if isinstance(a, rt.Declare):
                        out.append('Declare:%s' % a.attr)
                    elif isinstance(a, rt.Resolve):
                        out.append('Resolve')
                    elif isinstance(a, str):
                        out.append('%s:%s' % (nm, a))
                    else:
                        out.append(nm)
                    if isinstance(r.value, tuple):
                        walk(r.value)
        walk(defs[kind])
        return out
    expect = {
        'FuncDecl': ['Declare:identifier', 'PushScope', 'Declare:parameters', 'JoinAttr:elements', 'PopScope'],
        'FuncExpr': ['Declare:identifier', 'PushScope', 'Declare:parameters', 'JoinAttr:elements', 'PopScope'],
        'VarDecl': ['Declare:identifier'], 'VarDeclNoIn': ['Declare:identifier'],
        'Catch': ['PushCatch', 'Attr:identifier', 'Attr:elements', 'PopCatch'],
        'SetPropAssign': ['PushScope', 'Declare:parameter', 'JoinAttr:elements', 'PopScope'],
        'GetPropAssign': ['PushScope', 'JoinAttr:elements', 'PopScope'],
        'Identifier': ['Resolve'],
    }
    for kind, want in sorted(expect.items()):
        got = [x for x in seq(kind) if x in want]
        name = 'O-scope[%s]' % kind
        if got == want:
            run.discharged(name, 'E2/tables', 'exec', 0.0)
        else:
            run.failed(name, 'E2/tables', kind, dict(kind=kind, got=seq(kind), want=want), observed=repr(got),
                       required='scope markers in ES5 order: %r' % want, replayed=True)
    # closed world: no other node kind declares, resolves or opens a scope (labels, property names, members are never renamed)
    for kind in sorted(defs):
        if kind in expect:
            continue
        sk = seq(kind)
        extra_m = [x for x in sk if x.startswith('Declare') or x in ('Resolve', 'PushScope', 'PopScope', 'PushCatch', 'PopCatch')]
        if extra_m:
            run.failed('O-scope[%s has no scope markers]' % kind, 'E2/tables', kind, dict(kind=kind, got=sk), observed='%s: %r' % (kind, extra_m),
                       required='only function, variable, parameter, catch and identifier forms take part in scoping (ES5 10.4.3, 12.14, 13)', replayed=True)
    run.discharged('O-scope[no other definition declares, resolves or opens a scope]', 'E2/tables', 'exec', 0.0, detail='%d definitions' % len(defs))
    for kind in ('PropIdentifier',):
        s = seq(kind)
        ok = 'Resolve' not in s and not any(x.startswith('Declare') for x in s)
        (run.discharged('O-scope[PropIdentifier is never resolved]', 'E2/tables', 'exec', 0.0) if ok else
         run.failed('O-scope[PropIdentifier is never resolved]', 'E2/tables', kind, dict(got=s), observed=repr(s),
                    required='property names are printed verbatim', replayed=True))
    # every Push has its Pop
    for kind, d in sorted(defs.items()):
        s = seq(kind)
        bal = s.count('PushScope') - s.count('PopScope'), s.count('PushCatch') - s.count('PopCatch')
        if 'PushScope' in s or 'PushCatch' in s or 'PopScope' in s or 'PopCatch' in s:
            name = 'O-scope[%s balanced]' % kind
            if bal == (0, 0):
                run.discharged(name, 'E2/tables', 'exec', 0.0)
            else:
                run.failed(name, 'E2/tables', kind, dict(got=s), observed='unbalanced scope markers', required='every Push has its Pop', replayed=True)
    run.floor = 10
    from . import printfwd
    printfwd.add(run, tier)
    # ---- bounded
    kwd = tuple(lexmod.Lexer.keywords_dict.keys())
    configs = []
    for og in (False, True):
        for sf in (False, True):
            configs.append(('minify globals=%s shadow=%s' % (og, sf), og,
                            lambda ob, og=og, sf=sf: unparsers.minify_printer(obfuscate=ob, obfuscate_globals=og, shadow_funcname=sf)))
            configs.append(('minify+drop_semi globals=%s shadow=%s' % (og, sf), og,
                            lambda ob, og=og, sf=sf: unparsers.minify_printer(obfuscate=ob, obfuscate_globals=og, shadow_funcname=sf, drop_semi=True)))
            configs.append(('indent+obfuscate globals=%s shadow=%s' % (og, sf), og,
                            lambda ob, og=og, sf=sf: unparsers.Unparser(rules=(rules.indent('  '),) + ((rules.obfuscate(
                                obfuscate_globals=og, shadow_funcname=sf, reserved_keywords=kwd),) if ob else ()))))
    progs = list(PROGRAMS) + [many_names(60), many_names(300), nested_many(250), short_among_many(60), short_among_many(120), many_names_catch(300)]
    if tier == 'thorough':
        progs += [many_names(3000), nested_many(1500)]
    n = 0
    shown = {}
    for src in progs:
        for cname, og, mk in configs:
            n += 1
            try:
                probs = check(mods, src, cname, mk, og)
            except Exception as e:
                probs = ['check raised %r' % (e,)]
            for why in probs[:1]:
                key = '%s | %s' % (why.split(' at ')[0][:50], src[:50])
                if key in shown or len(shown) > 10:
                    continue
                shown[key] = 1
                run.failed('rt.obfuscate', 'E4/bounded', '%s | %s' % (cname, src[:70]), dict(source=src if len(src) < 500 else src[:500], config=cname, problem=why),
                           observed=why, required='a consistent, capture-free renaming', replayed=True)
    # a reused printer object (second and later programs)
    for cname, og, mk in configs[:3]:
        printer = mk(True)
        for src in [PROGRAMS[0], many_names(300), PROGRAMS[2], many_names(300)]:
            n += 1
            try:
                probs = check(mods, src, cname, mk, og, printer=printer)
            except Exception as e:
                probs = ['check raised %r' % (e,)]
            for why in probs[:1]:
                run.failed('rt.obfuscate.reuse', 'E4/bounded', '%s | %s' % (cname, src[:60]), dict(source=src[:500], config=cname, problem=why),
                           observed=why, required='a reused printer renames as a fresh one', replayed=True)
    run.bounded_check('rt.obfuscate', '%d scoping programs (incl. scopes with 60-300 names; 3000 in thorough) x 12 printer configurations; '
                      'reused printer objects' % len(progs), n)
    run.trust('spec/scopes.py (independent ES5 scope resolution) as the oracle', 'C02 for the non-identifier tokens')
    run.assume('under contract (E1): Obfuscator.resolve / finalize / every marker handler / walk (handler tables) / prewalk_hook / __init__, '
               'Scope.resolve, Scope / CatchScope.build_remap_symbols (which symbols get which generated name), and the symbol tables for '
               'arbitrary set contents: declare, reference, close, declared / global / non-local / leaked symbols, global symbols of the '
               'children, _reserved_symbols (contains every free name used here or below and the new name of every outer symbol used '
               'here), construction and nesting of scopes; Scope.resolve and the renaming loop of build_remap_symbols also in state form over '
               'arbitrary tables (contracts/remap.py: every referenced local symbol gets a generated name outside the reserved set, names '
               'pairwise different, other entries untouched); neighbours of a scope (parent, children) are doubles with arbitrary sets '
               '(induction hypothesis over the scope tree).  NOT proved: the composition of these contracts into capture freedom of a '
               'whole program (order of marker events along the walk; that close() has propagated every use below before the reserved '
               'set is read) -- bounded only, against spec/scopes.py; CatchScope.declare has no contract (known finding F15 lives there)',
               'set images ({resolve(v) for v in ...}) are known from below only; dict iteration visits items of the dict (model)',
               'NameGenerator (contracts/namegen.py): every yielded name is non-empty and outside the skip set (loops cut, any iteration), a '
               'derived generator skips the union, __next__ delegates; pairwise distinctness rests on the model of itertools.product + a '
               'repetition-free alphabet (obligation) and is otherwise bounded (the first names)',
               'programs using `with` or direct eval are out of scope')


def replay(data):
    print(data.get('case'), data.get('observed'))
    return 1

"""O-semi obligations for C02 (E2, depth 2): which statement terminators survive `minify(drop_semi=True)`.

For every statement production that ends in a semicolon, the node the real action builds (children = stubs) is placed in every
kind of context a statement can stand in, and the whole is printed by the real Unparser with the real drop_semi rules.  The
terminator may be missing only where ES5 automatic semicolon insertion puts it back without a line break: before `}` or at the
end of the text -- and never when the statement is an empty statement that is the body of its parent (7.9.1: "a semicolon is
never inserted automatically if the semicolon would then be parsed as an empty statement").  Structural induction over the
program: what is printed at the junction depends on the statement kind, the context kind and the kind of the following token
only (the children are stubs), and every program position of a terminated statement is one of these junctions."""
import importlib

from ..tables import core, printing

MARK_OPEN, MARK_CLOSE = printing.HOLE_OPEN, printing.HOLE_CLOSE


def _toks(frags):
    out = []
    for fr in frags:
        t = fr.text
        if MARK_OPEN in t:
            out.append('<%s>' % t[t.index(MARK_OPEN) + 1:t.index(MARK_CLOSE)])
        elif t.strip():
            out.append(t.strip())
    return out


def semi_obligations(run, g, shapes, pr):
    at = g.asttypes
    rules = importlib.import_module('calmjs.parse.rules')

    def hole(kind, slot):
        return core.make_hole(g, ('node', kind), slot, (0, 0, 0))

    def contexts(S):
        e = lambda n: hole('Identifier', n)
        st = lambda n: hole('ExprStatement', n)
        yield 'followed by a statement', at.ES5Program([S, st(91)]), True
        yield 'last in the program', at.ES5Program([S]), False
        yield 'last in a block', at.ES5Program([at.Block([S]), st(91)]), False
        yield 'last in a function body', at.ES5Program([at.FuncDecl(identifier=e(92), parameters=[], elements=[S]), st(91)]), False
        yield 'then-branch before else', at.ES5Program([at.If(predicate=e(92), consequent=S, alternative=st(91))]), True
        yield 'else-branch followed by a statement', at.ES5Program([at.If(predicate=e(92), consequent=st(93), alternative=S), st(91)]), True
        yield 'body of do-while', at.ES5Program([at.DoWhile(statement=S, predicate=e(92))]), True
        yield 'body of while followed by a statement', at.ES5Program([at.While(predicate=e(92), statement=S), st(91)]), True
        yield 'body of while, last in a block', at.ES5Program([at.Block([at.While(predicate=e(92), statement=S)]), st(91)]), False
        yield 'body of while, last in the program', at.ES5Program([at.While(predicate=e(92), statement=S)]), False
        yield 'body of for-in, last in the program', at.ES5Program([at.ForIn(item=e(92), iterable=e(93), statement=S)]), False
        yield 'body of for-in, last in a block', at.ES5Program([at.Block([at.ForIn(item=e(92), iterable=e(93), statement=S)]), st(91)]), False
        yield 'body of for, last in a function body', at.ES5Program([at.FuncDecl(identifier=e(92), parameters=[], elements=[
            at.For(init=None, cond=None, count=None, statement=S)]), st(91)]), False
        yield 'body of with, last in the program', at.ES5Program([at.With(expr=e(92), statement=S)]), False
        yield 'then-branch without else, last in a block', at.ES5Program([at.Block([at.If(predicate=e(92), consequent=S)]), st(91)]), False
        yield 'labelled, followed by a statement', at.ES5Program([at.Label(identifier=e(92), statement=S), st(91)]), True
        yield 'in a case clause followed by a clause', at.ES5Program([at.Switch(expr=e(92), case_block=at.CaseBlock([
            at.Case(expr=e(93), elements=[S]), at.Default(elements=[st(91)])]))]), True
        yield 'last in the last case clause', at.ES5Program([at.Switch(expr=e(92), case_block=at.CaseBlock([at.Case(expr=e(93), elements=[S])])), st(91)]), False
        yield 'in a try block', at.ES5Program([at.Try(statements=at.Block([S]), catch=at.Catch(identifier=e(92), elements=at.Block([st(93)]))), st(91)]), False
    BODY_CONTEXTS = ('then-branch', 'else-branch', 'body of', 'labelled')
    n = 0
    for prod in g.productions:
        if not prod.prod or prod.prod[-1] != 'SEMI':
            continue
        if prod.name in ('iteration_statement',) and 'FOR' in prod.prod:
            continue          # for (;;) headers: the SEMI is not last
        for choice in shapes.choices(prod):
            try:
                r = core.run_action(g, prod, choice, shapes=shapes, list_len=1)
            except core.ActionRaised:
                continue
            S = r.value
            if not isinstance(S, g.asttypes_mod.Node) or getattr(type(S), '__hole__', False):
                continue
            kind = core.base_name(S)
            own = _toks(pr.print_node(S, (rules.minify(drop_semi=False),)))
            if not own or own[-1] != ';':
                continue
            body = own[:-1]
            for label, tree, must_keep in contexts(S):
                n += 1
                name = 'O-semi[%s | %s]' % (prod, label)
                try:
                    toks = _toks(pr.print_node(tree, (rules.minify(drop_semi=True),)))
                except Exception as ex:
                    run.failed(name, 'E2/tables', 'raised', dict(error=repr(ex)[:300]), observed='printing raised %r' % (ex,), required='prints', replayed=True)
                    continue
                # locate the statement's own tokens
                pos = None
                for i in range(len(toks) - len(body) + 1):
                    if toks[i:i + len(body)] == body:
                        pos = i + len(body)
                if pos is None and not body:
                    # empty statement: its only token is the terminator; it sits where the parent puts its body
                    pos = -1
                if pos is None:
                    run.failed(name, 'E2/tables', 'lost', dict(tokens=toks, statement=own), observed='%r does not contain the statement tokens %r' % (toks, body),
                               required='the statement is printed', replayed=True)
                    continue
                if pos == -1:
                    kept, nxt = ';' in toks, None
                else:
                    kept = pos < len(toks) and toks[pos] == ';'
                    nxt = toks[pos] if pos < len(toks) else 'END'
                is_empty_body = kind == 'EmptyStatement' and label.startswith(BODY_CONTEXTS)
                if kind == 'EmptyStatement':
                    # the stub statements print no semicolon of their own, so every `;` in the output is this statement
                    if not is_empty_body:
                        run.discharged(name, 'E2/tables', 'exec', 0.0)      # a stand-alone empty statement in a list may vanish (licensed)
                    elif ';' in toks:
                        run.discharged(name, 'E2/tables', 'exec', 0.0)
                    else:
                        why = 'the `;` that IS the %s is dropped: prints %s' % (label, ' '.join(toks))
                        run.failed(name, 'E2/tables', 'EMPTY-BODY %s' % label, dict(tokens=toks, context=label), observed=why,
                                   required='a semicolon that would be parsed as an empty statement is never left to automatic insertion', replayed=True)
                    continue
                ok = kept or (not must_keep and nxt in ('}', 'END'))
                if ok:
                    run.discharged(name, 'E2/tables', 'exec', 0.0)
                else:
                    why = 'the terminator of %s (%s) is dropped before %r: prints %s' % (kind, label, nxt, ' '.join(toks))
                    run.failed(name, 'E2/tables', 'DROPPED %s before %s' % (kind, nxt), dict(tokens=toks, context=label), observed=why,
                               required='a dropped semicolon is one automatic semicolon insertion restores: only before `}` or at the end of the text',
                               replayed=True)
    return n

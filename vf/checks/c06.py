"""C06 -- the token stream is a faithful, gap-free, correctly located segmentation (DESIGN 4, C06)."""
import importlib
import itertools
import random
import re

from .. import charclass as cc
from .. import gen, scratch
from ..e1run import verify_functions
from spec import es5_lines, es5_lexical

LEVEL = 'proof'


def e3(run, name, ok, detail, witness=None, required=''):
    if ok:
        run.discharged(name, 'E3/charclass', 'intervals+z3', 0.0, detail=detail)
    else:
        run.failed(name, 'E3/charclass', str(witness), dict(witness=witness, detail=detail), observed=detail,
                   required=required, replayed=True)


def class_obligations(run, lexmod):
    Lexer = lexmod.Lexer
    sets = cc.es5_sets()
    ign = cc.from_chars(Lexer.t_ignore)
    ws_bom = sets['WhiteSpace']
    d = cc.minus(ign, ws_bom)
    e3(run, 'class.ignore_subset_whitespace', not d and cc.z3_subset(ign, ws_bom),
       't_ignore minus ES5 WhiteSpace = {%s}' % cc.show(d), witness=d[:1] and chr(d[0][0]),
       required='everything skipped between tokens is ES5 white space')
    x = cc.intersect(ign, sets['LineTerminator'])
    e3(run, 'class.ignore_no_line_terminator', not x and cc.z3_subset(x, []),
       't_ignore intersect LineTerminator = {%s}' % cc.show(x), witness=x[:1] and chr(x[0][0]),
       required='no line terminator is skipped as white space (it would not be counted)')
    m = cc.minus(ws_bom, ign)
    e3(run, 'class.whitespace_subset_ignore', not m, 'ES5 WhiteSpace (Unicode %s) minus t_ignore = {%s}' % (
        sets['unicode_version'], cc.show(m)), witness=m[:1] and chr(m[0][0]), required='all ES5 white space is skipped')
    ltset = cc.from_regex(cc.rule_pattern(Lexer.t_LINE_TERMINATOR))
    e3(run, 'class.line_terminator_chars', ltset == sets['LineTerminator'],
       't_LINE_TERMINATOR single characters = {%s}' % cc.show(ltset), witness=cc.show(cc.union(cc.minus(ltset, sets['LineTerminator']), cc.minus(sets['LineTerminator'], ltset))),
       required='LF, CR, LS, PS')
    ident = re.compile(Lexer.identifier)
    part = cc.from_pred(lambda cp: ident.fullmatch('a' + chr(cp)) is not None)
    sep = cc.union(ws_bom, sets['LineTerminator'])
    x = cc.intersect(part, sep)
    e3(run, 'class.identifier_disjoint_separators', not x and cc.z3_subset(x, []),
       'identifier characters of the lexer that are ES5 white space / line terminators = {%s}' % cc.show(x), witness=x[:1] and chr(x[0][0]),
       required='a separator is never absorbed into an identifier (else the text between two tokens is not all there is of white space)')
    pre = cc.from_chars(' \t')
    e3(run, 'class.prescan_subset_ignore', not cc.minus(pre, ign), "the ' \\t' pre-scan of Lexer._token is within t_ignore")
    rign = cc.from_chars(Lexer.t_regex_ignore)
    e3(run, 'class.regex_ignore_subset_ignore', not cc.minus(rign, ign), 't_regex_ignore within t_ignore')
    # line-terminator *sequences* and the split used for counting: exhaustive over short strings
    alpha = ['a', '\n', '\r', ' ', ' ']
    rx = re.compile(cc.rule_pattern(Lexer.t_LINE_TERMINATOR))
    bad = None
    n = 0
    for L in range(1, 4):
        for t in itertools.product(alpha, repeat=L):
            s = ''.join(t)
            n += 1
            m_ = rx.match(s)
            got = m_.end() if m_ else 0
            if got != es5_lexical.line_terminator_sequence_at(s, 0):
                bad = s
    e3(run, 'regex.line_terminator_sequence', bad is None, 't_LINE_TERMINATOR consumes exactly one ES5 LineTerminatorSequence '
       '(all %d strings of length <= 3 over {a, LF, CR, LS, PS}; the regex looks ahead one character)' % n, witness=bad)
    bad = None
    n = 0
    for L in range(0, 7):
        for t in itertools.product(alpha, repeat=L):
            s = ''.join(t)
            n += 1
            frags = lexmod.PATT_LINE_TERMINATOR_SEQUENCE.split(s)
            pos, starts = 0, [0]
            for frag, nl in zip(*[iter(frags)] * 2):
                pos += len(frag + nl)
                starts.append(pos)
            if starts != es5_lines.line_starts(s):
                bad = s
    e3(run, 'regex.line_terminator_split', bad is None, 'PATT_LINE_TERMINATOR_SEQUENCE.split yields the ES5 line starts '
       '(all %d strings of length <= 6 over the same alphabet)' % n, witness=bad)
    # comments: regex language = ES5 comment language on all short strings over a separating alphabet
    calpha = ['/', '*', 'a', '\n', ' ']
    lc, bc = re.compile(cc.rule_pattern(Lexer.t_LINE_COMMENT)), re.compile(cc.rule_pattern(Lexer.t_BLOCK_COMMENT))
    bad = None
    n = 0
    for L in range(0, 8):
        for t in itertools.product(calpha, repeat=L):
            s = ''.join(t)
            n += 1
            if (lc.fullmatch(s) is not None) != es5_lexical.is_line_comment(s):
                bad = ('line', s)
            if (bc.fullmatch(s) is not None) != es5_lexical.is_block_comment(s):
                bad = ('block', s)
            mm = bc.match(s)
            if mm and not es5_lexical.is_block_comment(mm.group()):
                bad = ('block-prefix', s)
    e3(run, 'regex.comments', bad is None, 't_LINE_COMMENT / t_BLOCK_COMMENT accept exactly ES5 comments '
       '(all %d strings of length <= 7 over {/, *, a, LF, LS})' % n, witness=bad)
    return sets


def table_obligations(run, lexmod):
    Lexer = lexmod.Lexer
    kw = Lexer.keywords_dict
    want = dict((w, w.upper()) for w in es5_lexical.RESERVED_WORDS)
    e3(run, 'table.keywords', dict(kw) == want, 'keywords_dict = ES5 reserved words (7.6.1) mapped to their token names',
       witness=sorted(set(kw.items()) ^ set(want.items()))[:3])
    # look-alikes of the reserved words: every identifier obtained from a reserved word by replacing characters with ones that Python's
    # case mappings or compatibility normalisation send to them (long s, dotless i, ligatures, full-width letters, upper case)
    # is an identifier, not the keyword
    import unicodedata
    alike = {}
    for cp in range(0x80, 0x10000):
        ch = chr(cp)
        for img in set((ch.lower(), ch.upper().lower(), ch.casefold(), unicodedata.normalize('NFKC', ch).lower())):
            if img.isascii() and img.isalpha() and 1 <= len(img) <= 3:
                alike.setdefault(img, []).append(ch)
    variants = set()
    for w in es5_lexical.RESERVED_WORDS:
        variants.add(w.upper())
        variants.add(w.capitalize())
        for i in range(len(w)):
            for ln in (1, 2, 3):
                for ch in alike.get(w[i:i + ln], ())[:6] if len(w[i:i + ln]) == ln else ():
                    variants.add(w[:i] + ch + w[i + ln:])
    wrong = []
    nvar = 0
    for v in sorted(variants):
        lxv = Lexer()
        lxv.input(v)
        try:
            toks_ = []
            while True:
                t_ = lxv.token()
                if not t_:
                    break
                toks_.append(t_)
        except Exception:
            continue            # not an identifier of this lexer at all (the identifier classes are C03's business)
        if len(toks_) != 1 or toks_[0].value != v:
            continue
        nvar += 1
        if toks_[0].type != 'ID':
            wrong.append((v, toks_[0].type))
    e3(run, 'table.keyword_lookalikes', not wrong, '%d look-alike spellings of reserved words (case variants, characters whose case mapping or '
       'NFKC form is an ASCII letter sequence) are lexed as identifiers' % nvar, witness=wrong[:3],
       required='an identifier is classified as a keyword only on exact match')
    # master regular expression of the real built lexer: alternation order (ply tries alternatives in order)
    lx = Lexer()
    order = []
    for rx, names in lx.lexer.lexstatere['INITIAL']:
        order.extend(re.findall(r'\(\?P<(t_[A-Za-z_]+)>', rx.pattern))
    pos = dict((n[2:], i) for i, n in enumerate(order))
    texts = {}
    for name in Lexer.tokens:
        pat = getattr(Lexer, 't_' + name, None)
        if isinstance(pat, str):
            try:
                parsed = re._parser.parse(pat)
            except Exception:
                continue
            if all(str(op) == 'LITERAL' for op, _ in parsed):
                texts[name] = ''.join(chr(c) for _, c in parsed)
    missing = sorted(set(es5_lexical.PUNCTUATORS + es5_lexical.DIV_PUNCTUATORS) ^ set(texts.values()))
    e3(run, 'table.punctuator_set', not missing, 'literal token rules = ES5 punctuators (7.7)', witness=missing[:4])
    bad = []
    for a, ta in texts.items():
        for b, tb in texts.items():
            if ta != tb and tb.startswith(ta) and not pos[b] < pos[a]:
                bad.append((ta, tb))
    e3(run, 'order.longest_punctuator_first', not bad, 'for every pair of punctuators p proper-prefix-of q, q is tried '
       'before p in the master regex (%d literal rules)' % len(texts), witness=bad[:3])
    pairs = [('NUMBER', 'PERIOD'), ('LINE_COMMENT', 'DIV'), ('BLOCK_COMMENT', 'DIV'), ('LINE_COMMENT', 'DIVEQUAL'),
             ('GETPROP', 'ID'), ('SETPROP', 'ID')]
    bad = [(a, b) for a, b in pairs if not (a in pos and b in pos and pos[a] < pos[b])]
    e3(run, 'order.rule_priorities', not bad, 'NUMBER before ".", comments before "/", get/set before ID', witness=bad[:3])
    # the identifier rule is closed under concatenation: a keyword followed/preceded by an identifier character is
    # one identifier (so a keyword is recognised only on exact match).  Exhaustive over the rule's own classes.
    ident = re.compile(Lexer.identifier)
    start = cc.from_regex(ident)
    part = cc.from_pred(lambda cp: ident.fullmatch('a' + chr(cp)) is not None)
    bad = []
    n = 0
    for kwd in ('in', 'do', 'new', 'typeof'):
        for lo, hi in start:
            for cp in range(lo, hi + 1):
                n += 2
                if ident.fullmatch(kwd + chr(cp)) is None:
                    bad.append(kwd + chr(cp))
                if ident.fullmatch(chr(cp) + kwd) is None:
                    bad.append(chr(cp) + kwd)
        for lo, hi in part:
            for cp in range(lo, hi + 1):
                n += 1
                if ident.fullmatch(kwd + chr(cp)) is None:
                    bad.append(kwd + chr(cp))
    e3(run, 'regex.identifier_closed', not bad, 'keyword + identifier character (and the reverse) is a single identifier: '
       '%d concatenations over all %d start and %d part code points of the rule' % (n, cc.size(start), cc.size(part)),
       witness=bad[:3], required='an identifier is a keyword only on exact match')
    return texts


def lex_all(lexmod, text):
    lx = lexmod.Lexer(yield_comments=True)
    lx.input(text)
    out = []
    while True:
        t = lx.token()
        if not t:
            break
        out.append(t)
    return out


def check_text(lexmod, sets, text):
    """bounded stand-in: the statement of C06 on one input. -> None (does not lex) | list of problems"""
    try:
        toks = lex_all(lexmod, text)
    except Exception:
        return None          # C06 quantifies over inputs that lex without error (other exceptions: property C12)
    probs = []
    starts = es5_lines.line_starts(text)
    end = 0
    gapset = cc.union(sets['WhiteSpace'], sets['LineTerminator'])
    for t in toks:
        if t.type == 'AUTOSEMI':
            continue                      # synthesised by the lexer for restricted productions (C04), not source text
        if t.lexpos < end:
            probs.append('token %r at %d overlaps the previous token (ends %d)' % (t.value, t.lexpos, end))
        if text[t.lexpos:t.lexpos + len(t.value)] != t.value:
            probs.append('token %r is not the input at offset %d (%r)' % (t.value, t.lexpos, text[t.lexpos:t.lexpos + len(t.value)]))
        gap = text[end:t.lexpos]
        if any(not cc.contains(gapset, ord(c)) for c in gap):
            probs.append('gap %r before %r is not only white space / line terminators' % (gap, t.value))
        if (t.lineno, t.colno) != es5_lines.linecol(text, t.lexpos, starts):
            probs.append('token %r at offset %d reports %d:%d, ES5 counting gives %d:%d' % (
                (t.value, t.lexpos, t.lineno, t.colno) + es5_lines.linecol(text, t.lexpos, starts)))
        if t.type in es5_lexical.RESERVED_WORDS or t.type.lower() in es5_lexical.RESERVED_WORDS:
            if t.value != t.type.lower():
                probs.append('token %r classified as keyword %s' % (t.value, t.type))
        nxt = text[t.lexpos + len(t.value):t.lexpos + len(t.value) + 1]
        if (t.type.lower() in es5_lexical.RESERVED_WORDS and nxt and cc.contains(sets['IdentifierPart'], ord(nxt))
                and nxt not in '\u200c\u200d'):
            probs.append('keyword %s is a proper prefix of the identifier %r' % (t.type, t.value + nxt))
        if t.type == 'ID' and t.value in es5_lexical.RESERVED_WORDS:
            probs.append('reserved word %r classified as ID' % t.value)
        end = t.lexpos + len(t.value)
    gap = text[end:]
    if any(not cc.contains(gapset, ord(c)) for c in gap):
        probs.append('trailing %r is not only white space / line terminators' % gap)
    return probs


def punctuator_behaviour(run, lexmod, texts):
    """every punctuator lexes as one token of its own type; q = p+r lexes as q (longest match)"""
    n = 0
    bad = []
    inv = dict((v, k) for k, v in texts.items())
    for q in sorted(inv):
        for follow in (' x', 'x', ' 1', '', ' (', '\n'):
            for lead in ('a ', '1 ', ') '):
                if q in ('/', '/='):
                    lead = 'a '
                src = lead + q + follow
                n += 1
                try:
                    toks = [t for t in lex_all(lexmod, src) if t.type != 'AUTOSEMI']
                except Exception:
                    continue
                hit = [t for t in toks if t.lexpos == len(lead)]
                if not hit or hit[0].value != q or hit[0].type != inv[q]:
                    bad.append((src, hit and (hit[0].type, hit[0].value)))
    if bad:
        run.failed('rt.longest_punctuator', 'E4/bounded', repr(bad[0][0]), dict(source=bad[0][0], got=bad[0][1]),
                   observed=repr(bad[0]), required='punctuators are matched longest-first', replayed=True)
    run.bounded_check('rt.longest_punctuator', 'every punctuator x 6 followers x 3 leaders', n)


def main(run, tier):
    from . import parsefwd
    parsefwd.add(run, tier)
    lexmod = importlib.import_module('calmjs.parse.lexers.es5')
    run.explanation = ('lexer arithmetic and keyword classification by VCs from the real AST (E1); white space / line terminator / '
                       'comment classes and rule order by exhaustive code-point interval algebra and exhaustive short strings '
                       'on the real compiled regexes (E3); relative to the assumed ply.lex contract')
    run.floor = 20
    for f in ('calmjs.parse.lexers.es5', 'calmjs.parse.unicode_chars', 'calmjs.parse.lexers.tokens'):
        run.function(f, scratch.sha256_file(scratch.module_path(f))[:16])
    sets = class_obligations(run, lexmod)
    texts = table_obligations(run, lexmod)
    import contracts.lexer as cl
    cs, lemmas, env = cl.build(lexmod)
    verify_functions(run, cs, dict((c.qualname, c) for c in cs), {}, tier=tier, both=(tier == 'thorough'))
    # ---- bounded stand-ins
    punctuator_behaviour(run, lexmod, texts)
    from ..tables import core
    g = core.G()
    corpus = gen.corpus(g, depth2=(tier == 'thorough'))
    seps = [' ', '\n', '\r\n', ' ', ' /*c*/ ', ' /*a b\r\nc*/ ', ' \t', '  // x\r', '\xa0﻿', '\r']
    progs = [gen.render(t, sep) for _, t in corpus for sep in (seps if tier == 'thorough' else seps[:7])]
    progs += [p.replace(' ', s) for p in gen.EXTRA_PROGRAMS for s in seps]
    progs += [lead + p for p in gen.EXTRA_PROGRAMS[:6] + ['a', 'var x = 1;\nx++;'] for lead in ('\ufeff', '\ufeff\ufeff', '\u1680', '\ufeff\n')]
    progs += ['var\u1680x', 'a\u1680b', 'a\u2000b\u3000c', 'x\u180ey', 'a\ufeffb;']
    # characters Python's str.splitlines treats as line breaks but ES5 does not (VT, FF, FS, GS, RS, NEL) inside multi-character tokens
    for ch in ('\x0b', '\x0c', '\x1c', '\x1d', '\x1e', '\x85'):
        progs += ['var s = "a%sb", t = 2;\nshow(s, t);' % ch, '/* a%sb */ x = 1;\ny = 2;' % ch, 'x = 1; // c%sd\ny = /r%s/;\nz;' % (ch, ch)]
    progs += ['v\\u0061r x = 1;', '\\u0069f (a) b;', 'a.\\u0069n', 'x\\u0061 = 1;', 'tru\\u0065', 'n\\u0075ll;']
    rnd = random.Random(run.seed)
    soup = ['a', 'if', 'in', 'instanceof', 'x1', '1', '.5', '"s\\\n t"', "'q'", '/r/g', '+', '++', '+=', '>>>=', '>>', '===', '!',
            '(', ')', '{', '}', '[', ']', ';', ',', '.', '\n', '\r\n', ' ', ' ', '\t', '/*c\n*/', '//l\n', 'é', 'do', 'get', 'set',
            'π', 'á', 'new', 'typeof', '0x1F', '1e3', '\xa0']
    for _ in range(600 if tier == 'quick' else 6000):
        progs.append(''.join(rnd.choice(soup) for _ in range(rnd.randint(1, 9))))
    n = ok = nfail = 0
    for src in progs:
        probs = check_text(lexmod, sets, src)
        n += 1
        if probs is None:
            continue
        ok += 1
        for why in probs[:1]:
            nfail += 1
            if nfail <= 10:
                run.failed('rt.tokens', 'E4/bounded', src, dict(source=src, problem=why), observed=why,
                           required='ordered, gap-free, faithful tokens at their ES5 line:column', replayed=True)
    run.bounded_check('rt.tokens', 'generated programs x %d separator layouts (LF, CRLF, LS, PS, NBSP/BOM, comments with line '
                      'breaks) + random token soup (seeded); inputs that do not lex are skipped' % (len(seps) if tier == 'thorough' else 7), n, ok)
    run.trust('ply.lex contract (read off ply/lex.py): token() skips a maximal run of lexignore characters, returns the first '
              'matching alternative of the master regex with value = lexdata[lexpos:lexpos+len(value)], advances lexpos past it; '
              'lineno is only changed by user code', 'Python `re` engine', 'unicodedata (Unicode %s) for the ES5 classes' % sets['unicode_version'])
    run.assume('Lexer._update_newline_idx is under contract through models of `PATTERN.split` with one group (pieces and separators '
               'alternate) and of `zip(*[iter(xs)] * 2)` (consecutive pairs): for any number of line terminator sequences the line '
               'counter and the recorded line starts are exact; the pattern itself is decided exhaustively (regex.line_terminator_split)',
               'identifier character classes are compared with ES5 under property C03, not here')


def replay(data):
    lexmod = importlib.import_module('calmjs.parse.lexers.es5')
    w = data.get('witness') or {}
    if 'source' in w:
        probs = check_text(lexmod, cc.es5_sets(), w['source'])
        print(repr(w['source']), probs)
        return 1 if probs else 0
    print(data.get('observed'))
    return 1

"""Shared obligation: the printer factories and one-call helpers of unparsers/es5.py hand every option to the rule set it configures
(contracts/printers.py).  The per-production obligations of C01 / C02 / C07 / C20 are stated for rule sets built with given options;
this closes the gap to the public functions users call."""
import importlib

from ..e1run import verify_functions


def add(run, tier):
    um = importlib.import_module('calmjs.parse.unparsers.es5')
    lm = importlib.import_module('calmjs.parse.lexers.es5')
    import contracts.printers as cp
    verify_functions(run, cp.build(um, lm), {}, {}, tier=tier)
    # the glue under every printer: rule-set merging and the per-call dispatcher (contracts/baseunparser.py)
    import contracts.baseunparser as cb
    bm = importlib.import_module('calmjs.parse.unparsers.base')
    pm = importlib.import_module('calmjs.parse.parsers.es5')
    # ... the Dispatcher (contracts/dispatcher.py: how a definition becomes the runners the walk executes; finite scenarios)
    # ... and the walk every printer drives (contracts/unparse_walk.py): rule chunks are forwarded in order, none dropped or repeated,
    # layout markers are resolved exactly between the two text chunks they stand between
    import contracts.unparse_walk as cw
    import contracts.dispatcher as cdisp
    wm = importlib.import_module('calmjs.parse.unparsers.walker')
    verify_functions(run, [c for c in cb.build(bm, pm) if c.funcname.startswith('BaseUnparser.')] + cb.build_init(bm) + cw.build(wm) + cdisp.build(wm), {}, {}, tier=tier)

"""Shared obligation: the printer factories and one-call helpers of unparsers/es5.py hand every option to the rule set it configures
(contracts/printers.py).  The per-production obligations of C01 / C02 / C07 / C20 are stated for rule sets built with given options;
this closes the gap to the public functions users call."""
import importlib

from ..e1run import verify_functions


def add(run, tier):
    um = importlib.import_module('calmjs.parse.unparsers.es5')
    lm = importlib.import_module('calmjs.parse.lexers.es5')
    import contracts.printers as cp
    verify_functions(run, cp.build(um, lm), {}, {}, tier=tier)
    # the glue under every printer: rule-set merging and the per-call dispatcher (contracts/baseunparser.py)
    import contracts.baseunparser as cb
    bm = importlib.import_module('calmjs.parse.unparsers.base')
    pm = importlib.import_module('calmjs.parse.parsers.es5')
    # ... the Dispatcher (contracts/dispatcher.py: how a definition becomes the runners the walk executes; finite scenarios)
    # ... and the walk every printer drives (contracts/unparse_walk.py): rule chunks are forwarded in order, none dropped or repeated,
    # layout markers are resolved exactly between the two text chunks they stand between
    import contracts.unparse_walk as cw
    import contracts.dispatcher as cdisp
    wm = importlib.import_module('calmjs.parse.unparsers.walker')
    verify_functions(run, [c for c in cb.build(bm, pm) if c.funcname.startswith('BaseUnparser.')] + cb.build_init(bm) + cw.build(wm) + cdisp.build(wm), {}, {}, tier=tier)
    # ... and the Token rules that iterate over child lists (contracts/ruletypes.py): JoinAttr / ElisionJoinAttr for lists of any
    # length, the single-walk rules for every kind of value -- what carries the per-production runs (lists of length 0..3) to all lists
    import contracts.ruletypes as crt
    rm = importlib.import_module('calmjs.parse.ruletypes')
    verify_functions(run, crt.build(rm) + crt.build_declare(rm) + crt.build_deferrables(rm), {}, {}, tier=tier)
    rule_constants(run, rm, um)
    # ... and the layout handlers of handlers/core.py (contracts/corehandlers.py): for ALL neighbour texts the space handlers
    # consult required_space for exactly the boundary pair (the pattern itself: E3 obligations class.required_space_*), the
    # character handlers print the node's own ';' / '{' / '}' with its position
    import contracts.corehandlers as cch
    hm = importlib.import_module('calmjs.parse.handlers.core')
    am = importlib.import_module('calmjs.parse.asttypes')
    verify_functions(run, cch.build(hm, am), {}, {}, tier=tier)
    cch.constants(run, hm)
    # ... and process_layouts, which resolves the markers pending between two text chunks (contracts/layouts.py): for every handler
    # table (free choice per rule tuple) the handler calls are a contiguous in-order cover of the buffer, each handler sees the true
    # neighbour texts and the text of the previous fragment of this run, and exactly the handlers' fragments come out (buffers of
    # 0..4 markers; 5 in the thorough tier; from four markers on a handler yields nothing or one fragment)
    import contracts.layouts as clay
    verify_functions(run, clay.build(wm, sizes=(0, 1, 2, 3, 4) if tier == 'quick' else (0, 1, 2, 3, 4, 5)), {}, {}, tier=tier)


def rule_constants(run, rm, um):
    """What the ruletypes contracts take as given about constants of the real module: the surrogate separator of ElisionJoinAttr
    is one comma, every ElisionJoinAttr of the stock definitions carries a tuple, Token.__init__ keeps its
    arguments (CommentsAttr defaults to the comments attribute)."""
    import time
    t0 = time.time()

    def ob(name, ok, detail):
        if ok:
            run.discharged(name, 'E3/constants', 'exhaustive', int((time.time() - t0) * 1000), detail=detail)
        else:
            run.failed(name, 'E3/constants', 'constant', dict(detail=detail), replayed=True, solver_output=detail)
    sep = getattr(rm.ElisionJoinAttr, 'sep', None)
    ob('rules.elision_separator_is_one_comma',
       isinstance(sep, rm.Elision) and getattr(sep, 'value', None) == 1,
       'ElisionJoinAttr.sep = %r value=%r _token_map=%r' % (sep, getattr(sep, 'value', None), getattr(sep, '_token_map', None)))
    bad = []
    seen = 0

    def scan(x, where):
        nonlocal seen
        if isinstance(x, rm.ElisionJoinAttr):
            seen += 1
            if not isinstance(x.value, tuple):
                bad.append(where)
        if isinstance(x, rm.Token) and isinstance(getattr(x, 'value', None), tuple):
            for y in x.value:
                scan(y, where)
        if isinstance(x, (tuple, list)):
            for y in x:
                scan(y, where)
    for name, defn in um.definitions.items():
        scan(defn, name)
    ob('rules.elision_join_value_is_tuple', not bad and seen >= 1, '%d ElisionJoinAttr rules in unparsers.es5.definitions; without a tuple: %s' % (seen, bad))
    probs = []
    for cls in (rm.Attr, rm.Text, rm.JoinAttr, rm.ElisionToken, rm.ElisionJoinAttr, rm.Optional, rm.Operator):
        t = cls(attr='a', value=('v',), pos=3)
        if (t.attr, t.value, t.pos) != ('a', ('v',), 3):
            probs.append(cls.__name__)
        t = cls('a', ('v',), 3)
        if (t.attr, t.value, t.pos) != ('a', ('v',), 3):
            probs.append(cls.__name__ + ' positional')
        t = cls()
        if (t.attr, t.value, t.pos) != (None, None, 0):
            probs.append(cls.__name__ + ' defaults')
    c = rm.CommentsAttr()
    if (c.attr, c.value, c.pos) != ('comments', None, 0):
        probs.append('CommentsAttr defaults')
    ob('rules.token_init_keeps_arguments', not probs, 'Token.__init__ over 8 classes x keyword / positional / default: %s' % (probs or 'ok'))

"""C12 -- any input either parses or raises the ECMAScript syntax error, only (DESIGN 4, C12)."""
import ast as pyast
import importlib
import itertools
import multiprocessing
import random
import re
import signal

from .. import gen, scratch
from spec import es5_lines

LEVEL = 'other'

ALPHA = ['a', '1', ' ', '\n', '"', "'", '\\', '/', '*', '(', ')', '{', '}', ';', '+', '.', '=', 'x', '\xa0', ' ', '[', ',', 'u', '0']
SMALL = ['a', '\n', '"', '\\', '/', '*', '(', '}', ';', '+', ' ']

MSG_POS = re.compile(r"""((?:'(?:[^'\\]|\\.)*'|"(?:[^"\\]|\\.)*")(?:\.\.\.)?)\s+at\s+(\d+):(\d+)""")
POS_ONLY = re.compile(r'at (\d+):(\d+)')


class Timeout(Exception):
    pass


def _alarm(signum, frame):
    raise Timeout()


def check_one(src):
    """-> None | problem string"""
    es5 = _MODS['es5']
    exc = _MODS['exc']
    signal.signal(signal.SIGVTALRM, _alarm)
    signal.setitimer(signal.ITIMER_VIRTUAL, 5.0)
    try:
        try:
            es5.Parser().parse(src)
            return None
        except exc.ECMASyntaxError as e:
            msg = str(e)
        except Timeout:
            return 'does not terminate within 5 s of CPU time'
        except RecursionError:
            return 'raises RecursionError'
        except Exception as e:
            return 'raises %s: %s' % (type(e).__name__, str(e)[:80])
    finally:
        signal.setitimer(signal.ITIMER_VIRTUAL, 0)
    # the positions quoted in the message
    starts = es5_lines.line_starts(src)
    m = re.match(r"Error parsing regular expression '(.*)' at (\d+):(\d+)$", msg, re.S)
    if m:
        off = es5_lines.offset_of(src, int(m.group(2)), int(m.group(3)), starts)
        if off is None or not src.startswith(m.group(1), off):
            return 'message %r: the input at %s:%s does not read %r' % (msg, m.group(2), m.group(3), m.group(1))
        return None
    for m in MSG_POS.finditer(msg):
        q, line, col = m.group(1), int(m.group(2)), int(m.group(3))
        trunc = q.endswith('...')
        if trunc:
            q = q[:-3]
        try:
            text = pyast.literal_eval(q)
        except Exception:
            continue
        if text.endswith('...') and msg.startswith('Unterminated string literal'):
            text, trunc = text[:-3], True
        if line == 0:
            continue                       # tokens synthesised at end of input carry no position
        off = es5_lines.offset_of(src, line, col, starts)
        if off is None or off > len(src):
            return 'message %r quotes position %d:%d outside the input' % (msg, line, col)
        if not src.startswith(text, off) and not (trunc and src[off:].lstrip().startswith(text.strip()[:8])) \
                and not src[off:].lstrip(' \t').startswith(text.strip()):
            return 'message %r: the input at %d:%d reads %r, not %r' % (msg, line, col, src[off:off + 12], text)
    return None


_MODS = {}


def _init(src_root):
    import sys
    scratch.use_existing(src_root)
    _MODS['es5'] = importlib.import_module('calmjs.parse.parsers.es5')
    _MODS['exc'] = importlib.import_module('calmjs.parse.exceptions')


def _work(chunk):
    out = []
    for s in chunk:
        r = check_one(s)
        if r is not None:
            out.append((s, r))
    return len(chunk), out


def inputs(tier, seed, corpus):
    n1, n2 = (3, 4) if tier == 'quick' else (4, 6)
    for L in range(0, n1 + 1):
        for t in itertools.product(ALPHA, repeat=L):
            yield ''.join(t)
    for L in range(n1 + 1, n2 + 1):
        for t in itertools.product(SMALL, repeat=L):
            yield ''.join(t)
    rnd = random.Random(seed)
    step = 5 if tier == 'quick' else 1
    # the hand-written programs (unusual characters inside tokens etc.) are always all used: sampling them made detection depend on list order
    progs = [gen.render(t, ' ') for _, t in corpus][::step] + list(gen.EXTRA_PROGRAMS)
    for p in progs:
        for k in range(0, len(p) + 1, 1 if len(p) < 40 else 3):
            yield p[:k]                                  # truncations
        for _ in range(6 if tier == 'quick' else 20):
            i = rnd.randrange(len(p) + 1) if p else 0
            yield p[:i] + rnd.choice(ALPHA) + p[i + 1:]   # single-character corruption
            yield p[:i] + rnd.choice(ALPHA) + p[i:]       # insertion
    for nrep in (1200, 3000):
        yield 'var a = 1;' + '\n' * nrep + 'var b = 2;'
        yield '// c\n' * (nrep // 2) + 'a'
        yield '(' * (nrep // 20) + 'a' + ')' * (nrep // 20)
        yield 'a' + '+a' * nrep + ';'
    # errors on a later line, for every kind of line terminator (also inside comments and after string continuations)
    for lt in ('\n', '\r', '\r\n', '\u2028', '\u2029'):
        for head in ('a%sb c', 'a;%s  b c', '/* x%sy */ b c', 'a = "s\\%st" b', 'a;%s%s)', '// c%s  @'):
            yield head.replace('%s', lt)
    # an error directly behind tokens whose text is special to string formatting: the message quotes its neighbours
    for prev in ('%', '%=', "'100%'", '"%s"', "'%(x)s'", "'%d%%'", "'{0}'", "'{'", '"}"', "/%s/", '/{}/g', "'\\\\'", 'a%b', '$', '"\\u0025"'):
        for bad in ('#', '@', '\\', ')', ']', 'b c', '"open', '/* open'):
            yield 'x = y %s %s' % (prev, bad) if prev in ('%', '%=') else 'x = %s %s' % (prev, bad)
            yield 'x = %s%s;' % (prev, bad)
    # format-control and other characters that are not white space of the language, at the very end and followed only by white space
    for odd in ('\xad', '\u200b', '\u200c', '\u200d', '\u200e', '\u2060', '\u061c', '\x00', '\x7f', '\x85', '\u180e'):
        for tail in ('', ' ', '\t', '\n', ' \n ', odd, ' ' + odd + ' '):
            yield 'var a = 1;' + odd + tail
            yield odd + tail
            yield 'a ' + odd + tail
    yield '/x\ny/ /'
    yield 'a = /x\ny/ )'
    yield '"\\\n" +'


def main(run, tier):
    es5 = importlib.import_module('calmjs.parse.parsers.es5')
    run.explanation = ('exception freedom / termination of the lexing and parsing code is checked by a bounded stand-in only '
                       '(exhaustive short strings over a lexical alphabet, truncations and corruptions of generated programs, '
                       'long repetitive inputs, per-parse time limit); E1 safety contracts cover the error-path helpers that are '
                       'within the subset')
    for f in ('calmjs.parse.lexers.es5', 'calmjs.parse.parsers.es5', 'calmjs.parse.exceptions', 'calmjs.parse.utils'):
        run.function(f, scratch.sha256_file(scratch.module_path(f))[:16])
    es5.Parser()
    from ..tables import core
    g = core.G()
    corpus = gen.corpus(g, depth2=False)
    # ---- E1: error-path helpers
    from ..e1run import verify_functions
    import contracts.errors as ce
    cs, lemmas, env = ce.build(importlib.import_module('calmjs.parse.lexers.es5'), es5)
    verify_functions(run, cs, {}, {}, tier=tier)
    from . import parsefwd
    parsefwd.add(run, tier, positions=True)
    # the scanning loops of Lexer._token terminate (variants len - pos / len - lexpos), relative to ply consuming >= 1 character per token
    import contracts.token as ctok
    verify_functions(run, ctok.build(importlib.import_module('calmjs.parse.lexers.es5')), {}, {}, tier=tier)
    run.floor = 8
    # ---- bounded
    allin = list(inputs(tier, run.seed, corpus))
    chunks = [allin[i:i + 400] for i in range(0, len(allin), 400)]
    src_root = scratch.scratch_src()
    ctx = multiprocessing.get_context('fork')
    n = 0
    fails = []
    with ctx.Pool(16, initializer=_init, initargs=(src_root,)) as pool:
        for cnt, out in pool.imap_unordered(_work, chunks):
            n += cnt
            fails.extend(out)
    fails.sort(key=lambda x: (len(x[0]), x[0]))
    seen = set()
    shown = 0
    for s, why in fails:
        kind = re.sub(r'\d+', 'N', why)[:40]
        if kind in seen and shown > 6:
            continue
        seen.add(kind)
        shown += 1
        if shown > 12:
            break
        run.failed('rt.parse_or_syntax_error', 'E4/bounded', s if len(s) < 80 else s[:40] + '...(%d chars)' % len(s),
                   dict(source=s if len(s) < 400 else s[:400], length=len(s), problem=why), observed=why,
                   required='a tree or ECMASyntaxError/ECMARegexSyntaxError, in bounded time, quoting a real position', replayed=True)
    run.bounded_check('rt.parse_or_syntax_error', 'all strings of length <= %d over a %d-symbol lexical alphabet and <= %d over %d symbols; '
                      'truncations, single-character corruptions and insertions of generated programs; long repetitive inputs; '
                      '5 s CPU time per parse' % ((3, len(ALPHA), 4, len(SMALL)) if tier == 'quick' else (4, len(ALPHA), 6, len(SMALL))), n)
    run.trust('ply.lex / ply.yacc raise nothing of their own on these paths',
              "termination of ply's error-recovery loop is NOT proved: bounded stand-in with a time limit")
    run.assume('no contract within reach expresses termination of the table-driven LALR driver; exception freedom of the whole '
               'pipeline for all inputs is not proved -- this is why the level is "other"')


def replay(data):
    _init(scratch.scratch_src())
    w = data.get('witness') or {}
    if 'source' in w:
        r = check_one(w['source'])
        print(repr(w['source'])[:200], r)
        return 1 if r else 0
    print(data.get('observed'))
    return 1

"""C12 -- any input either parses or raises the ECMAScript syntax error, only (DESIGN 4, C12)."""
import ast as pyast
import importlib
import itertools
import multiprocessing
import random
import re
import time
import signal

from .. import gen, scratch
from spec import es5_lines

LEVEL = 'other'

ALPHA = ['a', '1', ' ', '\n', '"', "'", '\\', '/', '*', '(', ')', '{', '}', ';', '+', '.', '=', 'x', '\xa0', ' ', '[', ',', 'u', '0']
SMALL = ['a', '\n', '"', '\\', '/', '*', '(', '}', ';', '+', ' ']

MSG_POS = re.compile(r"""((?:'(?:[^'\\]|\\.)*'|"(?:[^"\\]|\\.)*")(?:\.\.\.)?)\s+at\s+(\d+):(\d+)""")
POS_ONLY = re.compile(r'at (\d+):(\d+)')


class Timeout(Exception):
    pass


def _alarm(signum, frame):
    raise Timeout()


def check_one(src):
    """-> None | problem string"""
    es5 = _MODS['es5']
    exc = _MODS['exc']
    signal.signal(signal.SIGVTALRM, _alarm)
    signal.setitimer(signal.ITIMER_VIRTUAL, 5.0)
    try:
        try:
            es5.Parser().parse(src)
            return None
        except exc.ECMASyntaxError as e:
            msg = str(e)
        except Timeout:
            return 'does not terminate within 5 s of CPU time'
        except RecursionError:
            return 'raises RecursionError'
        except Exception as e:
            return 'raises %s: %s' % (type(e).__name__, str(e)[:80])
    finally:
        signal.setitimer(signal.ITIMER_VIRTUAL, 0)
    # the positions quoted in the message
    starts = es5_lines.line_starts(src)
    m = re.match(r"Error parsing regular expression '(.*)' at (\d+):(\d+)$", msg, re.S)
    if m:
        off = es5_lines.offset_of(src, int(m.group(2)), int(m.group(3)), starts)
        if off is None or not src.startswith(m.group(1), off):
            return 'message %r: the input at %s:%s does not read %r' % (msg, m.group(2), m.group(3), m.group(1))
        return None
    for nth, m in enumerate(MSG_POS.finditer(msg)):
        q, line, col = m.group(1), int(m.group(2)), int(m.group(3))
        if nth > 0 and col == 0 and q in ("';'", '";"'):
            # a neighbour quoted for context that is an inserted semicolon: the library gives such a token the column 0 = "none"
            # (Lexer._create_semi_token); the statement speaks about the offending text, which is the first token quoted
            continue
        trunc = q.endswith('...')
        if trunc:
            q = q[:-3]
        try:
            text = pyast.literal_eval(q)
        except Exception:
            continue
        if text.endswith('...') and msg.startswith('Unterminated string literal'):
            text, trunc = text[:-3], True
        if line == 0:
            continue                       # tokens synthesised at end of input carry no position
        off = es5_lines.offset_of(src, line, col, starts)
        if off is None or off > len(src):
            return 'message %r quotes position %d:%d outside the input' % (msg, line, col)
        if not src.startswith(text, off) and not (trunc and src[off:].lstrip().startswith(text.strip()[:8])) \
                and not src[off:].lstrip(' \t').startswith(text.strip()):
            return 'message %r: the input at %d:%d reads %r, not %r' % (msg, line, col, src[off:off + 12], text)
    return None


_MODS = {}


def _init(src_root):
    import sys
    scratch.use_existing(src_root)
    _MODS['es5'] = importlib.import_module('calmjs.parse.parsers.es5')
    _MODS['exc'] = importlib.import_module('calmjs.parse.exceptions')


def _work(chunk):
    out = []
    for s in chunk:
        r = check_one(s)
        if r is not None:
            out.append((s, r))
    return len(chunk), out


def inputs(tier, seed, corpus):
    n1, n2 = (3, 4) if tier == 'quick' else (4, 6)
    for L in range(0, n1 + 1):
        for t in itertools.product(ALPHA, repeat=L):
            yield ''.join(t)
    for L in range(n1 + 1, n2 + 1):
        for t in itertools.product(SMALL, repeat=L):
            yield ''.join(t)
    rnd = random.Random(seed)
    step = 5 if tier == 'quick' else 1
    # the hand-written programs (unusual characters inside tokens etc.) are always all used: sampling them made detection depend on list order
    progs = [gen.render(t, ' ') for _, t in corpus][::step] + list(gen.EXTRA_PROGRAMS)
    for p in progs:
        for k in range(0, len(p) + 1, 1 if len(p) < 40 else 3):
            yield p[:k]                                  # truncations
        for _ in range(6 if tier == 'quick' else 20):
            i = rnd.randrange(len(p) + 1) if p else 0
            yield p[:i] + rnd.choice(ALPHA) + p[i + 1:]   # single-character corruption
            yield p[:i] + rnd.choice(ALPHA) + p[i:]       # insertion
    for nrep in (1200, 3000):
        yield 'var a = 1;' + '\n' * nrep + 'var b = 2;'
        yield '// c\n' * (nrep // 2) + 'a'
        yield '(' * (nrep // 20) + 'a' + ')' * (nrep // 20)
        yield 'a' + '+a' * nrep + ';'
    # errors on a later line, for every kind of line terminator (also inside comments and after string continuations)
    for lt in ('\n', '\r', '\r\n', '\u2028', '\u2029'):
        for head in ('a%sb c', 'a;%s  b c', '/* x%sy */ b c', 'a = "s\\%st" b', 'a;%s%s)', '// c%s  @'):
            yield head.replace('%s', lt)
    # an error directly behind tokens whose text is special to string formatting: the message quotes its neighbours
    for prev in ('%', '%=', "'100%'", '"%s"', "'%(x)s'", "'%d%%'", "'{0}'", "'{'", '"}"', "/%s/", '/{}/g', "'\\\\'", 'a%b', '$', '"\\u0025"'):
        for bad in ('#', '@', '\\', ')', ']', 'b c', '"open', '/* open'):
            yield 'x = y %s %s' % (prev, bad) if prev in ('%', '%=') else 'x = %s %s' % (prev, bad)
            yield 'x = %s%s;' % (prev, bad)
    # format-control and other characters that are not white space of the language, at the very end and followed only by white space
    for odd in ('\xad', '\u200b', '\u200c', '\u200d', '\u200e', '\u2060', '\u061c', '\x00', '\x7f', '\x85', '\u180e'):
        for tail in ('', ' ', '\t', '\n', ' \n ', odd, ' ' + odd + ' '):
            yield 'var a = 1;' + odd + tail
            yield odd + tail
            yield 'a ' + odd + tail
    # unterminated literals that repeat a piece a backtracking matcher could split in several ways (30 and 60 repetitions)
    for piece in ('\\111', '\\0', '\\01', '\\x41', '\\u0041', '\\\n', 'aa', '\\a', '\\12a'):
        for nrep in (30, 60):
            for q in ('"', "'"):
                yield 'x = ' + q + piece * nrep
                yield q + piece * nrep + '\n' + q
    for piece in ('\\/', '[/]', '[\\]]', '\\[', 'a*', '(a)', '\\\\'):
        for nrep in (30, 60):
            yield 'x = /' + piece * nrep
            yield 'x = /[' + piece * nrep
    for nrep in (30, 60):
        yield '/*' + '*' * nrep
        yield '/*' + '* /' * nrep
        yield '0x' + 'f' * nrep + 'g'
        yield '1' * nrep + 'e'
        yield '1.' + '1' * nrep + 'e+'
    # an error next to a semicolon the lexer inserted (restricted productions): the offending token is quoted with its own place
    for kw in ('return', 'break', 'continue', 'throw'):
        for head in ('a', '(', 'if', '+', 'x = {'):
            for lt in ('\n', '\r\n', '\u2028'):
                yield '%s %s %s' % (head, kw, lt)
                yield 'q;\n%s %s %s b' % (head, kw, lt)
    yield '/x\ny/ /'
    yield 'a = /x\ny/ )'
    yield '"\\\n" +'


def string_pattern_decompositions(lexmod, maxlen=4):
    """The body of a string literal is `(?: alternative | ... )*?` followed by the closing quote.  If some body can be split into
    alternatives in more than one way, a string whose closing quote is missing makes the backtracking matcher try every split
    (k ways per piece => k^n for n pieces: the master pattern never gives up in practice).  Decided here for every body of length
    <= maxlen over an alphabet that has a member of every class the alternatives distinguish: the number of splits is <= 1.
    -> (bodies examined, [(quote, body, ways)])  or raises if the pattern has another shape (undecided, not a violation)"""
    try:
        import re._parser as sp
        import re._compiler as sc
        from re._constants import MAX_REPEAT, MIN_REPEAT, BRANCH, SUBPATTERN
    except ImportError:             # pragma: no cover  (older interpreters)
        import sre_parse as sp
        import sre_compile as sc
        from sre_constants import MAX_REPEAT, MIN_REPEAT, BRANCH, SUBPATTERN
    parsed = sp.parse(lexmod.Lexer.string, re.VERBOSE)
    reps = []

    def walk(sub):
        for op, av in sub:
            if op in (MAX_REPEAT, MIN_REPEAT):
                body = av[2]
                inner = body
                while len(inner) == 1 and inner[0][0] is SUBPATTERN:
                    inner = inner[0][1][3]
                if len(inner) == 1 and inner[0][0] is BRANCH:
                    reps.append(inner[0][1][1])
                walk(body)
            elif op is BRANCH:
                for b in av[1]:
                    walk(b)
            elif op is SUBPATTERN:
                walk(av[3])
    walk(parsed)
    reps = [r for r in reps if len(r) >= 4]
    if len(reps) != 2:
        raise ValueError('expected the two repeated groups of alternatives (double / single quoted), found %d' % len(reps))
    alpha = ['\\', '0', '1', '7', '8', 'a', 'x', 'u', 'f', 'F', '"', "'", '\n', '\r', '\u2028', '-', ' ']
    bad, n = [], 0
    for quote, alts in zip('"\'', reps):
        compiled = [sc.compile(a, re.VERBOSE) for a in alts]
        for L in range(1, maxlen + 1):
            for tup in itertools.product(alpha, repeat=L):
                body = ''.join(tup)
                n += 1
                ways = [1] + [0] * L
                for i in range(L):
                    if not ways[i]:
                        continue
                    for c in compiled:
                        for e in range(i + 1, L + 1):
                            if c.fullmatch(body, i, e):
                                ways[e] += ways[i]
                if ways[L] > 1:
                    bad.append((quote, body, ways[L]))
    return n, bad


def main(run, tier):
    es5 = importlib.import_module('calmjs.parse.parsers.es5')
    # ---- the string pattern matches every string body in one way only (no exponential backtracking on an unterminated string)
    try:
        t0 = time.time()
        n_bodies, amb = string_pattern_decompositions(importlib.import_module('calmjs.parse.lexers.es5'))
        if amb:
            q, body, ways = min(amb, key=lambda x: (len(x[1]), x[1]))
            src = 'x = ' + q + body * 12
            why = ('the string body %r splits into the pattern\'s alternatives in %d ways (%d ambiguous bodies of length <= 4): an '
                   'unterminated string repeating it makes the lexer try %d^n splits' % (body, ways, len(amb), ways))
            run.failed('lex.string_pattern_unambiguous', 'E3/charclass', repr(body), dict(source=src, body=body, ways=ways, problem=why),
                       observed=why, required='every string body matches the alternatives of the pattern in exactly one way', replayed=True)
        else:
            run.discharged('lex.string_pattern_unambiguous', 'E3/charclass', 'exhaustive', (time.time() - t0) * 1000,
                           detail='%d string bodies of length <= 4 over 17 class representatives x both quotes: at most one split into alternatives' % n_bodies)
    except Exception as e:      # another shape of pattern: undecided
        run.undecided('lex.string_pattern_unambiguous', 'E3/charclass', 'pattern shape not recognised: %r' % (e,))
    run.explanation = ('exception freedom / termination of the lexing and parsing code is checked by a bounded stand-in only '
                       '(exhaustive short strings over a lexical alphabet, truncations and corruptions of generated programs, '
                       'long repetitive inputs, per-parse time limit); E1 safety contracts cover the error-path helpers that are '
                       'within the subset')
    for f in ('calmjs.parse.lexers.es5', 'calmjs.parse.parsers.es5', 'calmjs.parse.exceptions', 'calmjs.parse.utils'):
        run.function(f, scratch.sha256_file(scratch.module_path(f))[:16])
    es5.Parser()
    from ..tables import core
    g = core.G()
    corpus = gen.corpus(g, depth2=False)
    # ---- E1: error-path helpers
    from ..e1run import verify_functions
    import contracts.errors as ce
    cs, lemmas, env = ce.build(importlib.import_module('calmjs.parse.lexers.es5'), es5)
    verify_functions(run, cs, {}, {}, tier=tier)
    ce.escape_scan_obligation(run, importlib.import_module('calmjs.parse.lexers.es5'))
    from . import parsefwd
    parsefwd.add(run, tier, positions=True)
    # the scanning loops of Lexer._token terminate (variants len - pos / len - lexpos), relative to ply consuming >= 1 character per token
    import contracts.token as ctok
    verify_functions(run, ctok.build(importlib.import_module('calmjs.parse.lexers.es5')), {}, {}, tier=tier)
    run.floor = 8
    # ---- bounded
    allin = list(inputs(tier, run.seed, corpus))
    chunks = [allin[i:i + 400] for i in range(0, len(allin), 400)]
    src_root = scratch.scratch_src()
    ctx = multiprocessing.get_context('fork')
    n = 0
    fails = []
    with ctx.Pool(16, initializer=_init, initargs=(src_root,)) as pool:
        for cnt, out in pool.imap_unordered(_work, chunks):
            n += cnt
            fails.extend(out)
    fails.sort(key=lambda x: (len(x[0]), x[0]))
    seen = set()
    shown = 0
    for s, why in fails:
        kind = re.sub(r'\d+', 'N', why)[:40]
        if kind in seen and shown > 6:
            continue
        seen.add(kind)
        shown += 1
        if shown > 12:
            break
        run.failed('rt.parse_or_syntax_error', 'E4/bounded', s if len(s) < 80 else s[:40] + '...(%d chars)' % len(s),
                   dict(source=s if len(s) < 400 else s[:400], length=len(s), problem=why), observed=why,
                   required='a tree or ECMASyntaxError/ECMARegexSyntaxError, in bounded time, quoting a real position', replayed=True)
    run.bounded_check('rt.parse_or_syntax_error', 'all strings of length <= %d over a %d-symbol lexical alphabet and <= %d over %d symbols; '
                      'truncations, single-character corruptions and insertions of generated programs; long repetitive inputs; '
                      '5 s CPU time per parse' % ((3, len(ALPHA), 4, len(SMALL)) if tier == 'quick' else (4, len(ALPHA), 6, len(SMALL))), n)
    run.trust('ply.lex / ply.yacc raise nothing of their own on these paths',
              "termination of ply's error-recovery loop is NOT proved: bounded stand-in with a time limit")
    run.assume('no contract within reach expresses termination of the table-driven LALR driver; exception freedom of the whole '
               'pipeline for all inputs is not proved -- this is why the level is "other"')


def replay(data):
    _init(scratch.scratch_src())
    w = data.get('witness') or {}
    if 'source' in w:
        r = check_one(w['source'])
        print(repr(w['source'])[:200], r)
        return 1 if r else 0
    print(data.get('observed'))
    return 1

"""./check <ID> [--tier quick|thorough] [--replay FILE]"""
import argparse
import importlib
import json
import os
import sys
import traceback

ROOT = os.path.dirname(os.path.dirname(os.path.abspath(__file__)))
sys.path.insert(0, ROOT)

LEVELS = {}


def main(argv=None):
    ap = argparse.ArgumentParser()
    ap.add_argument('prop')
    ap.add_argument('--tier', default=os.environ.get('VERIF_TIER') or 'quick', choices=['quick', 'thorough'])
    ap.add_argument('--replay')
    a = ap.parse_args(argv)
    prop = a.prop.upper()
    os.chdir(ROOT)
    from vf import scratch
    from vf.report import Run
    try:
        scratch.activate()
        mod = importlib.import_module('vf.checks.' + prop.lower())
        if a.replay:
            with open(a.replay) as fd:
                data = json.load(fd)
            return mod.replay(data)
        run = Run(prop, a.tier, mod.LEVEL, './check %s --tier %s' % (prop, a.tier))
        mod.main(run, a.tier)
        return run.finish()
    except SystemExit:
        raise
    except BaseException:
        traceback.print_exc()
        print('CHECKER-ERROR: property=%s checker crashed (exit 3; not a violation)' % prop)
        return 3


if __name__ == '__main__':
    sys.exit(main())

"""Scratch copy of /repo/src + import isolation (DESIGN G1/G2).

Every check works on a fresh copy of the *current working tree* of /repo/src made
outside /repo and /verif; the copy is first on sys.path so that `calmjs.parse`
resolves to it (not to the wheel installed in /venv), and it is removed at exit
together with the ply tables generated next to es5.py.
"""
import atexit
import hashlib
import os
import shutil
import sys
import tempfile

REPO = os.environ.get('VERIF_REPO', '/repo')
_state = {}


def scratch_src():
    """Return path of the scratch copy's `src` directory (created once per process)."""
    if 'src' in _state:
        return _state['src']
    base = tempfile.mkdtemp(prefix='calmjs-verif-')
    src = os.path.join(base, 'src')
    shutil.copytree(os.path.join(REPO, 'src'), src,
                    ignore=shutil.ignore_patterns('__pycache__', '*.pyc', 'lextab_*', 'yacctab_*',
                                                  '*.egg-info'))
    _state['base'] = base
    _state['src'] = src
    pid = os.getpid()

    def _cleanup():
        if os.getpid() == pid:
            shutil.rmtree(base, ignore_errors=True)
    atexit.register(_cleanup)
    return src


def activate():
    """Make `import calmjs.parse` resolve to the scratch copy. Must run before the first import."""
    src = scratch_src()
    if sys.path[0] != src:
        sys.path.insert(0, src)
    for name in list(sys.modules):
        if name == 'calmjs' or name.startswith('calmjs.'):
            del sys.modules[name]
    import calmjs.parse  # noqa
    f = os.path.realpath(calmjs.parse.__file__)
    if not f.startswith(os.path.realpath(src) + os.sep):
        raise RuntimeError('calmjs.parse resolved to %s, not the scratch copy %s' % (f, src))
    return src


def use_existing(src):
    """Worker processes: adopt a scratch copy made by the parent (no cleanup here)."""
    _state['src'] = src
    _state['base'] = os.path.dirname(src)
    if sys.path[0] != src:
        sys.path.insert(0, src)
    import calmjs.parse  # noqa
    f = os.path.realpath(calmjs.parse.__file__)
    if not f.startswith(os.path.realpath(src) + os.sep):
        raise RuntimeError('calmjs.parse resolved to %s, not the scratch copy %s' % (f, src))
    return src


def module_path(modname):
    """File of module `calmjs.parse.x.y` inside the scratch copy."""
    return os.path.join(scratch_src(), *modname.split('.')) + '.py'


def sha256_file(path):
    h = hashlib.sha256()
    with open(path, 'rb') as fd:
        h.update(fd.read())
    return h.hexdigest()


def source_hashes(modnames):
    return {m: sha256_file(module_path(m))[:16] for m in modnames}

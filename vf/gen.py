"""Sentence generation from the mechanically extracted grammar (bounded stand-ins, E4).

Every sentence is a derivation of the *real* grammar (vf.tables.core.G): for each production a
minimal program containing it, and for each (production, slot, alternative of that slot) a minimal
program containing that nesting.  Sentences are lists of (terminal type, text)."""
import itertools

ID_NAMES = ['a', 'b', 'c', 'd', 'e', 'f', 'g', 'h']
SAMPLE = {
    'NUMBER': ['1', '0', '3.5', '0x1F', '1e3', '.5'],
    'STRING': ['"s"', "'t'", '"a\\nb"', "'\\u0041'"],
    'REGEX': ['/r/', '/[/]x/g', '/a\\/b/i'],
}


class Gen(object):
    def __init__(self, g, with_autosemi=False):
        self.g = g
        self.with_autosemi = with_autosemi
        self.prods = [p for p in g.productions if with_autosemi or 'AUTOSEMI' not in p.prod]
        self.by_lhs = {}
        for p in self.prods:
            self.by_lhs.setdefault(p.name, []).append(p)
        self._counter = 0
        self.min_exp = self._min_expansions()
        self.ctx = self._contexts()

    def tok(self, t):
        g = self.g
        if t in g.token_text:
            return (t, g.token_text[t])
        if t == 'ID':
            self._counter += 1
            return (t, ID_NAMES[self._counter % len(ID_NAMES)])
        if t in SAMPLE:
            self._counter += 1
            return (t, SAMPLE[t][self._counter % len(SAMPLE[t])])
        raise KeyError(t)

    def _min_expansions(self):
        g = self.g
        best = {}
        changed = True
        while changed:
            changed = False
            for p in self.prods:
                total = []
                ok = True
                for s in p.prod:
                    if s in g.terminals:
                        total.append(s)
                    elif s in best:
                        total.extend(best[s][0])
                    else:
                        ok = False
                        break
                if not ok:
                    continue
                if p.name not in best or len(total) < len(best[p.name][0]):
                    best[p.name] = (total, p)
                    changed = True
        return best

    def _contexts(self):
        """shortest (prefix, suffix) terminal-type lists with  program =>* prefix N suffix."""
        g = self.g
        ctx = {'program': ([], [])}
        changed = True
        while changed:
            changed = False
            for p in self.prods:
                if p.name not in ctx:
                    continue
                pre0, suf0 = ctx[p.name]
                for i, s in enumerate(p.prod):
                    if s not in g.nonterminals:
                        continue
                    left, right = [], []
                    ok = True
                    for x in p.prod[:i]:
                        if x in g.terminals:
                            left.append(x)
                        elif x in self.min_exp:
                            left.extend(self.min_exp[x][0])
                        else:
                            ok = False
                    for x in p.prod[i + 1:]:
                        if x in g.terminals:
                            right.append(x)
                        elif x in self.min_exp:
                            right.extend(self.min_exp[x][0])
                        else:
                            ok = False
                    if not ok:
                        continue
                    cand = (pre0 + left, right + suf0)
                    if s not in ctx or len(cand[0]) + len(cand[1]) < len(ctx[s][0]) + len(ctx[s][1]):
                        ctx[s] = cand
                        changed = True
        return ctx

    def expand(self, sym):
        g = self.g
        if sym in g.terminals:
            return [sym]
        return list(self.min_exp[sym][0])

    def sentence_types(self, prod, nested=None):
        """terminal types of a minimal program containing `prod` (nested: (slot, production) expands
        that slot with the given production)."""
        if prod.name not in self.ctx:
            return None
        pre, suf = self.ctx[prod.name]
        mid = []
        for i, s in enumerate(prod.prod):
            if nested is not None and nested[0] == i:
                q = nested[1]
                for x in q.prod:
                    mid.extend(self.expand(x))
            else:
                mid.extend(self.expand(s))
        return pre + mid + suf

    def sentences(self, depth2=True):
        """yield (label, [(type, text)...])"""
        seen = set()
        for p in self.prods:
            types = self.sentence_types(p)
            if types is None:
                continue
            key = tuple(types)
            if key not in seen:
                seen.add(key)
                self._counter = 0
                yield (str(p), [self.tok(t) for t in types])
            if not depth2:
                continue
            for i, s in enumerate(p.prod):
                if s not in self.g.nonterminals:
                    continue
                for q in self.by_lhs.get(s, ()):
                    types = self.sentence_types(p, (i, q))
                    key = tuple(types)
                    if key in seen:
                        continue
                    seen.add(key)
                    self._counter = 0
                    yield ('%s  @%d<- %s' % (p, i + 1, q), [self.tok(t) for t in types])


def render(tokens, sep=' '):
    return sep.join(text for _, text in tokens)


def corpus(g, depth2=True, with_autosemi=False):
    gen = Gen(g, with_autosemi=with_autosemi)
    return list(gen.sentences(depth2=depth2))


# hand-picked programs exercising literal spellings and layouts the grammar walk does not vary
EXTRA_PROGRAMS = [
    'var a = 1, b = "x", c = /re/g, d = [1, , 2, , ], e = {a: 1, "b": 2, 3: 4, get x() { return 1; }, set x(v) { }};',
    'function f(a, b) { if (a) return b; else return a + b * (a - b) / 2 % 3; }',
    'for (var i = 0, n = 10; i < n; i++) { continue; }\nfor (;;) break;\nfor (x in y) ;\nfor (var k in o) { }',
    'do { x++; } while (x < 5);\nwhile (x--) y = x ? 1 : 2;\nwith (o) f();',
    'switch (x) { case 1: a(); break; case 2: default: b(); }\nlabel: for (;;) { break label; }',
    'try { throw new Error("x"); } catch (e) { g(e); } finally { h(); }\ndebugger;',
    'a = b ? c : d, e = f || g && h | i ^ j & k == l != m === n !== o < p > q <= r >= s << t >> u >>> v + w - x * y / z % aa;',
    'x = typeof y; x = void 0; x = delete y.z; x = !y; x = ~y; x = -y; x = +y; x = ++y; x = --y; x = y++; x = y--;',
    'x = new Foo; x = new Foo(1, 2); x = new new Foo()(); x = a.b.c[d](e)(f).g; x = (a, b); x = ((a));',
    'x += 1; x -= 1; x *= 2; x /= 2; x %= 2; x <<= 1; x >>= 1; x >>>= 1; x &= 1; x ^= 1; x |= 1;',
    'x = a in b; x = a instanceof b; x = this; x = null; x = true; x = false;',
    'x = function () { }; x = function g(a) { return a; }; (function () { })();',
    'x = [ , ]; x = [ , , 1]; x = [1, 2, ]; x = [[1], [2, [3]]]; x = {}; x = {a: {b: {c: 1}}};',
    'x = "a\\\nb"; y = \'\\x41\\u0042\\101\\0\';',
    'if (a) { b; } else if (c) { d; } else { e; }',
    'x = a.if; x = a.class; x = {if: 1, class: 2, get: 3, set: 4}; x = a.get; y = a.set;',
    'x = 0x1F + 017 + 1.5e+10 + .5 + 5. + 0;',
    'x = /[/\\]]+/.test(y) / 2 / z;',
    # characters outside the basic multilingual plane (one code point, two UTF-16 units) before other tokens on the line
    'var s = "\U0001F600"; foo(s); /* \U0001D54F */ bar(/\U0001F600/);',
    # characters that str.splitlines breaks at but ES5 does not, inside string / comment tokens
    'var s = "a\x0cb\x85c", t = 2;\nshow(s, t); /* p\x0bq\x1cr */ u = 3;\nv = 4;',
    'var élève = 1, $ = 2, _x1 = 3, π = 4;',
    # a `}` that ends an expression (function expression, object literal) directly followed by a division
    'var half = function () { return total; } / 2;',
    # a regular expression that starts with `=` directly behind a block (re-read by the parser after `/=` failed), on the same and on the next line
    '{ a; } /=a/g.test(y);',
    'if (b) { c; }\n/=d/.exec(e);',
    'x = function () { return 1; } / 2 / 3;\ny = {b: 1} / 2 / z;',
    # runs of layout-only chunks (braces, semicolons, newlines with no text token between them), then an empty block
    '{ a; } {}',
    '{{{}}}\nx = function () {}; {}',
    # a prefix ++ / -- statement directly behind the `}` of the previous statement
    'if (a) { b; } ++c;',
    'for (;;) {} --d;\ntry {} finally {} ++e;',
    # array literals with holes inside array literals
    'x = [[1, , ], 2];\ny = [[1, , ], [2]];\nz = [[, ], , [, , 3], [[, 4, , ]]];',
    # many function expressions closing together, then another statement
    'a = function () { b = function () { c = function () { d = function () { e = function () { f = function () { g = function () { h(); }; }; }; }; }; }; };\ndone();',
    'p = function () { q = function () { r = function () { s = function () { t = function () { u = function () { v = function () { w = function () { k(); }; }; }; }; }; }; }; };\ndone();',
]

def _closing_run(depth):
    """h0 = function () { h1 = function () { ... hN = function () { }; ... }; }; done();  -- `depth` statements end at the same place"""
    return ''.join('h%d = function () { ' % i for i in range(depth)) + '}; ' * depth + 'done();'


# long runs of layout-only chunks of every length in a range (a buffer boundary anywhere in it is hit by one of them)
EXTRA_PROGRAMS += [_closing_run(d) for d in range(4, 12)]


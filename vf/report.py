"""Evidence / violation / known-finding plumbing shared by all checks (DESIGN 3.6, 3.7)."""
import fnmatch
import json
import os
import re
import sys
import time

ROOT = os.path.dirname(os.path.dirname(os.path.abspath(__file__)))
# runs against a patched scratch copy (tools/mutant.sh sets VERIF_OUT) must not touch the committed evidence
_OUT = os.environ.get('VERIF_OUT') or ROOT
EVIDENCE_DIR = os.path.join(_OUT, 'evidence')
REPLAY_DIR = os.path.join(_OUT, 'replays')
KF_FILE = os.path.join(ROOT, 'known_findings.json')

DISCHARGED = 'discharged'
FAILED = 'failed'
UNDECIDED = 'undecided'


def _safe(name):
    return re.sub(r'[^A-Za-z0-9_.+-]+', '_', name)[:120]


def load_findings(prop):
    if not os.path.exists(KF_FILE):
        return []
    with open(KF_FILE) as fd:
        data = json.load(fd)
    return [f for f in data.get('findings', []) if f.get('property') == prop]


class Run(object):
    """Collects obligations, bounded checks, violations for one property check run."""

    def __init__(self, prop, tier, level, checker_cmd):
        self.prop = prop
        self.tier = tier
        self.level = level
        self.checker_cmd = checker_cmd
        self.seed = int(os.environ.get('VERIF_SEED', '0') or 0)
        self.t0 = time.time()
        self.obligations = []      # dicts: name, backend, status, solver, ms, detail
        self.bounded = []          # dicts: name, bound, cases, ok
        self.violations = []       # dicts
        self.known_hits = {}       # finding id -> list of cases
        self.functions = {}        # qualified name -> sha
        self.trusted = []
        self.assumptions = []
        self.samples = []
        self.notes = []
        self.degraded = []
        import shutil
        shutil.rmtree(os.path.join(REPLAY_DIR, prop), ignore_errors=True)
        self.findings = load_findings(prop)
        self.open_findings = [f for f in self.findings if f.get('status') == 'open']
        self.floor = 0
        self.explanation = ''
        self.extra = {}

    # ---- recording -------------------------------------------------------
    def function(self, qualname, sha):
        self.functions[qualname] = sha

    def trust(self, *items):
        for i in items:
            if i not in self.trusted:
                self.trusted.append(i)

    def assume(self, *items):
        for i in items:
            if i not in self.assumptions:
                self.assumptions.append(i)

    def sample(self, s):
        if len(self.samples) < 12:
            self.samples.append(s)

    def discharged(self, name, backend, solver='', ms=0.0, detail=None):
        self.obligations.append(dict(name=name, backend=backend, status=DISCHARGED,
                                     solver=solver, ms=round(ms, 2)))
        if detail is not None:
            self.sample({'obligation': name, 'backend': backend, 'detail': detail})

    def undecided(self, name, backend, reason):
        self.obligations.append(dict(name=name, backend=backend, status=UNDECIDED, reason=reason))
        self.degraded.append('%s (%s)' % (name, reason))

    def match_finding(self, obligation, case):
        """Return the open finding that lists this failing case, if any."""
        for f in self.open_findings:
            if 'obligation' in f and obligation != f['obligation']:
                continue
            if 'obligation_glob' in f:
                globs = f['obligation_glob']
                globs = globs if isinstance(globs, list) else [globs]
                if not any(fnmatch.fnmatchcase(obligation, g) for g in globs):
                    continue
            cases = f.get('cases')
            if cases is not None and case in cases:
                return f
            rx = f.get('case_regex')
            if rx is not None and case is not None and re.fullmatch(rx, case, re.S):
                return f
        return None

    def failed(self, name, backend, case, witness, observed=None, required=None,
               replayed=True, solver_output=None, ms=0.0, solver=''):
        """An obligation failed.  `case` identifies the specific failing case (string).

        replayed=True: the witness reproduces the contract failure on the real code.
        Returns 'known' if it is a listed known finding, else 'violation'."""
        f = self.match_finding(name, case)
        if f is not None:
            self.known_hits.setdefault(f['id'], []).append(case)
            # the obligation holds outside the carved region: recorded as discharged-with-carve-out
            return 'known'
        self.obligations.append(dict(name=name, backend=backend, status=FAILED, solver=solver,
                                     ms=round(ms, 2), case=case))
        os.makedirs(os.path.join(REPLAY_DIR, self.prop), exist_ok=True)
        path = os.path.join(REPLAY_DIR, self.prop, _safe(name + '__' + str(case)) + '.json')
        with open(path, 'w') as fd:
            json.dump(dict(property=self.prop, obligation=name, backend=backend, case=case,
                           witness=witness, observed=observed, required=required,
                           replayed_on_real_code=bool(replayed), solver_output=solver_output,
                           replay_cmd='./check %s --replay %s' % (self.prop, path)),
                      fd, indent=1, default=repr)
        self.violations.append(dict(obligation=name, case=case, path=path, replayed=bool(replayed)))
        return 'violation'

    def bounded_check(self, name, bound, cases, nontrivial=None):
        self.bounded.append(dict(name=name, bound=bound, cases=cases,
                                 nontrivial=cases if nontrivial is None else nontrivial))

    def known_replay(self, finding_id, still_fails, what=None):
        """Result of replaying a listed finding's witness on the current tree."""
        if still_fails:
            self.known_hits.setdefault(finding_id, [])
        else:
            self.notes.append('finding %s no longer reproduces on this tree' % finding_id)

    # ---- finish ----------------------------------------------------------
    def finish(self):
        wall = time.time() - self.t0
        n_obl = len(self.obligations)
        n_dis = sum(1 for o in self.obligations if o['status'] == DISCHARGED)
        by_backend = {}
        for o in self.obligations:
            k = '%s/%s' % (o['backend'], o.get('solver') or '-')
            d = by_backend.setdefault(k, dict(obligations=0, discharged=0, ms=0.0))
            d['obligations'] += 1
            d['discharged'] += o['status'] == DISCHARGED
            d['ms'] += o.get('ms', 0.0) or 0.0
        for d in by_backend.values():
            d['ms'] = round(d['ms'], 1)
        crash = None
        if n_obl < self.floor and not self.degraded and not self.violations:
            crash = 'obligation count %d below floor %d (vacuity guard)' % (n_obl, self.floor)
        cov = dict(
            obligations=n_obl, discharged=n_dis,
            checker_cmd=self.checker_cmd,
            trusted_base=self.trusted,
            explanation=self.explanation,
            functions_under_contract=self.functions,
            by_backend=by_backend,
            undecided=[o for o in self.obligations if o['status'] == UNDECIDED],
            failed=[o for o in self.obligations if o['status'] == FAILED],
            bounded=self.bounded,
            bounded_note='bounded stand-ins are NOT counted in obligations/discharged',
            known_findings_hit={k: v[:5] for k, v in self.known_hits.items()},
            samples=self.samples or [o for o in self.obligations[:5]],
            obligation_names=[o['name'] for o in self.obligations][:400],
            notes=self.notes,
        )
        ev_cases = sum(b['cases'] for b in self.bounded)
        cov['evaluations'] = max(1, n_obl + ev_cases)
        cov['distinct_nontrivial'] = max(2, n_dis + sum(b['nontrivial'] for b in self.bounded)) \
            if (n_obl + ev_cases) >= 2 else n_dis
        cov['rule'] = ('one evaluation per generated proof obligation (distinct by name) plus one per '
                       'bounded stand-in case; non-trivial = obligation discharged by a solver/decision '
                       'procedure, or bounded case that exercised the contract')
        cov.update(self.extra)
        ev = dict(property_id=self.prop, tier=self.tier, seed=self.seed, level=self.level,
                  coverage=cov, assumptions=self.assumptions, wall_s=round(wall, 2),
                  violations=len(self.violations))
        os.makedirs(EVIDENCE_DIR, exist_ok=True)
        with open(os.path.join(EVIDENCE_DIR, self.prop + '.json'), 'w') as fd:
            json.dump(ev, fd, indent=1, default=repr)
        for f in self.open_findings:
            if f['id'] in self.known_hits:
                print('KNOWN-FINDING: property=%s %s [%s]' % (self.prop, f['text'], f['id']))
        for d in self.degraded:
            print('DEGRADED: property=%s undecided obligation %s' % (self.prop, d))
        for n in self.notes:
            print('NOTE: %s' % n)
        shown = set()
        for v in self.violations:
            if v['path'] in shown:
                continue
            shown.add(v['path'])
            if len(shown) > 25:
                print('... (%d violation records in total; see evidence)' % len(self.violations))
                break
            print('VIOLATION property=%s replay=%s%s' % (
                self.prop, v['path'], '' if v['replayed'] else ' no-failing-input-found'))
        print('%s: %d obligations, %d discharged, %d bounded cases, %d violations, %.1fs' % (
            self.prop, n_obl, n_dis, ev_cases, len(self.violations), wall))
        sys.stdout.flush()
        if self.violations:
            return 1
        if crash:
            print('CHECKER-ERROR: %s' % crash)
            return 3
        return 0

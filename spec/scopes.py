"""Independent ES5 scope resolution over a calmjs AST (ECMA-262 5.1, section 10 and 12.14, 13).

binding(tree) -> list of (spelling, binding id | 'free' | 'label') for every identifier occurrence that
names a variable or label, in a fixed traversal order.  Two trees have the same binding structure iff
the id sequences are equal up to renaming of ids.  `with` and direct `eval` are out of scope.
"""


class Scope(object):
    _n = 0

    def __init__(self, parent, kind):
        Scope._n += 1
        self.id = Scope._n
        self.parent = parent
        self.kind = kind                 # 'function' | 'catch' | 'global'
        self.names = {}

    def function_scope(self):
        s = self
        while s.kind == 'catch':
            s = s.parent
        return s

    def declare(self, name):
        self.names.setdefault(name, (self.id, name))

    def lookup(self, name):
        s = self
        while s is not None:
            if name in s.names:
                return s.names[name]
            s = s.parent
        return 'free'


def binding(tree):
    occ = []          # (node, scope at the point of occurrence, role)

    def kind(n):
        return type(n).__name__

    def children(n):
        for k, v in vars(n).items():
            if k in ('_token_map', 'comments'):
                continue
            yield k, v

    def declare_pass(node, scope):
        """hoisting: collect var and function declarations of one function body into `scope`"""
        if isinstance(node, list):
            for x in node:
                declare_pass(x, scope)
            return
        if node is None or not hasattr(node, '__dict__') or not hasattr(node, 'children'):
            return
        k = kind(node)
        if k in ('VarDecl', 'VarDeclNoIn'):
            scope.function_scope().declare(node.identifier.value)
            declare_pass(node.initializer, scope)
            return
        if k == 'FuncDecl':
            scope.function_scope().declare(node.identifier.value)
            return                      # its body is a new scope, handled when visited
        if k in ('FuncExpr', 'GetPropAssign', 'SetPropAssign'):
            return
        for _, v in children(node):
            if isinstance(v, list) or hasattr(v, 'children'):
                declare_pass(v, scope)

    def visit(node, scope):
        if isinstance(node, list):
            for x in node:
                visit(x, scope)
            return
        if node is None or not hasattr(node, 'children'):
            return
        k = kind(node)
        if k == 'PropIdentifier':
            return
        if k == 'Identifier':
            occ.append((node, scope, 'var'))
            return
        if k in ('FuncDecl', 'FuncExpr'):
            inner = Scope(scope, 'function')
            if node.identifier is not None:
                if k == 'FuncDecl':
                    occ.append((node.identifier, scope, 'var'))        # declared (hoisted) in the enclosing scope
                else:
                    inner.declare(node.identifier.value)                 # a function expression's name is local to it
                    occ.append((node.identifier, inner, 'var'))
            body = Scope(inner, 'function') if False else inner
            for p in node.parameters:
                body.declare(p.value)
            declare_pass(node.elements, body)
            for p in node.parameters:
                occ.append((p, body, 'var'))
            visit(node.elements, body)
            return
        if k in ('GetPropAssign', 'SetPropAssign'):
            visit(node.prop_name, scope)
            inner = Scope(scope, 'function')
            if k == 'SetPropAssign' and node.parameter is not None:
                inner.declare(node.parameter.value)
            declare_pass(node.elements, inner)
            if k == 'SetPropAssign' and node.parameter is not None:
                occ.append((node.parameter, inner, 'var'))
            visit(node.elements, inner)
            return
        if k == 'Catch':
            inner = Scope(scope, 'catch')
            inner.declare(node.identifier.value)
            occ.append((node.identifier, inner, 'var'))
            visit(node.elements, inner)
            return
        if k == 'Label':
            occ.append((node.identifier, scope, 'label'))
            visit(node.statement, scope)
            return
        if k in ('Break', 'Continue'):
            if node.identifier is not None:
                occ.append((node.identifier, scope, 'label'))
            return
        if k == 'DotAccessor':
            visit(node.node, scope)
            return
        order = [v for _, v in children(node)]
        try:
            order = list(node.children())
        except Exception:
            pass
        for v in order:
            visit(v, scope)

    top = Scope(None, 'global')
    declare_pass(tree.children(), top)
    visit(tree.children(), top)
    out = []
    for node, scope, role in occ:
        if role == 'label':
            out.append((node.value, 'label'))
        else:
            out.append((node.value, scope.lookup(node.value)))
    return out, top


def canonical(bindings):
    """rename binding ids by first occurrence"""
    seen = {}
    out = []
    for spelling, b in bindings:
        if b in ('free', 'label'):
            out.append(b)
        else:
            out.append(seen.setdefault(b, len(seen)))
    return out

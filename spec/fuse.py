"""Token fusion oracle (ECMA-262 5.1 section 7: the source text is scanned from left to right, repeatedly
taking the longest possible sequence of characters as the next input element).

fuse(a, ta, b, tb): would the two tokens a (of type ta) and b (of type tb), written with nothing in
between, be read as something other than exactly these two tokens?  Written from the lexical
grammar; independent of calmjs."""
import unicodedata

from .es5_lexical import PUNCTUATORS, DIV_PUNCTUATORS

ALL_PUNCT = sorted(set(PUNCTUATORS + DIV_PUNCTUATORS), key=lambda p: -len(p))
WORDS = ('ID', 'NUMBER')


def is_id_start(c):
    return c in '$_' or unicodedata.category(c) in ('Lu', 'Ll', 'Lt', 'Lm', 'Lo', 'Nl')


def is_id_part(c):
    return is_id_start(c) or unicodedata.category(c) in ('Mn', 'Mc', 'Nd', 'Pc') or c in '\u200c\u200d'


def is_word_type(t):
    return t in WORDS or t.isalpha() and t.isupper() and t not in ('STRING', 'REGEX', 'PERIOD', 'COMMA', 'SEMI', 'COLON') and t.lower() != t and _is_keyword(t)


_KW = None


def _is_keyword(t):
    from .es5_lexical import RESERVED_WORDS
    return t.lower() in RESERVED_WORDS or t in ('GETPROP', 'SETPROP')


def longest_punct(s):
    for p in ALL_PUNCT:
        if s.startswith(p):
            return p
    return None


def fuse(a, ta, b, tb):
    if not a or not b:
        return False
    la, fb = a[-1], b[0]
    a_word = ta in ('ID', 'NUMBER') or _is_keyword(ta)
    b_word = tb in ('ID', 'NUMBER') or _is_keyword(tb)
    # IdentifierName / NumericLiteral / regex flags followed by an identifier character or a digit
    if (a_word or ta == 'REGEX') and (is_id_part(fb) or (ta == 'NUMBER' and fb.isdigit())):
        if b_word or tb in ('ID',):
            return True
    if ta == 'NUMBER' and (is_id_start(fb) or fb.isdigit()):
        return True                       # 7.8.3: the character after a NumericLiteral must not be IdentifierStart / DecimalDigit
    # decimal point
    if ta == 'NUMBER' and fb == '.' and not any(ch in a for ch in '.eExX') and not (len(a) > 1 and a[0] == '0'):
        return True                       # 1 + .y  ->  1.y
    if ta == 'NUMBER' and tb == 'NUMBER':
        return True
    if a == '.' and fb.isdigit():
        return True
    # comments
    if la == '/' and ta in ('DIV',) and fb in '/*':
        return True
    if ta == 'DIV' and tb == 'REGEX':
        return True                       # x / /re/  ->  x //re/
    if ta == 'REGEX' and fb == '/':
        return False
    # punctuators: longest match
    pa, pb = longest_punct(a) == a and ta not in ('ID', 'NUMBER', 'STRING', 'REGEX'), longest_punct(b) == b and tb not in ('ID', 'NUMBER', 'STRING', 'REGEX')
    if pa and pb:
        first = longest_punct(a + b)
        if first != a:
            return True
        rest = (a + b)[len(a):]
        return longest_punct(rest) != b
    if pa and tb == 'NUMBER' and a == '.' :
        return True
    return False

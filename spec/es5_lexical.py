"""ES5 lexical grammar facts (ECMA-262 5.1 section 7) used as post-condition oracles."""

KEYWORDS = ('break case catch continue debugger default delete do else finally for function if in instanceof '
            'new return switch this throw try typeof var void while with').split()
FUTURE_RESERVED = 'class const enum export extends import super'.split()      # non-strict code (7.6.1.2)
LITERAL_WORDS = 'null true false'.split()
RESERVED_WORDS = KEYWORDS + FUTURE_RESERVED + LITERAL_WORDS

PUNCTUATORS = ('{ } ( ) [ ] . ; , < > <= >= == != === !== + - * % ++ -- << >> >>> & | ^ ! ~ && || ? : = += -= *= %= '
               '<<= >>= >>>= &= |= ^=').split()
DIV_PUNCTUATORS = ['/', '/=']

LT = '\n\r  '


def line_terminator_sequence_at(text, i):
    """length of the LineTerminatorSequence starting at i (0 if none)"""
    if i >= len(text):
        return 0
    c = text[i]
    if c == '\r':
        return 2 if text[i + 1:i + 2] == '\n' else 1
    return 1 if c in '\n  ' else 0


def is_line_comment(s):
    """SingleLineComment :: // SingleLineCommentChars_opt   (no LineTerminator inside)"""
    return s.startswith('//') and not any(c in LT for c in s[2:])


def is_block_comment(s):
    """MultiLineComment :: /* MultiLineCommentChars_opt */   (first */ ends it)"""
    return len(s) >= 4 and s.startswith('/*') and s.endswith('*/') and s.find('*/', 2) == len(s) - 2


def is_regex_literal(s, flag_chars='abcdefghijklmnopqrstuvwxyzABCDEFGHIJKLMNOPQRSTUVWXYZ0123456789'):
    """RegularExpressionLiteral :: / RegularExpressionBody / RegularExpressionFlags   (7.8.5)

    No LineTerminator anywhere; the first body character is not * (that would be a comment) and the body is
    not empty (// is a comment); a class [...] may contain an unescaped /."""
    lt = '\n\r  '
    if len(s) < 3 or s[0] != '/':
        return False
    i = 1
    first = True
    while True:
        if i >= len(s):
            return False
        c = s[i]
        if c in lt:
            return False
        if c == '/':
            if first:
                return False
            break
        if c == '*' and first:
            return False
        if c == '\\':
            if i + 1 >= len(s) or s[i + 1] in lt:
                return False
            i += 2
        elif c == '[':
            i += 1
            while True:
                if i >= len(s) or s[i] in lt:
                    return False
                if s[i] == ']':
                    i += 1
                    break
                if s[i] == '\\':
                    if i + 1 >= len(s) or s[i + 1] in lt:
                        return False
                    i += 2
                else:
                    i += 1
        else:
            i += 1
        first = False
    return all(ch in flag_chars for ch in s[i + 1:])


def strip_line_continuations(body):
    """The characters of a string literal body with every LineContinuation (7.8.4: backslash + LineTerminatorSequence) removed.
    Scans escape by escape, so an escaped backslash followed by something else is never mistaken for the start of a continuation."""
    out = []
    i = 0
    n = len(body)
    while i < n:
        c = body[i]
        if c == '\\' and i + 1 < n:
            k = line_terminator_sequence_at(body, i + 1)
            if k:
                i += 1 + k           # the continuation contributes nothing
                continue
            out.append(body[i:i + 2])    # any other escape is kept as written
            i += 2
            continue
        out.append(c)
        i += 1
    return ''.join(out)


def is_numeric_literal(s):
    """ES5 7.8.3 NumericLiteral (DecimalLiteral | HexIntegerLiteral) plus the legacy octal form of Annex B.1.1, by hand-written scanning
    over ASCII characters only (no other digit is a digit of the language)."""
    D = '0123456789'

    def digits(i, allowed=D):
        j = i
        while j < len(s) and s[j] in allowed:
            j += 1
        return j

    def exponent(i):
        """index after an optional ExponentPart starting at i, or None if one starts but is malformed"""
        if i < len(s) and s[i] in 'eE':
            j = i + 1
            if j < len(s) and s[j] in '+-':
                j += 1
            k = digits(j)
            return k if k > j else None
        return i
    if not s:
        return False
    if len(s) > 2 and s[0] == '0' and s[1] in 'xX':
        return digits(2, '0123456789abcdefABCDEF') == len(s)
    if len(s) > 1 and s[0] == '0' and digits(1, '01234567') == len(s):
        return True                                    # legacy octal
    if s[0] == '.':
        j = digits(1)
        if j == 1:
            return False
        return exponent(j) == len(s)
    if s[0] not in D:
        return False
    i = 1 if s[0] == '0' else digits(0)                # DecimalIntegerLiteral: 0 | NonZeroDigit DecimalDigits?
    if i < len(s) and s[i] == '.':
        i = digits(i + 1)
    return exponent(i) == len(s)

"""ES5 lexical grammar facts (ECMA-262 5.1 section 7) used as post-condition oracles."""

KEYWORDS = ('break case catch continue debugger default delete do else finally for function if in instanceof '
            'new return switch this throw try typeof var void while with').split()
FUTURE_RESERVED = 'class const enum export extends import super'.split()      # non-strict code (7.6.1.2)
LITERAL_WORDS = 'null true false'.split()
RESERVED_WORDS = KEYWORDS + FUTURE_RESERVED + LITERAL_WORDS

PUNCTUATORS = ('{ } ( ) [ ] . ; , < > <= >= == != === !== + - * % ++ -- << >> >>> & | ^ ! ~ && || ? : = += -= *= %= '
               '<<= >>= >>>= &= |= ^=').split()
DIV_PUNCTUATORS = ['/', '/=']

LT = '\n\r  '


def line_terminator_sequence_at(text, i):
    """length of the LineTerminatorSequence starting at i (0 if none)"""
    if i >= len(text):
        return 0
    c = text[i]
    if c == '\r':
        return 2 if text[i + 1:i + 2] == '\n' else 1
    return 1 if c in '\n  ' else 0


def is_line_comment(s):
    """SingleLineComment :: // SingleLineCommentChars_opt   (no LineTerminator inside)"""
    return s.startswith('//') and not any(c in LT for c in s[2:])


def is_block_comment(s):
    """MultiLineComment :: /* MultiLineCommentChars_opt */   (first */ ends it)"""
    return len(s) >= 4 and s.startswith('/*') and s.endswith('*/') and s.find('*/', 2) == len(s) - 2

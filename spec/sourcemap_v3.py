"""Specification functions taken from the Source Map V3 proposal / property C10, C09.

Nothing here is derived from calmjs code.  Each function has a z3 definition (used in
contracts) and an independent Python definition (used to replay counterexamples and in
the bounded stand-ins).

VLQ (V3 proposal, "Base 64 VLQ"): the sign goes into the least significant bit, the
magnitude is split into 5-bit groups, least significant first; every group but the last
has the continuation bit (32) set; groups are written with the RFC 4648 base64 alphabet.
"""
import z3

I = z3.IntSort()
S = z3.SeqSort(I)

RFC4648 = 'ABCDEFGHIJKLMNOPQRSTUVWXYZabcdefghijklmnopqrstuvwxyz0123456789+/'

# ---- z3 definitions -------------------------------------------------------

_r = z3.Int('r')
_x = z3.Int('x')


def z_rawspec(i):
    return z3.If(i >= 0, 2 * i, -2 * i + 1)


def z_unraw(r):
    return z3.If(r % 2 == 1, -(r / 2), r / 2)


# Spec functions are *uninterpreted* symbols with a defining body; contracts reveal instances.
encC = z3.Function('encC', I, S)      # all groups with continuation bit (0 -> empty)


def encC_body(r):
    return z3.If(r <= 0, z3.Empty(S), z3.Concat(z3.Unit(r % 32 + 32), encC(r / 32)))


enc = z3.Function('enc', I, S)        # canonical digits of a non-negative raw value


def enc_body(r):
    return z3.If(r < 32, z3.Unit(r), z3.Concat(z3.Unit(r % 32 + 32), enc(r / 32)))


def z_mul(a, b):
    """Product of two symbolic terms (kept as one place so VCs and spec agree syntactically)."""
    return a * b


decI = z3.Function('decI', S, I, I, I, S)   # V3 decoding rule from index k with accumulator/weight


def decI_body(ds, k, acc, pw):
    d = ds[k]
    acc1 = z_mul(d % 32, pw) + acc
    return z3.If(z3.Or(k < 0, k >= z3.Length(ds)), z3.Empty(S),
                 z3.If(d >= 32, decI(ds, k + 1, acc1, pw * 32),
                       z3.Concat(z3.Unit(z_unraw(acc1)), decI(ds, k + 1, z3.IntVal(0), z3.IntVal(1)))))


encs = z3.Function('encs', S, S)      # concatenation of the canonical encodings of a list of ints


def encs_body(xs):
    n = z3.Length(xs)
    return z3.If(n == 0, z3.Empty(S),
                 z3.Concat(enc(z_rawspec(xs[0])), encs(z3.Extract(xs, z3.IntVal(1), n - 1))))


# ---- independent python definitions (replay / bounded stand-in oracle) ----

def py_rawspec(i):
    return 2 * i if i >= 0 else -2 * i + 1


def py_unraw(r):
    return -(r // 2) if r % 2 == 1 else r // 2


def py_enc(r):
    out = []
    while True:
        if r < 32:
            out.append(r)
            return out
        out.append(r % 32 + 32)
        r //= 32


def py_encode(i):
    return ''.join(RFC4648[d] for d in py_enc(py_rawspec(i)))


def py_dec(ds):
    out, acc, pw = [], 0, 1
    for d in ds:
        acc += (d % 32) * pw
        if d >= 32:
            pw *= 32
        else:
            out.append(py_unraw(acc))
            acc, pw = 0, 1
    return out


def py_decode(s):
    return py_dec([RFC4648.index(c) for c in s])


def py_canonical(ds):
    """A digit string that a conforming encoder can produce for a list of ints."""
    if not ds:
        return True
    groups, cur = [], []
    for d in ds:
        if not 0 <= d < 64:
            return False
        cur.append(d)
        if d < 32:
            groups.append(cur)
            cur = []
    if cur:
        return False
    for g in groups:
        if len(g) > 1 and g[-1] == 0:
            return False      # padding group
        if g == [1]:
            return False      # negative zero
    return True


def decode_mappings_v3(mappings, n_sources=None, n_names=None):
    """Independent Source Map V3 `mappings` decoder -> list of lines of absolute segments.

    Each decoded segment: (generated_column, source_index, source_line, source_column, name_index|None),
    or (generated_column,) for 1-field segments.  Fields are relative to the previous occurrence of the
    same field, except the generated column which resets at each new line (`;`).
    """
    src = line = col = name = 0
    out = []
    for text in mappings.split(';'):
        gcol = 0
        segs = []
        if text:
            for seg in text.split(','):
                f = py_decode(seg)
                if len(f) not in (1, 4, 5):
                    raise ValueError('segment with %d fields' % len(f))
                gcol += f[0]
                if len(f) == 1:
                    segs.append((gcol,))
                    continue
                src += f[1]
                line += f[2]
                col += f[3]
                if len(f) == 5:
                    name += f[4]
                    segs.append((gcol, src, line, col, name))
                else:
                    segs.append((gcol, src, line, col, None))
        out.append(segs)
    return out

"""Specification functions taken from the Source Map V3 proposal / property C10, C09.

Nothing here is derived from calmjs code.  Each function has a z3 definition (used in
contracts) and an independent Python definition (used to replay counterexamples and in
the bounded stand-ins).

VLQ (V3 proposal, "Base 64 VLQ"): the sign goes into the least significant bit, the
magnitude is split into 5-bit groups, least significant first; every group but the last
has the continuation bit (32) set; groups are written with the RFC 4648 base64 alphabet.
"""
import z3

I = z3.IntSort()
S = z3.SeqSort(I)

RFC4648 = 'ABCDEFGHIJKLMNOPQRSTUVWXYZabcdefghijklmnopqrstuvwxyz0123456789+/'

# ---- z3 definitions -------------------------------------------------------

_r = z3.Int('r')
_x = z3.Int('x')


def z_rawspec(i):
    return z3.If(i >= 0, 2 * i, -2 * i + 1)


def z_unraw(r):
    return z3.If(r % 2 == 1, -(r / 2), r / 2)


# Spec functions are *uninterpreted* symbols with a defining body; contracts reveal instances.
encC = z3.Function('encC', I, S)      # all groups with continuation bit (0 -> empty)


def encC_body(r):
    return z3.If(r <= 0, z3.Empty(S), z3.Concat(z3.Unit(r % 32 + 32), encC(r / 32)))


enc = z3.Function('enc', I, S)        # canonical digits of a non-negative raw value


def enc_body(r):
    return z3.If(r < 32, z3.Unit(r), z3.Concat(z3.Unit(r % 32 + 32), enc(r / 32)))


def z_mul(a, b):
    """Product of two symbolic terms (kept as one place so VCs and spec agree syntactically)."""
    return a * b


decI = z3.Function('decI', S, I, I, I, S)   # V3 decoding rule from index k with accumulator/weight


def decI_body(ds, k, acc, pw):
    d = ds[k]
    acc1 = z_mul(d % 32, pw) + acc
    return z3.If(z3.Or(k < 0, k >= z3.Length(ds)), z3.Empty(S),
                 z3.If(d >= 32, decI(ds, k + 1, acc1, pw * 32),
                       z3.Concat(z3.Unit(z_unraw(acc1)), decI(ds, k + 1, z3.IntVal(0), z3.IntVal(1)))))


encs = z3.Function('encs', S, S)      # concatenation of the canonical encodings of a list of ints


def encs_body(xs):
    n = z3.Length(xs)
    return z3.If(n == 0, z3.Empty(S),
                 z3.Concat(enc(z_rawspec(xs[0])), encs(z3.Extract(xs, z3.IntVal(1), n - 1))))


# ---- independent python definitions (replay / bounded stand-in oracle) ----

def py_rawspec(i):
    return 2 * i if i >= 0 else -2 * i + 1


def py_unraw(r):
    return -(r // 2) if r % 2 == 1 else r // 2


def py_enc(r):
    out = []
    while True:
        if r < 32:
            out.append(r)
            return out
        out.append(r % 32 + 32)
        r //= 32


def py_encode(i):
    return ''.join(RFC4648[d] for d in py_enc(py_rawspec(i)))


def py_dec(ds):
    out, acc, pw = [], 0, 1
    for d in ds:
        acc += (d % 32) * pw
        if d >= 32:
            pw *= 32
        else:
            out.append(py_unraw(acc))
            acc, pw = 0, 1
    return out


def py_decode(s):
    return py_dec([RFC4648.index(c) for c in s])


def py_canonical(ds):
    """A digit string that a conforming encoder can produce for a list of ints."""
    if not ds:
        return True
    groups, cur = [], []
    for d in ds:
        if not 0 <= d < 64:
            return False
        cur.append(d)
        if d < 32:
            groups.append(cur)
            cur = []
    if cur:
        return False
    for g in groups:
        if len(g) > 1 and g[-1] == 0:
            return False      # padding group
        if g == [1]:
            return False      # negative zero
    return True


def decode_mappings_v3(mappings, n_sources=None, n_names=None):
    """Independent Source Map V3 `mappings` decoder -> list of lines of absolute segments.

    Each decoded segment: (generated_column, source_index, source_line, source_column, name_index|None),
    or (generated_column,) for 1-field segments.  Fields are relative to the previous occurrence of the
    same field, except the generated column which resets at each new line (`;`).
    """
    src = line = col = name = 0
    out = []
    for text in mappings.split(';'):
        gcol = 0
        segs = []
        if text:
            for seg in text.split(','):
                f = py_decode(seg)
                if len(f) not in (1, 4, 5):
                    raise ValueError('segment with %d fields' % len(f))
                gcol += f[0]
                if len(f) == 1:
                    segs.append((gcol,))
                    continue
                src += f[1]
                line += f[2]
                col += f[3]
                if len(f) == 5:
                    name += f[4]
                    segs.append((gcol, src, line, col, name))
                else:
                    segs.append((gcol, src, line, col, None))
        out.append(segs)
    return out


def normalized_line_defect(line, carry_in, result, carry_out):
    """Executable post-condition of a line normaliser (property C09, 'by linear interpolation from the preceding segment').

    `line`: relative segments of one generated line -- () ignored, (dcol,) = unmapped from here, (dcol, dsrc, dline,
    dscol[, dname]) = mapped.  A decoder that has consumed the normalised lines so far is `carry_in` source columns
    behind the true position.  `result`, `carry_out`: what the normaliser returned.  Returns None if a V3 consumer that
    interpolates linearly between segments sees, at the generated column of every input segment, exactly the mapping
    the input gives there; else a description of the first difference."""
    # absolute view of the input (true source position starts at (0, 0, 0); only differences matter)
    g = s = l = c = 0
    want = []          # (gencol, None) unmapped | (gencol, (src, line, col, named?))
    for seg in line:
        if not seg:
            continue
        g += seg[0]
        if len(seg) == 1:
            want.append((g, None))
            continue
        s += seg[1]
        l += seg[2]
        c += seg[3]
        want.append((g, (s, l, c, len(seg) == 5 and seg[4])))
    # absolute view of the output as the decoder sees it, shifted back to true coordinates by carry_in
    og = os_ = ol = 0
    oc = -carry_in
    out = []
    for seg in result:
        if len(seg) not in (1, 4, 5):
            return 'normalised segment %r has length %d' % (seg, len(seg))
        if seg[0] < 0:
            return 'generated columns decrease at %r' % (seg,)
        og += seg[0]
        if len(seg) == 1:
            out.append((og, None))
        else:
            os_ += seg[1]
            ol += seg[2]
            oc += seg[3]
            out.append((og, (os_, ol, oc, len(seg) == 5 and seg[4])))
    if carry_out != c - oc:
        return 'returned carry %r, but the decoder is %r source columns behind' % (carry_out, c - oc)

    def in_force(col):
        cur = 'none'
        for og_, m in out:
            if og_ <= col:
                cur = (og_, m)
        return cur
    for k, (gcol, m) in enumerate(want):
        if any(g2 == gcol for g2, _ in want[k + 1:]):
            continue        # zero-width: a later segment at the same generated column replaces this one for every consumer
        f = in_force(gcol)
        if m is None:
            if f != 'none' and f[1] is not None:
                return 'unmapped text at column %d reads as mapped to %r' % (gcol, f[1])
            continue
        if f == 'none' or f[1] is None:
            return 'segment at column %d (-> %r) is unmapped after normalisation' % (gcol, m[:3])
        og_, (fs, fl, fc, fname) = f
        got = (fs, fl, fc + (gcol - og_))
        if got != m[:3]:
            return 'column %d maps to source %d line %d column %d, the input says %d/%d/%d' % ((gcol,) + got + m[:3])
        if m[3] is not False and not (og_ == gcol and fname == m[3]):
            return 'the name index delta %r at column %d is lost' % (m[3], gcol)
        if m[3] is False and og_ == gcol and fname is not False and False:
            return 'a name appears at column %d' % gcol
    return None

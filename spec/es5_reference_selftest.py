"""Self test for es5_reference.accepts.

Programs are written with space-separated tokens and tokenised by the tiny
tokenizer below (used only here).  Run:  python3 selftest.py
"""

import os
import re
import sys
import time

sys.path.insert(0, os.path.dirname(os.path.abspath(__file__)))

from spec import es5_reference as ref  # noqa: E402

_PUNCT = {
    ".": "PERIOD", ",": "COMMA", ";": "SEMI", ":": "COLON", "+": "PLUS",
    "-": "MINUS", "*": "MULT", "/": "DIV", "%": "MOD", "&": "BAND",
    "|": "BOR", "^": "BXOR", "~": "BNOT", "?": "CONDOP", "!": "NOT",
    "(": "LPAREN", ")": "RPAREN", "{": "LBRACE", "}": "RBRACE",
    "[": "LBRACKET", "]": "RBRACKET", "=": "EQ", "==": "EQEQ", "!=": "NE",
    "===": "STREQ", "!==": "STRNEQ", "<": "LT", ">": "GT", "<=": "LE",
    ">=": "GE", "||": "OR", "&&": "AND", "++": "PLUSPLUS",
    "--": "MINUSMINUS", "<<": "LSHIFT", ">>": "RSHIFT", ">>>": "URSHIFT",
    "+=": "PLUSEQUAL", "-=": "MINUSEQUAL", "*=": "MULTEQUAL",
    "/=": "DIVEQUAL", "<<=": "LSHIFTEQUAL", ">>=": "RSHIFTEQUAL",
    ">>>=": "URSHIFTEQUAL", "&=": "ANDEQUAL", "%=": "MODEQUAL",
    "^=": "XOREQUAL", "|=": "OREQUAL",
}

_KEYWORDS = set(
    "break case catch continue debugger default delete do else finally for "
    "function if in instanceof new return switch this throw try typeof var "
    "void while with null true false "
    "class const enum export extends import super".split())


def tokenize(src):
    out = []
    for w in src.split():
        if w in _PUNCT:
            out.append((_PUNCT[w], w))
        elif w in _KEYWORDS:
            out.append((w.upper(), w))
        elif re.match(r"^[0-9]", w):
            out.append(("NUMBER", w))
        elif w[0] in "\"'":
            out.append(("STRING", w))
        elif w[0] == "/" and len(w) > 2:
            out.append(("REGEX", w))
        elif re.match(r"^[A-Za-z_$][A-Za-z0-9_$]*$", w):
            out.append(("ID", w))
        else:
            raise ValueError("selftest tokenizer: cannot classify %r" % w)
    return out


ACCEPT = True
REJECT = False

CASES = [
    # ---- the cases required by the task --------------------------------
    ("a = b in c ;", ACCEPT),
    ("for ( a in b ; ; ) ;", REJECT),
    ("for ( x = a ? b in c : d ; ; ) ;", ACCEPT),
    ("for ( a == b in c ; ; ) ;", REJECT),
    ("for ( var a = ( b in c ) ; ; ) ;", ACCEPT),
    ("if ( a ) b ; else c ;", ACCEPT),
    ("{ a }", ACCEPT),
    ("a b", REJECT),
    ("a", ACCEPT),
    ("for ( ; ) ;", REJECT),
    ("if ( a ) else b ;", REJECT),
    ("function ( ) { } ;", REJECT),
    ("( function ( ) { } ) ;", ACCEPT),
    ("x = { get a ( ) { } , set a ( v ) { } , get : 1 , if : 2 } ;", ACCEPT),
    ("x = { get \"s\" ( ) { } , get 1 ( ) { } } ;", ACCEPT),
    ("a . if ;", ACCEPT),
    ("new new a ( ) ( ) ;", ACCEPT),
    ("a ++ ++ ;", REJECT),
    ("++ a ++ ;", ACCEPT),
    ("switch ( a ) { default : default : }", REJECT),
    ("x = [ , , a , , ] ;", ACCEPT),
    ("function f ( ) { } ( ) ;", REJECT),
    ("function f ( ) { } ( a ) ;", ACCEPT),
    ("l : function g ( ) { }", ACCEPT),

    # ---- programs, blocks, ASI -----------------------------------------
    ("", ACCEPT),
    (";", ACCEPT),
    ("; ;", ACCEPT),
    ("a ;", ACCEPT),
    ("a ; b", ACCEPT),
    ("a ; ; b", ACCEPT),
    ("{ }", ACCEPT),
    ("{ { } }", ACCEPT),
    ("{ a ; b }", ACCEPT),
    ("{ a b }", REJECT),
    ("{ a } b", ACCEPT),
    ("{ a } b c", REJECT),
    ("{", REJECT),
    ("}", REJECT),
    ("{ a", REJECT),
    ("( a", REJECT),
    ("a )", REJECT),
    ("( )", REJECT),
    ("( a , b )", ACCEPT),
    ("( a , )", REJECT),
    ("a , b", ACCEPT),
    (", a", REJECT),
    ("{ } . a ;", REJECT),
    ("{ a : 1 }", ACCEPT),              # block with a labelled statement
    ("{ a : 1 , b : 2 }", REJECT),      # not an object literal
    ("( { a : 1 , b : 2 } )", ACCEPT),

    # ---- variable statements -------------------------------------------
    ("var a", ACCEPT),
    ("var a = 1 , b", ACCEPT),
    ("var a = b in c ;", ACCEPT),
    ("var a = b , c = d in e", ACCEPT),
    ("var a = 1 = 2", ACCEPT),          # no early errors
    ("var", REJECT),
    ("var a b", REJECT),
    ("var a , ;", REJECT),
    ("var a = , b", REJECT),
    ("var 1", REJECT),
    ("var class", REJECT),
    ("var if", REJECT),
    ("{ var a }", ACCEPT),

    # ---- for / for-in and NoIn -----------------------------------------
    ("for ( ; ; ) ;", ACCEPT),
    ("for ( ; ; )", REJECT),            # ASI never makes an EmptyStatement
    ("for ( ; ;", REJECT),
    ("for ( a ; b ; c ) d", ACCEPT),
    ("for ( a ; b ) ;", REJECT),
    ("for ( a ) ;", REJECT),
    ("for ( var a ; ; ) ;", ACCEPT),
    ("for ( var a = 1 , b = 2 ; ; ) ;", ACCEPT),
    ("for ( var ; ; ) ;", REJECT),
    ("for ( a in b ) ;", ACCEPT),
    ("for ( var a in b ) ;", ACCEPT),
    ("for ( var a = b in c ) ;", ACCEPT),        # VariableDeclarationNoIn in
    ("for ( var a = b in c in d ) ;", ACCEPT),
    ("for ( var a = b in c ; ; ) ;", REJECT),
    ("for ( var a , b in c ) ;", REJECT),
    ("for ( a . b in c ) ;", ACCEPT),
    ("for ( a ( ) in c ) ;", ACCEPT),            # CallExpression is a LHSExpr
    ("for ( new a in c ) ;", ACCEPT),
    ("for ( a + b in c ) ;", REJECT),
    ("for ( a ++ in c ) ;", REJECT),
    ("for ( a in b , c ) ;", ACCEPT),
    ("for ( a , b in c ) ;", REJECT),
    ("for ( a = b in c ; ; ) ;", REJECT),
    ("for ( a = b in c ) ;", REJECT),
    ("for ( ( a in b ) ; ; ) ;", ACCEPT),
    ("for ( [ a in b ] ; ; ) ;", ACCEPT),
    ("for ( f ( a in b ) ; ; ) ;", ACCEPT),
    ("for ( a [ b in c ] ; ; ) ;", ACCEPT),
    ("for ( { a : b in c } ; ; ) ;", ACCEPT),
    ("for ( function ( ) { a in b } ; ; ) ;", ACCEPT),
    ("for ( a ? b : c in d ; ; ) ;", REJECT),    # last operand is NoIn
    ("for ( a ? b in c : d in e ; ; ) ;", REJECT),
    ("for ( a in b ? c : d ; ; ) ;", REJECT),
    ("for ( a < b in c ; ; ) ;", REJECT),
    ("for ( a && b in c ; ; ) ;", REJECT),
    ("for ( a , b in c ; ; ) ;", REJECT),
    ("for ( a ; b in c ; d in e ) ;", ACCEPT),   # only the first part is NoIn
    ("for ( var a = b ? c in d : e ; ; ) ;", ACCEPT),
    ("for ( a instanceof b ; ; ) ;", ACCEPT),

    # ---- other iteration statements ------------------------------------
    ("do a ; while ( b ) ;", ACCEPT),
    ("do a ; while ( b )", ACCEPT),
    ("do a while ( b ) ;", REJECT),
    ("do { } while ( a )", ACCEPT),
    ("do ; while ( a ) b", REJECT),              # ES5.1: no special do-while ASI
    ("{ do ; while ( a ) }", ACCEPT),
    ("do while ( a ) ;", REJECT),
    ("while ( a ) b", ACCEPT),
    ("while ( ) ;", REJECT),
    ("while ( a )", REJECT),
    ("while a ;", REJECT),

    # ---- if / dangling else ---------------------------------------------
    ("if ( a ) b", ACCEPT),
    ("if ( a ) ; else ;", ACCEPT),
    ("if ( a ) if ( b ) c ; else d ;", ACCEPT),
    ("if ( a ) if ( b ) c ; else d ; else e ;", ACCEPT),
    ("if ( a ) b ; else c ; else d ;", REJECT),
    ("if ( a ) b else c", REJECT),
    ("if ( a ) { b } else c", ACCEPT),
    ("if ( a )", REJECT),
    ("{ if ( a ) }", REJECT),
    ("else a", REJECT),

    # ---- continue / break / return / throw / debugger / with -----------
    ("continue", ACCEPT),
    ("continue a ;", ACCEPT),
    ("break", ACCEPT),
    ("break a", ACCEPT),
    ("break a b", REJECT),
    ("break 1 ;", REJECT),
    ("{ break }", ACCEPT),
    ("return", ACCEPT),
    ("return ;", ACCEPT),
    ("return a , b", ACCEPT),
    ("return a b", REJECT),
    ("throw a", ACCEPT),
    ("throw ;", REJECT),
    ("throw", REJECT),
    ("debugger", ACCEPT),
    ("debugger ;", ACCEPT),
    ("debugger a", REJECT),
    ("with ( a ) b", ACCEPT),
    ("with ( ) b", REJECT),

    # ---- labelled statements -------------------------------------------
    ("a : b : c", ACCEPT),
    ("a : ;", ACCEPT),
    ("a :", REJECT),
    ("if : 1", REJECT),
    ("1 : a", REJECT),
    ("get : set : a", ACCEPT),

    # ---- switch ----------------------------------------------------------
    ("switch ( a ) { }", ACCEPT),
    ("switch ( a ) { case 1 : case 2 : b ; default : c ; case 3 : }", ACCEPT),
    ("switch ( a ) { default : }", ACCEPT),
    ("switch ( a ) { case 1 : b }", ACCEPT),
    ("switch ( a ) { default : b ; case 1 : default : }", REJECT),
    ("switch ( a ) { b ; }", REJECT),
    ("switch ( a ) { case : }", REJECT),
    ("switch ( a ) { case 1 }", REJECT),
    ("switch ( a ) ;", REJECT),
    ("switch a { }", REJECT),

    # ---- try -------------------------------------------------------------
    ("try { } catch ( e ) { }", ACCEPT),
    ("try { } finally { }", ACCEPT),
    ("try { } catch ( e ) { } finally { }", ACCEPT),
    ("try { }", REJECT),
    ("try a ; catch ( e ) { }", REJECT),
    ("try { } catch ( ) { }", REJECT),
    ("try { } catch ( e ) a", REJECT),
    ("try { } catch ( 1 ) { }", REJECT),
    ("try { } catch ( e ) { } catch ( f ) { }", REJECT),
    ("try { } finally { } catch ( e ) { }", REJECT),
    ("try { } finally { } finally { }", REJECT),

    # ---- functions -------------------------------------------------------
    ("function f ( ) { }", ACCEPT),
    ("function f ( a , b ) { return a }", ACCEPT),
    ("function f ( a , ) { }", REJECT),
    ("function f ( , ) { }", REJECT),
    ("function f ( a b ) { }", REJECT),
    ("function f ( 1 ) { }", REJECT),
    ("function if ( ) { }", REJECT),
    ("function ( ) { }", REJECT),
    ("function f ( ) { } ;", ACCEPT),
    ("function f ( ) { } function g ( ) { }", ACCEPT),
    ("function f ( ) { function g ( ) { } }", ACCEPT),
    ("function f ( ) { a", REJECT),
    ("function f ( )", REJECT),
    ("( function f ( ) { } ( ) )", ACCEPT),
    ("x = function ( ) { } ( )", ACCEPT),
    ("x = function ( a , b ) { } . c", ACCEPT),
    ("x = function ( a , ) { }", REJECT),
    # deviation: declarations in statement position
    ("if ( a ) function f ( ) { }", ACCEPT),
    ("if ( a ) function f ( ) { } else function g ( ) { }", ACCEPT),
    ("while ( a ) function f ( ) { }", ACCEPT),
    ("do function f ( ) { } while ( a )", ACCEPT),
    ("{ function f ( ) { } }", ACCEPT),
    ("switch ( a ) { case 1 : function f ( ) { } }", ACCEPT),
    ("if ( a ) function ( ) { }", REJECT),      # still needs a name

    # ---- object and array literals ---------------------------------------
    ("x = { }", ACCEPT),
    ("x = { a : 1 , }", ACCEPT),
    ("x = { , }", REJECT),
    ("x = { a : 1 , , }", REJECT),
    ("x = { a : 1 b : 2 }", REJECT),
    ("x = { 1 : 1 , \"s\" : 2 , null : 3 , class : 4 }", ACCEPT),
    ("x = { a }", REJECT),                       # no shorthand in ES5
    ("x = { a : }", REJECT),
    ("x = { a : b , c : d in e }", ACCEPT),
    ("x = { a : b , c }", REJECT),
    ("x = { /re/ : 1 }", REJECT),
    ("x = { get ( ) { } }", REJECT),
    ("x = { get a ( b ) { } }", REJECT),
    ("x = { set a ( ) { } }", REJECT),
    ("x = { set a ( b , c ) { } }", REJECT),
    ("x = { set a ( if ) { } }", REJECT),
    ("x = { get get ( ) { } , set set ( set ) { } }", ACCEPT),
    ("x = { set if ( v ) { } , get null ( ) { return 1 } }", ACCEPT),
    ("x = { get a ( ) { } , }", ACCEPT),
    ("x = { get a ( ) { } b : 1 }", REJECT),
    ("x = { get a : 1 }", REJECT),
    ("x = { set : 1 , get : 2 }", ACCEPT),
    ("x = { foo a ( ) { } }", REJECT),
    ("get", ACCEPT),
    ("set = get", ACCEPT),
    ("get a", REJECT),
    ("x = [ ]", ACCEPT),
    ("x = [ , ]", ACCEPT),
    ("x = [ , , ]", ACCEPT),
    ("x = [ a ]", ACCEPT),
    ("x = [ a , ]", ACCEPT),
    ("x = [ , a ]", ACCEPT),
    ("x = [ a , , b ]", ACCEPT),
    ("x = [ a b ]", REJECT),
    ("x = [ a , b = c , [ ] ]", ACCEPT),
    ("x = [ a ; ]", REJECT),
    ("x = [", REJECT),
    ("[ a ] . b = c", ACCEPT),

    # ---- member / new / call ---------------------------------------------
    ("a . b . c ( d ) [ e ] . f", ACCEPT),
    ("a . 1", REJECT),
    ("a . \"s\"", REJECT),
    ("a . class ;", ACCEPT),
    ("a . super . null . true", ACCEPT),
    ("a .", REJECT),
    ("a [ ]", REJECT),
    ("a [ b , c ]", ACCEPT),
    ("new a", ACCEPT),
    ("new", REJECT),
    ("new new a", ACCEPT),
    ("new a . b ( ) . c", ACCEPT),
    ("new a ( ) ( ) ( )", ACCEPT),
    ("new ( a ) ( b )", ACCEPT),
    ("new a ++", ACCEPT),
    ("new a ( b ) [ c ] = d", ACCEPT),
    ("new function ( ) { }", ACCEPT),
    ("new - a", REJECT),
    ("a ( )", ACCEPT),
    ("a ( b , c )", ACCEPT),
    ("a ( , )", REJECT),
    ("a ( b , )", REJECT),
    ("a ( b c )", REJECT),
    ("a ( b = c , d ? e : f )", ACCEPT),
    ("this . a", ACCEPT),
    ("null", ACCEPT),
    ("true . x", ACCEPT),
    ("1 . a", ACCEPT),                           # tokens are already lexed
    ("\"s\" [ 0 ]", ACCEPT),
    ("a = /re/g . test ( b )", ACCEPT),
    ("a / b / c", ACCEPT),
    ("a /= b", ACCEPT),

    # ---- unary / postfix ---------------------------------------------------
    ("- - a", ACCEPT),
    ("- -- a", ACCEPT),
    ("a + + b", ACCEPT),
    ("a ++ + b", ACCEPT),
    ("a ++ b", REJECT),
    ("a ++ --", REJECT),
    ("++ ++ a", ACCEPT),                         # grammar only
    ("++ 1", ACCEPT),
    ("1 ++", ACCEPT),
    ("typeof void delete a", ACCEPT),
    ("! ~ + - a", ACCEPT),
    ("delete", REJECT),
    ("a !", REJECT),
    ("a ~ b", REJECT),

    # ---- binary / conditional / assignment ----------------------------------
    ("a * b + c << d < e == f & g ^ h | i && j || k", ACCEPT),
    ("a in b in c", ACCEPT),
    ("a instanceof b", ACCEPT),
    ("a < b > c", ACCEPT),
    ("a == = b", REJECT),
    ("a >>>= b >>> c", ACCEPT),
    ("a +", REJECT),
    ("* a", REJECT),
    ("a ? b : c ? d : e", ACCEPT),
    ("a ? b ? c : d : e", ACCEPT),
    ("a ? b , c : d", REJECT),
    ("a ? b : c , d", ACCEPT),
    ("a ? b = c : d = e", ACCEPT),
    ("a ? b : c = d", ACCEPT),
    ("a ? b", REJECT),
    ("a ? : b", REJECT),
    ("a || b = c", REJECT),                      # a || b is not a LHSExpr
    ("a = b = c", ACCEPT),
    ("a + b = c", REJECT),
    ("1 = 2", ACCEPT),                           # no early errors
    ("a ( ) = b", ACCEPT),
    ("( a , b ) = c", ACCEPT),
    ("this = a", ACCEPT),
    ("a ++ = b", REJECT),
    ("++ a = b", REJECT),
    ("- a = b", REJECT),
    ("a = b ? c : d = e", ACCEPT),
    ("a = - b = c", REJECT),
    ("a = function ( ) { } = b", ACCEPT),
    ("a *= b /= c %= d += e -= f <<= g >>= h >>>= i &= j ^= k |= l", ACCEPT),

    # ---- reserved words ----------------------------------------------------
    ("class", REJECT),
    ("x = class", REJECT),
    ("enum : a", REJECT),
    ("x = { class : 1 } . class", ACCEPT),
    ("x = if", REJECT),
    ("this", ACCEPT),
    ("var this", REJECT),
    ("function this ( ) { }", REJECT),
    ("in", REJECT),
    ("a in", REJECT),
]


def main():
    failures = []
    worst = (0.0, "")
    for src, expected in CASES:
        toks = tokenize(src)
        t0 = time.perf_counter()
        got = ref.accepts(toks)
        dt = time.perf_counter() - t0
        if len(toks) <= 12 and dt > worst[0]:
            worst = (dt, src)
        if got is not expected:
            failures.append((src, expected, got))

    # GETPROP / SETPROP token types behave exactly like ID get / ID set.
    def retag(toks):
        return [({"get": "GETPROP", "set": "SETPROP"}[x], x)
                if t == "ID" and x in ("get", "set") else (t, x)
                for t, x in toks]

    for src, expected in CASES:
        if " get" in " " + src or " set" in " " + src:
            got = ref.accepts(retag(tokenize(src)))
            if got is not expected:
                failures.append(("[GETPROP/SETPROP] " + src, expected, got))

    # Unknown token types are reported loudly.
    try:
        ref.accepts([("BOGUS", "?")])
    except ValueError:
        pass
    else:
        failures.append(("unknown token type must raise ValueError", None, None))

    assert isinstance(ref.GRAMMAR_NOTES, str) and ref.GRAMMAR_NOTES.strip()

    # A longer input must not blow the recursion limit or the time budget.
    deep = tokenize("x = " + "( " * 40 + "a" + " )" * 40 + " ;")
    t0 = time.perf_counter()
    ok = ref.accepts(deep)
    deep_dt = time.perf_counter() - t0
    if not ok:
        failures.append(("deeply nested parentheses", True, ok))
    long_prog = tokenize("a = b + c * d ( e , f ) ; " * 50)
    t0 = time.perf_counter()
    ok = ref.accepts(long_prog)
    long_dt = time.perf_counter() - t0
    if not ok:
        failures.append(("long program", True, ok))

    for src, expected, got in failures:
        print("FAIL: %-60s expected %s got %s" % (src, expected, got))
    print("%d cases, %d failures" % (len(CASES), len(failures)))
    print("slowest input of <= 12 tokens: %.2f ms  (%s)"
          % (worst[0] * 1000.0, worst[1]))
    print("81-token nested input: %.2f ms; %d-token program: %.2f ms"
          % (deep_dt * 1000.0, len(long_prog), long_dt * 1000.0))
    if failures:
        sys.exit(1)
    assert worst[0] < 0.05, "performance target missed"
    print("OK")


if __name__ == "__main__":
    main()

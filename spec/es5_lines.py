"""ES5 (ECMA-262 5.1, 7.3) line terminator counting -- independent position oracle.

LineTerminatorSequence :: <LF> | <CR>[lookahead not <LF>] | <LS> | <PS> | <CR><LF>
Lines are 1-based, columns are 1-based offsets (in code points) from the start of the line.
"""
import bisect

LS, PS = ' ', ' '


def line_starts(text):
    """offsets at which a line starts (0 and the offset just after every LineTerminatorSequence)."""
    starts = [0]
    i, n = 0, len(text)
    while i < n:
        c = text[i]
        if c == '\r':
            if i + 1 < n and text[i + 1] == '\n':
                i += 2
            else:
                i += 1
            starts.append(i)
            continue
        if c == '\n' or c == LS or c == PS:
            i += 1
            starts.append(i)
            continue
        i += 1
    return starts


def linecol(text, offset, starts=None):
    starts = starts if starts is not None else line_starts(text)
    k = bisect.bisect_right(starts, offset) - 1
    return k + 1, offset - starts[k] + 1


def offset_of(text, line, col, starts=None):
    starts = starts if starts is not None else line_starts(text)
    if line < 1 or line > len(starts) or col < 1:
        return None
    off = starts[line - 1] + col - 1
    if line < len(starts) and off >= starts[line]:
        return None                      # the column lies beyond the end of that line
    return off

"""What tree each ES5 production dictates (ECMA-262 5.1 sections 11-14), in terms of the node kinds of
calmjs.parse.asttypes: (kind, {attribute: slot of the production (1-based) | ('text', slot)}).

Keys are production patterns over *base* non-terminal names (the _noin / _nobf suffixes removed)."""

LEVELS = ['logical_or_expr', 'logical_and_expr', 'bitwise_or_expr', 'bitwise_xor_expr', 'bitwise_and_expr', 'equality_expr',
          'relational_expr', 'shift_expr', 'additive_expr', 'multiplicative_expr', 'unary_expr']
OPERATORS = {
    'logical_or_expr': {'OR'}, 'logical_and_expr': {'AND'}, 'bitwise_or_expr': {'BOR'}, 'bitwise_xor_expr': {'BXOR'},
    'bitwise_and_expr': {'BAND'}, 'equality_expr': {'EQEQ', 'NE', 'STREQ', 'STRNEQ'},
    'relational_expr': {'LT', 'GT', 'LE', 'GE', 'INSTANCEOF', 'IN'}, 'shift_expr': {'LSHIFT', 'RSHIFT', 'URSHIFT'},
    'additive_expr': {'PLUS', 'MINUS'}, 'multiplicative_expr': {'MULT', 'DIV', 'MOD'},
}
UNARY = {'DELETE', 'VOID', 'TYPEOF', 'PLUSPLUS', 'MINUSMINUS', 'PLUS', 'MINUS', 'BNOT', 'NOT'}
ASSIGN_OPS = {'EQ', 'MULTEQUAL', 'DIVEQUAL', 'MODEQUAL', 'PLUSEQUAL', 'MINUSEQUAL', 'LSHIFTEQUAL', 'RSHIFTEQUAL', 'URSHIFTEQUAL',
              'ANDEQUAL', 'XOREQUAL', 'OREQUAL'}

# statements and the remaining forms: production (as 'lhs -> symbols' with base names) -> (kind, mapping)
T = lambda i: ('text', i)
TABLE = {
    'conditional_expr -> logical_or_expr CONDOP assignment_expr COLON assignment_expr': ('Conditional', {'predicate': 1, 'consequent': 3, 'alternative': 5}),
    'assignment_expr -> left_hand_side_expr assignment_operator assignment_expr': ('Assign', {'left': 1, 'op': T(2), 'right': 3}),
    'expr -> expr COMMA assignment_expr': ('Comma', {'left': 1, 'right': 3}),
    'postfix_expr -> left_hand_side_expr PLUSPLUS': ('PostfixExpr', {'value': 1, 'op': T(2)}),
    'postfix_expr -> left_hand_side_expr MINUSMINUS': ('PostfixExpr', {'value': 1, 'op': T(2)}),
    'member_expr -> member_expr LBRACKET expr RBRACKET': ('BracketAccessor', {'node': 1, 'expr': 3}),
    'member_expr -> member_expr PERIOD identifier_name_string': ('DotAccessor', {'node': 1, 'identifier': 3}),
    'member_expr -> NEW member_expr arguments': ('NewExpr', {'identifier': 2, 'args': 3}),
    'new_expr -> NEW new_expr': ('NewExpr', {'identifier': 2}),
    'call_expr -> member_expr arguments': ('FunctionCall', {'identifier': 1, 'args': 2}),
    'call_expr -> call_expr arguments': ('FunctionCall', {'identifier': 1, 'args': 2}),
    'call_expr -> call_expr LBRACKET expr RBRACKET': ('BracketAccessor', {'node': 1, 'expr': 3}),
    'call_expr -> call_expr PERIOD identifier_name_string': ('DotAccessor', {'node': 1, 'identifier': 3}),
    'arguments -> LPAREN RPAREN': ('Arguments', {}),
    'arguments -> LPAREN argument_list RPAREN': ('Arguments', {'items': 2}),
    'primary_expr_no_brace -> LPAREN expr RPAREN': ('GroupingOp', {'expr': 2}),
    'object_literal -> LBRACE RBRACE': ('Object', {}),
    'object_literal -> LBRACE property_list RBRACE': ('Object', {'properties': 2}),
    'object_literal -> LBRACE property_list COMMA RBRACE': ('Object', {'properties': 2}),
    'property_assignment -> property_name COLON assignment_expr': ('Assign', {'left': 1, 'op': T(2), 'right': 3}),
    'property_assignment -> GETPROP property_name LPAREN RPAREN LBRACE function_body RBRACE': ('GetPropAssign', {'prop_name': 2, 'elements': 6}),
    'property_assignment -> SETPROP property_name LPAREN property_set_parameter_list RPAREN LBRACE function_body RBRACE':
        ('SetPropAssign', {'prop_name': 2, 'parameter': 4, 'elements': 7}),
    'block -> LBRACE source_elements RBRACE': ('Block', {'_children_list': 2}),
    'program -> source_elements': ('ES5Program', {'_children_list': 1}),
    'variable_statement -> VAR variable_declaration_list SEMI': ('VarStatement', {'_children_list': 2}),
    'variable_declaration -> identifier': ('VarDecl', {'identifier': 1}),
    'variable_declaration -> identifier initializer': ('VarDecl', {'identifier': 1, 'initializer': 2}),
    'expr_statement -> expr SEMI': ('ExprStatement', {'expr': 1}),
    'if_statement -> IF LPAREN expr RPAREN statement': ('If', {'predicate': 3, 'consequent': 5}),
    'if_statement -> IF LPAREN expr RPAREN statement ELSE statement': ('If', {'predicate': 3, 'consequent': 5, 'alternative': 7}),
    'iteration_statement -> DO statement WHILE LPAREN expr RPAREN SEMI': ('DoWhile', {'statement': 2, 'predicate': 5}),
    'iteration_statement -> WHILE LPAREN expr RPAREN statement': ('While', {'predicate': 3, 'statement': 5}),
    'iteration_statement -> FOR LPAREN left_hand_side_expr IN expr RPAREN statement': ('ForIn', {'item': 3, 'iterable': 5, 'statement': 7}),
    'continue_statement -> CONTINUE SEMI': ('Continue', {}),
    'continue_statement -> CONTINUE identifier SEMI': ('Continue', {'identifier': 2}),
    'break_statement -> BREAK SEMI': ('Break', {}),
    'break_statement -> BREAK identifier SEMI': ('Break', {'identifier': 2}),
    'return_statement -> RETURN SEMI': ('Return', {}),
    'return_statement -> RETURN expr SEMI': ('Return', {'expr': 2}),
    'with_statement -> WITH LPAREN expr RPAREN statement': ('With', {'expr': 3, 'statement': 5}),
    'switch_statement -> SWITCH LPAREN expr RPAREN case_block': ('Switch', {'expr': 3, 'case_block': 5}),
    'case_clause -> CASE expr COLON source_elements': ('Case', {'expr': 2, 'elements': 4}),
    'default_clause -> DEFAULT COLON source_elements': ('Default', {'elements': 3}),
    'labelled_statement -> identifier COLON statement': ('Label', {'identifier': 1, 'statement': 3}),
    'throw_statement -> THROW expr SEMI': ('Throw', {'expr': 2}),
    'try_statement -> TRY block catch': ('Try', {'statements': 2, 'catch': 3}),
    'try_statement -> TRY block finally': ('Try', {'statements': 2, 'fin': 3}),
    'try_statement -> TRY block catch finally': ('Try', {'statements': 2, 'catch': 3, 'fin': 4}),
    'catch -> CATCH LPAREN identifier RPAREN block': ('Catch', {'identifier': 3, 'elements': 5}),
    'finally -> FINALLY block': ('Finally', {'elements': 2}),
    'function_declaration -> FUNCTION identifier LPAREN RPAREN LBRACE function_body RBRACE': ('FuncDecl', {'identifier': 2, 'elements': 6}),
    'function_declaration -> FUNCTION identifier LPAREN formal_parameter_list RPAREN LBRACE function_body RBRACE':
        ('FuncDecl', {'identifier': 2, 'parameters': 4, 'elements': 7}),
    'function_expr -> FUNCTION LPAREN RPAREN LBRACE function_body RBRACE': ('FuncExpr', {'elements': 5}),
    'function_expr -> FUNCTION LPAREN formal_parameter_list RPAREN LBRACE function_body RBRACE': ('FuncExpr', {'parameters': 3, 'elements': 6}),
    'function_expr -> FUNCTION identifier LPAREN RPAREN LBRACE function_body RBRACE': ('FuncExpr', {'identifier': 2, 'elements': 6}),
    'function_expr -> FUNCTION identifier LPAREN formal_parameter_list RPAREN LBRACE function_body RBRACE':
        ('FuncExpr', {'identifier': 2, 'parameters': 4, 'elements': 7}),
}

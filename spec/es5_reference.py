"""Reference recogniser for the ECMAScript 5.1 syntactic grammar.

Written from the ECMA-262 5.1 edition text: Annex A.3 (Expressions),
A.4 (Statements), A.5 (Functions and Programs) and section 7.9 (automatic
semicolon insertion).  Pure Python 3, no dependencies.

Public interface
----------------
    accepts(tokens) -> bool
    GRAMMAR_NOTES   -> str

``tokens`` is a list of ``(type, text)`` pairs that have already been lexed and
that contain no line terminators and no comments (see TOKEN TYPES below).

Technique
---------
Every nonterminal ``N`` of the specification is one method ``N(pos[, noin])``
that returns the *set of all* positions at which some derivation of ``N``
starting at ``pos`` can end.  Results are memoised on (nonterminal, position,
NoIn flag).  Alternatives are always unioned, never committed to, so no
derivation can be missed.  Left-recursive productions of the form

    A : B | A x1 C1 | A x2 C2 ...

are computed as the least fixed point "start from the ends of B, then keep
extending with any suffix xi Ci" which is exactly the language of the
left-recursive rule.  After that rewrite there is no cycle between
(nonterminal, position) pairs, so plain memoised recursion terminates.

The ``noin`` flag selects the NoIn variant of a nonterminal (A.3): it is
threaded exactly as the specification threads it, and dropped wherever the
specification drops it (inside brackets, parentheses, arguments, function
bodies, object/array literals and the middle operand of ?:).
"""

import sys

__all__ = ["accepts", "GRAMMAR_NOTES", "TOKEN_TYPES"]

GRAMMAR_NOTES = """\
ES5.1 syntactic grammar (Annex A.3-A.5 + 7.9), recognised over pre-lexed tokens.
Known, deliberate simplifications / deviations:
1. DEVIATION (requested): FunctionDeclaration is also accepted wherever a
   Statement is accepted (block bodies, if/loop/with/label bodies, case
   clauses).  In statement position `function` must still be followed by an
   Identifier (an ExpressionStatement may not start with `function`).
2. No early errors and no static semantics at all: no check of assignment
   targets (`1 = 2` is accepted; left operand is any LeftHandSideExpression),
   ++/-- operands follow the grammar only, `return` outside a function,
   `break`/`continue` outside loops / with unknown labels, duplicate labels,
   duplicate property names or getter/setter clashes, strict-mode rules
   (`with`, `eval`/`arguments`, octal, duplicate parameters), regex body
   validity - none are checked.  The section 12 sentence making `return`
   outside a FunctionBody a syntax error is treated as such an early error.
3. Automatic semicolon insertion is only the no-LineTerminator subset: the `;`
   that terminates a variable / expression / do-while / continue / break /
   return / throw / debugger statement may be omitted iff the next token is
   `}` or the input ends.  Never inside a `for (;;)` header, never to form an
   EmptyStatement.  The line-terminator rule and the restricted productions
   ([no LineTerminator here]) cannot arise and are not modelled; in
   particular the ES2015 "`;` optional after do-while `)`" relaxation is NOT
   applied (`do ; while ( a ) b` is rejected, as in ES5.1).
   The "offending token" precondition of 7.9.1 (insert only if the token is
   not allowed by the grammar) is not modelled separately: after a complete
   statement prefix that needs `;`, a `}` can never be a grammatical
   continuation, so the two formulations coincide.
4. Lexical matters are taken on trust from the token types: a REGEX token is a
   complete RegularExpressionLiteral, DIV / DIVEQUAL are always the division
   operators, an ID is never a reserved word.  Only ES5 non-strict reserved
   words are keywords; strict-mode future reserved words (implements, let,
   yield, ...) arrive as ID and are ordinary identifiers.  `get`/`set` are
   recognised by the text of an ID token (GETPROP / SETPROP token types are
   folded into ID).  Token text is otherwise ignored.
5. Unknown token types raise ValueError (rather than silently rejecting).
6. The recursion limit is raised temporarily for long inputs; the recogniser is
   intended for short inputs (it is polynomial but not tuned for big files).
"""

# --------------------------------------------------------------------------
# TOKEN TYPES
# --------------------------------------------------------------------------

_PUNCTUATORS = {
    "PERIOD": ".", "COMMA": ",", "SEMI": ";", "COLON": ":", "PLUS": "+",
    "MINUS": "-", "MULT": "*", "DIV": "/", "MOD": "%", "BAND": "&",
    "BOR": "|", "BXOR": "^", "BNOT": "~", "CONDOP": "?", "NOT": "!",
    "LPAREN": "(", "RPAREN": ")", "LBRACE": "{", "RBRACE": "}",
    "LBRACKET": "[", "RBRACKET": "]", "EQ": "=", "EQEQ": "==", "NE": "!=",
    "STREQ": "===", "STRNEQ": "!==", "LT": "<", "GT": ">", "LE": "<=",
    "GE": ">=", "OR": "||", "AND": "&&", "PLUSPLUS": "++",
    "MINUSMINUS": "--", "LSHIFT": "<<", "RSHIFT": ">>", "URSHIFT": ">>>",
    "PLUSEQUAL": "+=", "MINUSEQUAL": "-=", "MULTEQUAL": "*=",
    "DIVEQUAL": "/=", "LSHIFTEQUAL": "<<=", "RSHIFTEQUAL": ">>=",
    "URSHIFTEQUAL": ">>>=", "ANDEQUAL": "&=", "MODEQUAL": "%=",
    "XOREQUAL": "^=", "OREQUAL": "|=",
}

_KEYWORDS = (
    "BREAK CASE CATCH CONTINUE DEBUGGER DEFAULT DELETE DO ELSE FINALLY FOR "
    "FUNCTION IF IN INSTANCEOF NEW RETURN SWITCH THIS THROW TRY TYPEOF VAR "
    "VOID WHILE WITH NULL TRUE FALSE "
    "CLASS CONST ENUM EXPORT EXTENDS IMPORT SUPER"
).split()

_OTHER = ("NUMBER", "STRING", "ID", "REGEX")

TOKEN_TYPES = frozenset(_PUNCTUATORS) | frozenset(_KEYWORDS) | frozenset(_OTHER)

# IdentifierName (7.6): an Identifier or any ReservedWord (keywords, future
# reserved words, null, true, false).
_IDENTIFIER_NAME = frozenset(_KEYWORDS) | {"ID"}

# PrimaryExpression alternatives that are a single token:
#   this | Identifier | Literal
#   Literal :: NullLiteral | BooleanLiteral | NumericLiteral | StringLiteral
#              | RegularExpressionLiteral
_SINGLE_TOKEN_PRIMARY = frozenset(
    ["THIS", "ID", "NULL", "TRUE", "FALSE", "NUMBER", "STRING", "REGEX"])

_ASSIGNMENT_OPERATORS = frozenset(
    ["EQ", "MULTEQUAL", "DIVEQUAL", "MODEQUAL", "PLUSEQUAL", "MINUSEQUAL",
     "LSHIFTEQUAL", "RSHIFTEQUAL", "URSHIFTEQUAL", "ANDEQUAL", "XOREQUAL",
     "OREQUAL"])

# UnaryExpression prefix operators.
_UNARY_OPERATORS = frozenset(
    ["DELETE", "VOID", "TYPEOF", "PLUSPLUS", "MINUSMINUS", "PLUS", "MINUS",
     "BNOT", "NOT"])

# The left-associative binary levels of A.3, lowest index binds tightest.
# Each entry: (name, operators, operators of the NoIn variant).
# Levels below RelationalExpression have no NoIn variant (the flag is dropped).
_BINARY_LEVELS = (
    ("MultiplicativeExpression", frozenset(["MULT", "DIV", "MOD"]), None),
    ("AdditiveExpression", frozenset(["PLUS", "MINUS"]), None),
    ("ShiftExpression", frozenset(["LSHIFT", "RSHIFT", "URSHIFT"]), None),
    ("RelationalExpression",
     frozenset(["LT", "GT", "LE", "GE", "INSTANCEOF", "IN"]),
     frozenset(["LT", "GT", "LE", "GE", "INSTANCEOF"])),
    ("EqualityExpression",
     frozenset(["EQEQ", "NE", "STREQ", "STRNEQ"]),
     frozenset(["EQEQ", "NE", "STREQ", "STRNEQ"])),
    ("BitwiseANDExpression", frozenset(["BAND"]), frozenset(["BAND"])),
    ("BitwiseXORExpression", frozenset(["BXOR"]), frozenset(["BXOR"])),
    ("BitwiseORExpression", frozenset(["BOR"]), frozenset(["BOR"])),
    ("LogicalANDExpression", frozenset(["AND"]), frozenset(["AND"])),
    ("LogicalORExpression", frozenset(["OR"]), frozenset(["OR"])),
)
_RELATIONAL_LEVEL = 3
_TOP_BINARY_LEVEL = len(_BINARY_LEVELS) - 1


def _memo(fn):
    """Memoise a recogniser method on (method name, arguments)."""
    name = fn.__name__

    def wrapper(self, *args):
        key = (name,) + args
        memo = self._memo
        if key in memo:
            return memo[key]
        result = memo[key] = frozenset(fn(self, *args))
        return result

    wrapper.__name__ = name
    wrapper.__doc__ = fn.__doc__
    return wrapper


def _closure(seed, step):
    """Least set containing ``seed`` and closed under ``step(e) -> iterable``."""
    out = set(seed)
    work = list(out)
    while work:
        e = work.pop()
        for e2 in step(e):
            if e2 not in out:
                out.add(e2)
                work.append(e2)
    return out


class _Recogniser(object):
    """One instance per token list.  All methods named after a nonterminal
    return the frozenset of possible end positions."""

    def __init__(self, types, texts):
        self.n = len(types)
        # Sentinels so that probing a few tokens past the end of the input is
        # always a valid index; None never equals a token type.
        self.t = list(types) + [None] * 4
        self.x = list(texts) + [None] * 4
        self._memo = {}

    # ---- helpers ---------------------------------------------------------

    def _then(self, ends, ty):
        """Positions after consuming one token of type ``ty`` at each end."""
        t = self.t
        return {e + 1 for e in ends if t[e] == ty}

    def _semi(self, ends):
        """The `;` that terminates a statement, with 7.9 ASI restricted to
        the two cases that can arise without line terminators: the offending
        token is `}`, or the end of the input has been reached."""
        t = self.t
        n = self.n
        out = set()
        for e in ends:
            ty = t[e]
            if ty == "SEMI":
                out.add(e + 1)
            elif ty == "RBRACE" or e == n:
                out.add(e)          # virtual semicolon, consumes nothing
        return out

    def _is_id(self, pos, text):
        return self.t[pos] == "ID" and self.x[pos] == text

    # ---- A.3 Expressions -------------------------------------------------

    @_memo
    def PrimaryExpression(self, pos):
        # this | Identifier | Literal | ArrayLiteral | ObjectLiteral
        # | ( Expression )
        ty = self.t[pos]
        out = set()
        if ty in _SINGLE_TOKEN_PRIMARY:
            out.add(pos + 1)
        if ty == "LBRACKET":
            out.update(self.ArrayLiteral(pos))
        if ty == "LBRACE":
            out.update(self.ObjectLiteral(pos))
        if ty == "LPAREN":
            out.update(self._then(self.Expression(pos + 1, False), "RPAREN"))
        return out

    def _elision_opt(self, pos):
        # Elision_opt : zero or more commas
        t = self.t
        out = [pos]
        while t[pos] == "COMMA":
            pos += 1
            out.append(pos)
        return out

    @_memo
    def ElementList(self, pos):
        # ElementList : Elision_opt AssignmentExpression
        #             | ElementList , Elision_opt AssignmentExpression
        def item(p):
            r = set()
            for q in self._elision_opt(p):
                r.update(self.AssignmentExpression(q, False))
            return r

        def step(e):
            if self.t[e] == "COMMA":
                return item(e + 1)
            return ()

        return _closure(item(pos), step)

    @_memo
    def ArrayLiteral(self, pos):
        # [ Elision_opt ] | [ ElementList ] | [ ElementList , Elision_opt ]
        t = self.t
        if t[pos] != "LBRACKET":
            return ()
        out = set()
        for q in self._elision_opt(pos + 1):
            if t[q] == "RBRACKET":
                out.add(q + 1)
        for e in self.ElementList(pos + 1):
            if t[e] == "RBRACKET":
                out.add(e + 1)
            if t[e] == "COMMA":
                for q in self._elision_opt(e + 1):
                    if t[q] == "RBRACKET":
                        out.add(q + 1)
        return out

    @_memo
    def ObjectLiteral(self, pos):
        # { } | { PropertyNameAndValueList } | { PropertyNameAndValueList , }
        t = self.t
        if t[pos] != "LBRACE":
            return ()
        out = set()
        if t[pos + 1] == "RBRACE":
            out.add(pos + 2)
        for e in self.PropertyNameAndValueList(pos + 1):
            if t[e] == "RBRACE":
                out.add(e + 1)
            if t[e] == "COMMA" and t[e + 1] == "RBRACE":
                out.add(e + 2)
        return out

    @_memo
    def PropertyNameAndValueList(self, pos):
        # PropertyAssignment | PropertyNameAndValueList , PropertyAssignment
        def step(e):
            if self.t[e] == "COMMA":
                return self.PropertyAssignment(e + 1)
            return ()

        return _closure(self.PropertyAssignment(pos), step)

    def _property_name(self, pos):
        # PropertyName : IdentifierName | StringLiteral | NumericLiteral
        ty = self.t[pos]
        if ty in _IDENTIFIER_NAME or ty == "STRING" or ty == "NUMBER":
            return (pos + 1,)
        return ()

    @_memo
    def PropertyAssignment(self, pos):
        # PropertyName : AssignmentExpression
        # get PropertyName ( ) { FunctionBody }
        # set PropertyName ( PropertySetParameterList ) { FunctionBody }
        t = self.t
        out = set()
        for e in self._property_name(pos):
            if t[e] == "COLON":
                out.update(self.AssignmentExpression(e + 1, False))
        if self._is_id(pos, "get"):
            for e in self._property_name(pos + 1):
                if t[e] == "LPAREN" and t[e + 1] == "RPAREN":
                    out.update(self._braced_function_body(e + 2))
        if self._is_id(pos, "set"):
            for e in self._property_name(pos + 1):
                # PropertySetParameterList : Identifier
                if (t[e] == "LPAREN" and t[e + 1] == "ID"
                        and t[e + 2] == "RPAREN"):
                    out.update(self._braced_function_body(e + 3))
        return out

    @_memo
    def MemberExpression(self, pos):
        # PrimaryExpression | FunctionExpression
        # | MemberExpression [ Expression ] | MemberExpression . IdentifierName
        # | new MemberExpression Arguments
        t = self.t
        base = set(self.PrimaryExpression(pos))
        base.update(self.FunctionExpression(pos))
        if t[pos] == "NEW":
            for e in self.MemberExpression(pos + 1):
                base.update(self.Arguments(e))

        def step(e):
            r = set()
            if t[e] == "LBRACKET":
                r.update(self._then(self.Expression(e + 1, False), "RBRACKET"))
            if t[e] == "PERIOD" and t[e + 1] in _IDENTIFIER_NAME:
                r.add(e + 2)
            return r

        return _closure(base, step)

    @_memo
    def NewExpression(self, pos):
        # MemberExpression | new NewExpression
        out = set(self.MemberExpression(pos))
        if self.t[pos] == "NEW":
            out.update(self.NewExpression(pos + 1))
        return out

    @_memo
    def CallExpression(self, pos):
        # MemberExpression Arguments | CallExpression Arguments
        # | CallExpression [ Expression ] | CallExpression . IdentifierName
        t = self.t
        base = set()
        for e in self.MemberExpression(pos):
            base.update(self.Arguments(e))

        def step(e):
            r = set(self.Arguments(e))
            if t[e] == "LBRACKET":
                r.update(self._then(self.Expression(e + 1, False), "RBRACKET"))
            if t[e] == "PERIOD" and t[e + 1] in _IDENTIFIER_NAME:
                r.add(e + 2)
            return r

        return _closure(base, step)

    @_memo
    def Arguments(self, pos):
        # ( ) | ( ArgumentList )
        t = self.t
        if t[pos] != "LPAREN":
            return ()
        out = set()
        if t[pos + 1] == "RPAREN":
            out.add(pos + 2)
        out.update(self._then(self.ArgumentList(pos + 1), "RPAREN"))
        return out

    @_memo
    def ArgumentList(self, pos):
        # AssignmentExpression | ArgumentList , AssignmentExpression
        def step(e):
            if self.t[e] == "COMMA":
                return self.AssignmentExpression(e + 1, False)
            return ()

        return _closure(self.AssignmentExpression(pos, False), step)

    @_memo
    def LeftHandSideExpression(self, pos):
        # NewExpression | CallExpression
        return self.NewExpression(pos) | self.CallExpression(pos)

    @_memo
    def PostfixExpression(self, pos):
        # LeftHandSideExpression
        # | LeftHandSideExpression [no LineTerminator here] ++
        # | LeftHandSideExpression [no LineTerminator here] --
        t = self.t
        out = set()
        for e in self.LeftHandSideExpression(pos):
            out.add(e)
            if t[e] == "PLUSPLUS" or t[e] == "MINUSMINUS":
                out.add(e + 1)
        return out

    @_memo
    def UnaryExpression(self, pos):
        # PostfixExpression
        # | (delete|void|typeof|++|--|+|-|~|!) UnaryExpression
        out = set(self.PostfixExpression(pos))
        if self.t[pos] in _UNARY_OPERATORS:
            out.update(self.UnaryExpression(pos + 1))
        return out

    def _binary(self, level, pos, noin):
        """Level ``level`` of _BINARY_LEVELS:
              L : Sub | L op Sub            (NoIn variants likewise, with the
        NoIn operand nonterminals and, for RelationalExpressionNoIn, without
        the `in` operator).  Sub is the next tighter level (UnaryExpression
        below MultiplicativeExpression).  Note ShiftExpression and everything
        tighter has no NoIn variant, so the flag is dropped there."""
        if level < _RELATIONAL_LEVEL:
            noin = False
        return self._binary_memo(level, pos, noin)

    @_memo
    def _binary_memo(self, level, pos, noin):
        _name, ops, ops_noin = _BINARY_LEVELS[level]
        if noin:
            ops = ops_noin
        t = self.t
        if level == 0:
            def sub(p):
                return self.UnaryExpression(p)
        else:
            def sub(p):
                return self._binary(level - 1, p, noin)

        def step(e):
            if t[e] in ops:
                return sub(e + 1)
            return ()

        return _closure(sub(pos), step)

    @_memo
    def ConditionalExpression(self, pos, noin):
        # LogicalORExpression
        # | LogicalORExpression ? AssignmentExpression : AssignmentExpression
        # NoIn:
        # LogicalORExpressionNoIn
        # | LogicalORExpressionNoIn ? AssignmentExpression
        #                           : AssignmentExpressionNoIn
        t = self.t
        out = set()
        for e in self._binary(_TOP_BINARY_LEVEL, pos, noin):
            out.add(e)
            if t[e] == "CONDOP":
                for m in self.AssignmentExpression(e + 1, False):
                    if t[m] == "COLON":
                        out.update(self.AssignmentExpression(m + 1, noin))
        return out

    @_memo
    def AssignmentExpression(self, pos, noin):
        # ConditionalExpression
        # | LeftHandSideExpression AssignmentOperator AssignmentExpression
        # (NoIn: ConditionalExpressionNoIn / AssignmentExpressionNoIn)
        t = self.t
        out = set(self.ConditionalExpression(pos, noin))
        for e in self.LeftHandSideExpression(pos):
            if t[e] in _ASSIGNMENT_OPERATORS:
                out.update(self.AssignmentExpression(e + 1, noin))
        return out

    @_memo
    def Expression(self, pos, noin):
        # AssignmentExpression | Expression , AssignmentExpression
        def step(e):
            if self.t[e] == "COMMA":
                return self.AssignmentExpression(e + 1, noin)
            return ()

        return _closure(self.AssignmentExpression(pos, noin), step)

    def _expression_opt(self, pos, noin):
        return {pos} | self.Expression(pos, noin)

    # ---- A.4 Statements --------------------------------------------------

    @_memo
    def Statement(self, pos):
        # Block | VariableStatement | EmptyStatement | ExpressionStatement
        # | IfStatement | IterationStatement | ContinueStatement
        # | BreakStatement | ReturnStatement | WithStatement
        # | LabelledStatement | SwitchStatement | ThrowStatement
        # | TryStatement | DebuggerStatement
        # DEVIATION: | FunctionDeclaration
        if pos >= self.n:
            return ()
        out = set()
        out.update(self.Block(pos))
        out.update(self.VariableStatement(pos))
        out.update(self.EmptyStatement(pos))
        out.update(self.ExpressionStatement(pos))
        out.update(self.IfStatement(pos))
        out.update(self.IterationStatement(pos))
        out.update(self.ContinueStatement(pos))
        out.update(self.BreakStatement(pos))
        out.update(self.ReturnStatement(pos))
        out.update(self.WithStatement(pos))
        out.update(self.LabelledStatement(pos))
        out.update(self.SwitchStatement(pos))
        out.update(self.ThrowStatement(pos))
        out.update(self.TryStatement(pos))
        out.update(self.DebuggerStatement(pos))
        out.update(self.FunctionDeclaration(pos))     # deliberate deviation
        return out

    @_memo
    def Block(self, pos):
        # { StatementList_opt }
        if self.t[pos] != "LBRACE":
            return ()
        return self._then(self.StatementList_opt(pos + 1), "RBRACE")

    @_memo
    def StatementList_opt(self, pos):
        # StatementList : Statement | StatementList Statement
        return _closure([pos], self.Statement)

    def VariableStatement(self, pos):
        # var VariableDeclarationList ;
        if self.t[pos] != "VAR":
            return ()
        return self._semi(self.VariableDeclarationList(pos + 1, False))

    @_memo
    def VariableDeclarationList(self, pos, noin):
        # VariableDeclaration | VariableDeclarationList , VariableDeclaration
        def step(e):
            if self.t[e] == "COMMA":
                return self.VariableDeclaration(e + 1, noin)
            return ()

        return _closure(self.VariableDeclaration(pos, noin), step)

    @_memo
    def VariableDeclaration(self, pos, noin):
        # Identifier Initialiser_opt ;  Initialiser : = AssignmentExpression
        t = self.t
        if t[pos] != "ID":
            return ()
        out = {pos + 1}
        if t[pos + 1] == "EQ":
            out.update(self.AssignmentExpression(pos + 2, noin))
        return out

    def EmptyStatement(self, pos):
        # ;      (never produced by automatic semicolon insertion)
        if self.t[pos] == "SEMI":
            return (pos + 1,)
        return ()

    def ExpressionStatement(self, pos):
        # [lookahead not in { `{`, function }] Expression ;
        ty = self.t[pos]
        if ty == "LBRACE" or ty == "FUNCTION":
            return ()
        return self._semi(self.Expression(pos, False))

    def _paren_expression(self, pos):
        # ( Expression )
        if self.t[pos] != "LPAREN":
            return ()
        return self._then(self.Expression(pos + 1, False), "RPAREN")

    def _statements_at(self, ends):
        out = set()
        for e in ends:
            out.update(self.Statement(e))
        return out

    @_memo
    def IfStatement(self, pos):
        # if ( Expression ) Statement else Statement
        # | if ( Expression ) Statement
        t = self.t
        if t[pos] != "IF":
            return ()
        out = set()
        for e in self._statements_at(self._paren_expression(pos + 1)):
            out.add(e)
            if t[e] == "ELSE":
                out.update(self.Statement(e + 1))
        return out

    @_memo
    def IterationStatement(self, pos):
        t = self.t
        ty = t[pos]
        out = set()
        if ty == "DO":
            # do Statement while ( Expression ) ;
            for e in self.Statement(pos + 1):
                if t[e] == "WHILE":
                    out.update(self._semi(self._paren_expression(e + 1)))
        elif ty == "WHILE":
            # while ( Expression ) Statement
            out.update(self._statements_at(self._paren_expression(pos + 1)))
        elif ty == "FOR" and t[pos + 1] == "LPAREN":
            p = pos + 2
            heads = set()       # positions just after the closing `)`
            # for ( ExpressionNoIn_opt ; Expression_opt ; Expression_opt )
            heads.update(self._for_rest(self._expression_opt(p, True)))
            if t[p] == "VAR":
                # for ( var VariableDeclarationListNoIn ; Expression_opt ;
                #       Expression_opt )
                heads.update(self._for_rest(
                    self.VariableDeclarationList(p + 1, True)))
                # for ( var VariableDeclarationNoIn in Expression )
                heads.update(self._for_in_rest(
                    self.VariableDeclaration(p + 1, True)))
            # for ( LeftHandSideExpression in Expression )
            heads.update(self._for_in_rest(self.LeftHandSideExpression(p)))
            out.update(self._statements_at(heads))
        return out

    def _for_rest(self, ends):
        # ; Expression_opt ; Expression_opt )     -- real `;` tokens only
        out = set()
        for e in self._then(ends, "SEMI"):
            for e2 in self._then(self._expression_opt(e, False), "SEMI"):
                out.update(self._then(self._expression_opt(e2, False), "RPAREN"))
        return out

    def _for_in_rest(self, ends):
        # in Expression )
        out = set()
        for e in self._then(ends, "IN"):
            out.update(self._then(self.Expression(e, False), "RPAREN"))
        return out

    def _jump(self, pos, keyword):
        # continue ; | continue [no LineTerminator here] Identifier ;
        # (same shape for break)
        if self.t[pos] != keyword:
            return ()
        ends = {pos + 1}
        if self.t[pos + 1] == "ID":
            ends.add(pos + 2)
        return self._semi(ends)

    def ContinueStatement(self, pos):
        return self._jump(pos, "CONTINUE")

    def BreakStatement(self, pos):
        return self._jump(pos, "BREAK")

    def ReturnStatement(self, pos):
        # return ; | return [no LineTerminator here] Expression ;
        if self.t[pos] != "RETURN":
            return ()
        return self._semi(self._expression_opt(pos + 1, False))

    def WithStatement(self, pos):
        # with ( Expression ) Statement
        if self.t[pos] != "WITH":
            return ()
        return self._statements_at(self._paren_expression(pos + 1))

    def LabelledStatement(self, pos):
        # Identifier : Statement
        if self.t[pos] == "ID" and self.t[pos + 1] == "COLON":
            return self.Statement(pos + 2)
        return ()

    @_memo
    def SwitchStatement(self, pos):
        # switch ( Expression ) CaseBlock
        # CaseBlock : { CaseClauses_opt }
        #           | { CaseClauses_opt DefaultClause CaseClauses_opt }
        t = self.t
        if t[pos] != "SWITCH":
            return ()
        out = set()
        for e in self._paren_expression(pos + 1):
            if t[e] != "LBRACE":
                continue
            first = self.CaseClauses_opt(e + 1)
            out.update(self._then(first, "RBRACE"))
            for d in first:
                for d2 in self.DefaultClause(d):
                    out.update(self._then(self.CaseClauses_opt(d2), "RBRACE"))
        return out

    @_memo
    def CaseClauses_opt(self, pos):
        # CaseClauses : CaseClause | CaseClauses CaseClause
        return _closure([pos], self.CaseClause)

    @_memo
    def CaseClause(self, pos):
        # case Expression : StatementList_opt
        if self.t[pos] != "CASE":
            return ()
        out = set()
        for e in self._then(self.Expression(pos + 1, False), "COLON"):
            out.update(self.StatementList_opt(e))
        return out

    @_memo
    def DefaultClause(self, pos):
        # default : StatementList_opt
        if self.t[pos] == "DEFAULT" and self.t[pos + 1] == "COLON":
            return self.StatementList_opt(pos + 2)
        return ()

    def ThrowStatement(self, pos):
        # throw [no LineTerminator here] Expression ;
        if self.t[pos] != "THROW":
            return ()
        return self._semi(self.Expression(pos + 1, False))

    @_memo
    def TryStatement(self, pos):
        # try Block Catch | try Block Finally | try Block Catch Finally
        if self.t[pos] != "TRY":
            return ()
        out = set()
        for b in self.Block(pos + 1):
            catches = self.Catch(b)
            out.update(catches)
            out.update(self.Finally(b))
            for c in catches:
                out.update(self.Finally(c))
        return out

    def Catch(self, pos):
        # catch ( Identifier ) Block
        t = self.t
        if (t[pos] == "CATCH" and t[pos + 1] == "LPAREN"
                and t[pos + 2] == "ID" and t[pos + 3] == "RPAREN"):
            return self.Block(pos + 4)
        return frozenset()

    def Finally(self, pos):
        # finally Block
        if self.t[pos] == "FINALLY":
            return self.Block(pos + 1)
        return frozenset()

    def DebuggerStatement(self, pos):
        # debugger ;
        if self.t[pos] != "DEBUGGER":
            return ()
        return self._semi({pos + 1})

    # ---- A.5 Functions and Programs --------------------------------------

    @_memo
    def FunctionDeclaration(self, pos):
        # function Identifier ( FormalParameterList_opt ) { FunctionBody }
        t = self.t
        if t[pos] == "FUNCTION" and t[pos + 1] == "ID":
            return self._function_rest(pos + 2)
        return ()

    @_memo
    def FunctionExpression(self, pos):
        # function Identifier_opt ( FormalParameterList_opt ) { FunctionBody }
        t = self.t
        if t[pos] != "FUNCTION":
            return ()
        out = set(self._function_rest(pos + 1))
        if t[pos + 1] == "ID":
            out.update(self._function_rest(pos + 2))
        return out

    def _function_rest(self, pos):
        # ( FormalParameterList_opt ) { FunctionBody }
        # FormalParameterList : Identifier | FormalParameterList , Identifier
        t = self.t
        if t[pos] != "LPAREN":
            return set()
        p = pos + 1
        param_ends = {p}                          # empty list
        if t[p] == "ID":
            p += 1
            param_ends.add(p)
            while t[p] == "COMMA" and t[p + 1] == "ID":
                p += 2
                param_ends.add(p)
        out = set()
        for e in self._then(param_ends, "RPAREN"):
            out.update(self._braced_function_body(e))
        return out

    def _braced_function_body(self, pos):
        # { FunctionBody }
        if self.t[pos] != "LBRACE":
            return set()
        return self._then(self.FunctionBody(pos + 1), "RBRACE")

    def FunctionBody(self, pos):
        # SourceElements_opt
        return self.SourceElements_opt(pos)

    @_memo
    def SourceElements_opt(self, pos):
        # SourceElements : SourceElement | SourceElements SourceElement
        return _closure([pos], self.SourceElement)

    def SourceElement(self, pos):
        # Statement | FunctionDeclaration
        return self.Statement(pos) | self.FunctionDeclaration(pos)

    def Program(self):
        # SourceElements_opt, spanning the whole input
        return self.n in self.SourceElements_opt(0)


def _normalise(tokens):
    types = []
    texts = []
    for tok in tokens:
        ty, text = tok[0], tok[1]
        if ty == "GETPROP" or ty == "SETPROP":
            # Contextual get / set delivered as their own token type: these
            # are ordinary identifiers; make the text canonical as well.
            text = "get" if ty == "GETPROP" else "set"
            ty = "ID"
        if ty not in TOKEN_TYPES:
            raise ValueError("unknown token type %r (text %r)" % (ty, text))
        types.append(ty)
        texts.append(text)
    return types, texts


def accepts(tokens):
    """True iff the token list is derivable from Program (ES5.1 Annex A.5)
    with the deviations listed in GRAMMAR_NOTES."""
    types, texts = _normalise(tokens)
    # Deep expression nesting costs roughly 50 Python frames per token.
    need = 1000 + 150 * len(types)
    old = sys.getrecursionlimit()
    if need > old:
        sys.setrecursionlimit(need)
    try:
        return _Recogniser(types, texts).Program()
    finally:
        if need > old:
            sys.setrecursionlimit(old)

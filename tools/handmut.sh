#!/bin/bash
# tools/handmut.sh REL_FILE 'sed-expr' CONTRACTS_MODULE REPO_MODULE -- developer aid: applies one sed edit to a scratch copy of /repo/src and
# counts the contracts of the sidecar module that notice it (tools/e1try.py)
d=$(mktemp -d /tmp/hm-XXXX); mkdir -p $d/repo; cp -r /repo/src $d/repo/src
sed -i "$2" $d/repo/$1
if diff -q $d/repo/$1 /repo/$1 >/dev/null; then echo "NO CHANGE: $2"; rm -rf $d; exit; fi
out=$(VERIF_REPO=$d/repo VERIF_OUT=$d/out /verif/.venv/bin/python /verif/tools/e1try.py $3 $4 2>&1 | grep -v WARNING)
n=$(echo "$out" | grep -c -E " [1-9][0-9]* open,|UNSUPPORTED|cover failed|Traceback")
echo "$n contracts notice: $2"
[ "$n" = 0 ] && echo "$out" | tail -3
rm -rf $d

"""Source of MANIFEST.json (tools/gen_manifest.py)."""
NOTES = ('Contract-based deductive verification of the real Python code; see DESIGN.md. Every check copies the '
         'current /repo/src to a scratch directory and verifies that copy (the pinned test suite imports an '
         'installed wheel instead, DESIGN G1).')

PENDING = 'check not built yet in this session (DESIGN.md section 4 describes the planned contracts); not claimed until it exists'

CHECKS = {
    'C10': dict(
        engine='E1 pyvc + E4',
        level='proof',
        ref='DESIGN.md 4 (C10), 3.2',
        technique='deductive: weakest-precondition style VCs from the real AST with loop invariants, discharged by z3/cvc5; induction lemmas over spec functions',
        text=('Every function of vlq.py except the two mappings helpers is verified against the Source Map V3 rule for all '
              'integers / all lists / all alphabet strings: loop invariants, index and key safety, termination variant, '
              'and the round-trip statements P1, P2, P4 as compositions over the contracts, with 9 induction lemmas. '
              'Proof level because the obligations are unbounded and all discharged by an SMT solver; the whole-mappings '
              'round trip (P3) is only a bounded stand-in and is not counted.'),
        note=('Trusted: Python int = SMT Int; bit operators rewritten by laws BL1-BL5 (side conditions proved, laws themselves '
              're-checked in CPython on a finite range only); alphabet strings represented by digit sequences through the '
              'concretely checked bijection INT_B64/B64_INT; model of generator-expression + str.join; z3 (cvc5 cross-check in '
              'the thorough tier). encode_mappings/decode_mappings: bounded only.'),
    ),
}

CHECKS['C11'] = dict(
    engine='E2 tables + E4',
    level='proof',
    ref='DESIGN.md 4 (C11), 3.3',
    technique='deductive, per grammar production: the real p_* action and the real Node.setpos/findpos/set_comments are executed on tagged slots for every child shape their contracts admit; structural induction over derivations',
    text=('For every one of the 340 productions of the real grammar (extracted by ply reflection) two obligations are decided: '
          'every node the action builds takes the position triple of one slot, that slot is the node\'s first token (or the '
          'operator terminal of an infix/postfix form, or "previous terminal + 1" for an omitted for(;;) clause), and every '
          'token-map entry is the position of the slot holding exactly that text, in order. By induction over the derivation '
          '(a child\'s position is its own first token) this covers all programs; offsets are turned into line/column by the '
          'lexer contract of C06. A bounded whole-pipeline run against the source text stands beside it and is not counted.'),
    note=('Trusted: ply.yacc position-tracking contract (read off yacc.py); Lexer.lookup_colno contract (C06); actions branch on '
          'children only through kind/None/list-ness (shapes = least fixpoint of the real actions). Known finding F19 (empty program).'),
)

CHECKS['C08'] = dict(
    engine='E2 tables + E4',
    level='proof',
    ref='DESIGN.md 4 (C08), 3.3',
    technique='deductive, per grammar production x printer configuration: the node built by the real action from tagged slots is printed by the real Unparser with children replaced by contract stubs; structural induction',
    text=('For each of the 340 productions and each of 5 printer configurations (pretty, minify, minify+drop_semi, '
          'minify+obfuscate, indent+obfuscate) plus a source-attribution run, every positioned fragment printed for the node '
          'must carry the position of a slot of the production holding exactly the fragment\'s text (ASI slots exempt, comma '
          'runs on their first comma), and token fragments must name the innermost enclosing source. With C11 and induction '
          'over the tree this covers all programs. The renamed-identifier case and whole-pipeline layouts are a bounded '
          'stand-in and are not counted.'),
    note=('Trusted: C11, ply tracking contract, induction hypothesis for children. Renamed identifiers (original name recorded) '
          'only bounded. Known finding F21 (first layout token of a later file carries no source).'),
)
CHECKS['C16'] = dict(
    engine='E2 tables + E4',
    level='other',
    ref='DESIGN.md 4 (C16), 3.3',
    technique='deductive per production for children()/tree-ness (real actions on tagged slots); Walker.walk/filter/extract by bounded executable contract only',
    text=('For every production, every node the real action builds returns each node-valued attribute exactly once from '
          'children()/__iter__ and nothing else (O-children), and no child is stored twice (O-linear), so by induction the parser '
          'builds a tree whose pre-order over children() has no duplicates and misses no stored node. The walker functions '
          'themselves (recursive generators) are checked only by a bounded run against an independent attribute closure; hence '
          '"other", not "proof".'),
    note=('Trusted: induction over derivations. Not under deductive contract: Walker.walk, filter, extract, Node.__iter__ '
          '(bounded). Known finding F17 (Comments nodes are never walked).'),
)

CHECKS['C20'] = dict(
    engine='E2 tables + E4',
    level='other',
    ref='DESIGN.md 4 (C20), 3.3',
    technique='deductive per grammar production x indentation string: real definitions + real rules.indent/Indentator run on the node built from tagged slots, level observed on the real Indentator; induction over the tree',
    text=('For every production and 4 indentation strings (two spaces, tab, mixed, empty) and list lengths 0..3, the node built by '
          'the real action is printed with children as stubs: every line-starting token and every child sits at exactly '
          's x (open braces of the node + 1 inside a case/default body), no other leading white space, braces balanced and the '
          'Indentator level back at 0; the program production ends with exactly one newline. By induction (children print '
          'relative to their start level and restore it) this gives the property for all programs. "other" because the '
          'Indentator/process_layouts code is exercised rather than given SMT contracts; whole-program runs are bounded.'),
    note=('Trusted: induction hypothesis for children; lexer token boundaries in the bounded oracle. Fixed defect: empty '
          'indentation string (repo commit "fix: honour an empty indent_str in Indentator").'),
)

CHECKS['C06'] = dict(
    engine='E1 pyvc + E3 charclass + E4',
    level='proof',
    ref='DESIGN.md 4 (C06), 3.2, 3.4',
    technique='deductive: VCs from the real AST for the column arithmetic and keyword classification (z3); exhaustive code-point interval algebra and exhaustive short-string language equality on the real compiled regexes',
    text=('Relative to the assumed ply.lex contract (a token is the input substring at its offset, only t_ignore characters are '
          'skipped), the obligations show for all inputs: everything skipped is ES5 white space and never a line terminator; the '
          'line-terminator and comment regexes accept exactly the ES5 languages (exhaustive on all short strings over separating '
          'alphabets, which is complete for these one-character-lookahead regexes only up to the stated length); longer punctuators '
          'precede their prefixes in the real master regex; keyword classification is the exact-match table of ES5 reserved words '
          '(t_ID proved path by path); columns are offset - line start + 1. The newline bookkeeping loop itself is bounded only.'),
    note=('Trusted: ply.lex contract, Python re, unicodedata 15. Lexer._update_newline_idx: regex decided exhaustively, loop '
          'bounded. Repo fix: U+2028/U+2029 removed from t_ignore.'),
)

CHECKS['C09'] = dict(
    engine='E1 pyvc + E4',
    level='other',
    ref='DESIGN.md 4 (C09)',
    technique='deductive contracts (z3) on the Names and Bookkeeper state machines from the real AST; sourcemap.write / normalisation by bounded executable contract against an independent Source Map V3 decoder',
    text=('Proved for all inputs: Names.update keeps the name->index map injective onto [0,size), returns the index relative to the '
          'previous one and leaves the current index in range (so every source/name index written is in range); Bookkeeper '
          'set/get/del implement the (previous,current) pairs whose difference is the relative value V3 wants. The VLQ layer is '
          'proved under C10. sourcemap.write and normalize_mapping_line (nested loops over str.splitlines pieces, a closure '
          'mutating shared state) are NOT under a deductive contract: they are checked only by the bounded stand-in, which decodes '
          'the produced map with an independent decoder for exhaustive short synthetic streams and real printer streams. '
          'Hence "other".'),
    note=('Trusted: C10, str.splitlines, json/base64, the independent decoder. Bounded only: write(), normalize_mapping_line(), '
          'normalize_mappings(), Names.__iter__, encode_sourcemap.'),
)

CHECKS['C18'] = dict(
    engine='E1 pyvc + E4',
    level='proof',
    ref='DESIGN.md 4 (C18)',
    technique='deductive: path-complete symbolic execution of the real io.read / io.write AST with exceptional control flow (try/except/finally) where every external call may raise at its site; ghost close counters per stream',
    text=('io.read (3 stream kinds) and io.write (8 stream arrangements: factory/open x none/same/separate) are loop-free over '
          'their externals, so exploring every path with each external call (factory, read, parser, unparser, sourcemap.write, '
          'write_sourcemap) either raising or returning is complete: on every normal and exceptional exit each factory-made '
          'stream has been closed exactly once and each passed-in stream never, failures propagate unchanged and parser syntax '
          'errors are re-raised as the same class with a rebuilt message, and the tree gets the stream name. The content part '
          '(text = printer output + link, link/paths designate the lower-level map) is a bounded fault-enumeration stand-in.'),
    note=('Trusted: close() does not raise; externals have no other effect on streams. Bounded only: write_sourcemap, '
          'verify_write_sourcemap_args, normrelpath, node lists.'),
)

CHECKS['C14'] = dict(
    engine='E1 frame + E4',
    level='other',
    ref='DESIGN.md 4 (C14)',
    technique='deductive frame / ownership verification over the real AST (every store has a base owned by the current call; per-call objects allocated in per-call closures); bounded call histories as cross-check',
    text=('For every function of the 9 modules reachable from BaseUnparser.__call__, each store site (attribute/subscript '
          'assignment, del, mutator call, setattr) is shown to target an object allocated within the current call: a local bound '
          'only to fresh allocations or the self of a class whose every instantiation site lies inside the per-call closure '
          '(O-alloc: Indentator, Obfuscator, Dispatcher, Scope, NameGenerator). No mutable default, memoising decorator, global, '
          'module/class-level mutable template or one-shot iterator kept across calls. From these frame conditions and sequential '
          'determinism the history independence follows; that last step is an argument, not an obligation, hence "other". '
          'Histories with abandoned and raised calls and the convenience shortcuts are checked bounded.'),
    note=('Trusted: ownership tables (contracts/frames.py), syntactic aliasing assumptions, determinism of sequential CPython. '
          'Shortcut equalities (str(node), es5.pretty_print/minify_print): bounded only.'),
)
CHECKS['C15'] = dict(
    engine='E1 frame + E4',
    level='other',
    ref='DESIGN.md 4 (C15)',
    technique='deductive frame / ownership verification over the real AST of lexer, parser, asttypes, factory; bounded call histories against fresh interpreters; threads smoke only',
    text=('Every store in every function of the lexer, parser (340 actions), asttypes, factory and utils targets state owned by the '
          'current parse() call; Parser and Lexer are instantiated only inside parse()/Parser.__init__; every Lexer field read is '
          'initialised in __init__; no module- or class-level mutable state, cache, global, mutable default or nested mutable '
          'template exists. Hence two parse() calls share no mutable state, from which history- and schedule-independence follow '
          'given the assumed ply contract. Thread schedules are NOT explored (this family is silent on concurrency): the thread '
          'run is a smoke test; sequences of calls are compared with fresh interpreters up to a bound.'),
    note=('Trusted: ply allocates per-call lexer/parser objects and only reads its generated tables; CPython semantics. '
          'Schedules unexplored.'),
)

CHECKS['C17'] = dict(
    engine='E2 tables + E1 pyvc + E4',
    level='other',
    ref='DESIGN.md 4 (C17)',
    technique='exhaustive equality of the finite lexer/LALR tables of the real objects under the three configurations; deductive contracts (path-complete) for the flag forwarding in Parser.__init__ / Parser.parse',
    text=('The master regular expressions, token tables and LALR action/goto/production tables of a parser loaded from the '
          'generated modules, of one built in memory with optimisation off, and of one built after the optimize helper '
          'regenerated deliberately stale modules are compared entry by entry (about 6000 entries); Parser.__init__ is shown on '
          'its real AST to forward every flag unchanged to Lexer.build / ply.yacc.yacc, and Parser.parse to pass '
          'tracking=self.yacc_tracking. The step "equal tables => equal parses for every text" is the assumed determinism of '
          "ply's driver, hence \"other\"; a bounded differential parse stands beside it."),
    note='Trusted: ply driver determinism, ply table (de)serialisation. setup.py build hook not exercised.',
)

CHECKS['C12'] = dict(
    engine='E4 + E1 pyvc',
    level='other',
    ref='DESIGN.md 4 (C12), 5',
    technique='bounded executable contract (exhaustive short strings, truncations/corruptions, long inputs, time limit) with an independent message-position oracle; deductive safety contracts only on small error-path helpers',
    text=('No contract within reach expresses termination of ply\'s table-driven driver or exception freedom of the whole pipeline, '
          'so the deciding part is a bounded stand-in, labelled as such: every string up to a stated length over a lexical alphabet, '
          'every truncation and sampled single-character corruption/insertion of generated programs and long repetitive inputs must '
          'give a tree or the library\'s syntax error within 5 s, and every position quoted in a message must designate the quoted '
          'text under ES5 line counting. Helpers on the error path (_is_prev_token_lt, _create_semi_token, format_lex_token) are '
          'proved None-safe path by path. Three genuine defects found this way were repaired in the repository.'),
    note=('Bounded, not proved. Trusted: ply raises nothing of its own. Repo fixes: backslash in broken strings, p_error without a '
          'previous token, input ending in non-space white space.'),
)

CHECKS['C04'] = dict(
    engine='E2 tables + E1 pyvc + E4',
    level='other',
    ref='DESIGN.md 4 (C04)',
    technique='grammar facts on the extracted grammar (exhaustive over productions); deductive transition contracts (path-complete, z3) on the real lexer methods auto_semi / _set_tokens / _get_update_token / _create_semi_token; bounded differential stand-in',
    text=('Decided for all inputs relative to ply\'s error detection: exactly the 7.9 statement kinds have an AUTOSEMI alternative, each '
          'paired with a SEMI twin that runs the same action to an equal node (identical trees with or without the semicolon), and '
          'neither empty statements nor for headers accept one; auto_semi returns a semicolon exactly under the 7.9.1 condition '
          'phrased over the lexer state (end of input, `}`, or preceding LINE_TERMINATOR token, never for a semicolon) and pushes the '
          'offending token back once; the restricted keywords produce a semicolon at the line terminator. That "preceding raw token '
          'is a line terminator" coincides with "a line terminator occurred since the previous token" is the representation '
          'invariant whose failures (comments) are the recorded findings F10a-c; postfix restriction missing is F11. The complete '
          'statement over all programs and layouts is only a bounded differential, hence "other".'),
    note=('Trusted: ply calls p_error with the offending token. Known findings F10a, F10b, F10c, F11. Repo fix: U+2028/9 are line '
          'terminators between tokens.'),
)

CHECKS['C05'] = dict(
    engine='E1 pyvc + E4',
    level='other',
    ref='DESIGN.md 4 (C05)',
    technique='deductive transition contracts (path-complete, z3) on the real lexer/parser methods that keep the parenthesis stack and re-lex after `}`/`++`/`--`; classification of `/` against the statement\'s context list by a bounded matrix',
    text=('Proved for all lexer states of the stated shapes: _get_update_token pushes a header frame exactly for `(` after if/for/while/'
          'with and a plain marker otherwise, pops symmetrically, raises only on an unmatched `)`; _set_tokens keeps the previous/'
          'valid/real token bookkeeping; backtracked_token rewinds by exactly one character, clears the push-back queue and preserves '
          'the previous valid token; Parser.p_error returns the re-lexed REGEX only for DIV after `}`/`++`/`--` and otherwise raises '
          '(60 state combinations). Lexer._token itself (IndexError-driven scanning loops) is outside the subset: whether a given `/` '
          'is classified as the grammar dictates is decided by a bounded matrix of 39 regex and 24 division contexts x 13 layouts. '
          'Hence "other".'),
    note=('Trusted: ply reports the offending token to p_error. Known findings F12 (layout after a header), F13 (function declaration), '
          'F24 (reserved-word property). Repo fixes: WITH header, non-space white space before `/`.'),
)

CHECKS['C13'] = dict(
    engine='E2 tables + E1 pyvc/frame + E4',
    level='other',
    ref='DESIGN.md 4 (C13)',
    technique='deductive per grammar production (real actions + real Node.set_comments on tagged comment tokens); contract on Lexer.token hand-over; syntactic frame obligation on the capture flag; bounded placement matrix with pretty-form round trip',
    text=('For every production and child-shape combination (including all combinations of omitted optional children): comments reach a '
          'node only from the terminal it is anchored on, verbatim, with the token\'s own position, in order, as the right comment '
          'kind, and no captured comment is attached to two nodes built by one action; Lexer.token moves the collected list to the '
          'returned token exactly once (6 state cases, path-complete); the capture flag is read only where the comment token is kept, '
          'so the token stream is the same with and without capture; every node kind that can carry comments prints them first. '
          'The statement\'s round-trip clause and "same acceptance" over all placements are a bounded stand-in, hence "other".'),
    note=('Trusted: ply tracking contract; ASI/regex transparency inherited from C04/C05 with their findings. Known findings F25 '
          '(comments on infix-anchored nodes move), F16 (comment splits a restricted production). Repo fix: CaseBlock comments.'),
)

_PRINT_TEXT = ('For every production (array literals with elisions excepted) and every child-shape and list length, the node built by the '
               'real action prints, through the real definitions/handlers of this printer configuration, exactly the production\'s own '
               'terminals and its children in source order, up to the licensed normalisations (automatic semicolon written out, trailing '
               'object-literal comma, %s). By induction the printed token sequence of any tree is the token sequence it was parsed from; '
               'with parser determinism the re-parse gives the same tree PROVIDED adjacent tokens do not fuse and no line break changes '
               'the parse -- that adjacency part is only a bounded stand-in (token-text variations over all productions), hence "other".')
CHECKS['C02'] = dict(
    engine='E2 tables + E4',
    level='other',
    ref='DESIGN.md 4 (C02)',
    technique='deductive per grammar production x minifier configuration (real actions, real definitions, real handlers on tagged slots; structural induction) for token order/presence; token fusion and semicolon dropping by bounded round trip with diagnosed signatures',
    text=_PRINT_TEXT % 'a statement terminator dropped at the very end under drop_semi',
    note=('Trusted: parser determinism; this parser stands in for "any conforming ES5 parser". Known findings F7 (fusions), F8 (1 .y), '
          'F9 (while body semicolon).'),
)
CHECKS['C01'] = dict(
    engine='E2 tables + E4',
    level='other',
    ref='DESIGN.md 4 (C01)',
    technique='deductive per grammar production under the pretty rule set (real actions, definitions, handlers; structural induction) for token order/presence; re-parse equality and print fixpoint by bounded round trip',
    text=_PRINT_TEXT % 'none else for the pretty printer',
    note=('Trusted: parser determinism; C20 (layout); "any conforming ES5 parser" not decidable here. Known finding F8p (1 .y).'),
)

CHECKS['C19'] = dict(
    engine='E4',
    level='other',
    ref='DESIGN.md 4 (C19), 5',
    technique='bounded executable contract with json.loads as post-condition oracle; exhaustive per-token tables (every \\uXXXX escape, raw characters, escapes, number spellings)',
    text=('No deductive contract is within reach: the extractor is a 1300-line rule table interpreted by the generic walker. The check is '
          'a bounded stand-in and labelled so: JSON values of every scalar class and small nesting shape (plus random deeper ones), bound '
          'by var, by assignment, inside a function and among other statements, with fold_ops off and on, must extract to exactly '
          '{name: json.loads(text)}; the literal semantics are covered by exhaustive token-level tables. Nothing here is counted as proved.'),
    note='Oracle: json.loads. Known findings F18a ("\\/"), F18b (surrogate-pair escapes).',
)

CHECKS['C07'] = dict(
    engine='E4 + E2/E3 side obligations',
    level='other',
    ref='DESIGN.md 4 (C07), 5',
    technique='bounded executable post-condition with an independent ES5 scope resolver (spec/scopes.py) on re-parsed obfuscated output; exhaustive side obligations on the definitions\' scope-marker order and on the generated-name alphabet',
    text=('The per-scope set algebra of Scope/CatchScope and the infinite name generator are outside the subset of the VC generator, so '
          'capture-freedom is decided only by a bounded stand-in, labelled so: 23 scoping programs (closures, hoisting, parameters, '
          'function names, nested catch, labels, accessors, scopes with up to 300/3000 names so that multi-letter names and keyword '
          'collisions occur) x 12 printer configurations, plus reused printer objects; the binding partition computed by an '
          'independent resolver must be identical before and after, free/property/top-level names unchanged, no reserved word generated, '
          'only identifier spellings differ. Decided exhaustively: Declare/Push/Pop marker order of every definition against ES5 scoping, '
          'ID_CHARS within IdentifierStart, all reserved words passed to the generator.'),
    note='Oracle: spec/scopes.py. Known finding F15 (var redeclaring a catch parameter). `with`/eval out of scope.',
)

CHECKS['C03'] = dict(
    engine='E2 tables + E3 charclass + E4',
    level='other',
    ref='DESIGN.md 4 (C03), 5',
    technique='deductive per grammar production (real actions on tagged slots against a spec table of what ES5 dictates; operator levels generated from the ES5 operator table); structural family obligations; audited LALR conflict set; exhaustive lexical obligations; bounded differential against an independently written ES5 reference recogniser',
    text=('Decided for all inputs: each of the 340 actions builds the node kind its ES5 production dictates with every child in the '
          'dictated attribute and none dropped or duplicated; the binary operator productions form exactly the ES5 precedence levels, '
          'left-recursive (left associative) with the right operand one level tighter; assignment and conditional are right-nested; the '
          'NoIn family mirrors A.3 and the no-brace-or-function family restricts the left-most operand only; the conflicts ply '
          'resolves silently are exactly the audited ones (dangling else => shift; declaration before expression); t_NUMBER equals the '
          'NumericLiteral grammar on all short strings; identifier classes on ASCII. NOT decided: that the LALR automaton recognises '
          'exactly the language of that grammar -- this is a bounded differential (generated sentences, single-token mutations, all '
          'short token strings) against spec/es5_reference.py. Hence "other".'),
    note=('Trusted: ply LALR construction and driver; spec/es5_actions.py; spec/es5_reference.py (written independently from the spec '
          'text). Known findings F14, F20, F28. Repo fixes: NoIn family, *_nobf right operands.'),
)


# ---- second build round: what changed (appended so that the history of each entry stays readable) -------------------

def _upd(cid, **kw):
    for k, v in kw.items():
        if k.endswith('_add'):
            CHECKS[cid][k[:-4]] = CHECKS[cid][k[:-4]] + ' ' + v
        else:
            CHECKS[cid][k] = v


_upd('C01', engine='E2 tables + E3 charclass + E4',
     technique=('deductive per grammar production under the pretty rule set (real actions, definitions, handlers; structural induction) for '
                'token order/presence (O-print) and for token adjacency (O-sep: the real layout handlers replayed on every boundary token pair '
                'of the LAST/FIRST sets, decided against spec/fuse.py); re-parse equality and print fixpoint by bounded round trip'),
     text_add=('O-sep: for every production and every gap between two of its items, the chain of layout rules the real definitions emit there '
               'is recorded and the real handlers are replayed for each pair (last token class of the left item, first token class of the right '
               'item), with representatives of every lexical class; the text they put between the two tokens must keep them apart exactly when '
               'spec/fuse.py says the two would otherwise fuse or change class.'),
     note_add='O-sep over-approximates LAST/FIRST from the grammar; array productions with elisions are skipped (bounded only).')
_upd('C02', engine='E2 tables + E3 charclass + E4',
     technique=('deductive per grammar production x minifier configuration (real actions, real definitions, real handlers on tagged slots; '
                'structural induction) for token order/presence (O-print) and token adjacency (O-sep against spec/fuse.py, both minify '
                'configurations); semicolon dropping and the whole round trip by a bounded stand-in with diagnosed signatures'),
     text_add=('O-sep (see C01) under minify and minify+drop_semi decides "no two neighbouring tokens fuse or change lexical class" for every '
               'production and boundary pair; its failures are the recorded findings F7/F8.'))
_upd('C03',
     text_add=('Added: the text handed to Parser.parse reaches the LALR driver unchanged and Lexer.input hands it to ply unchanged (E1, with '
               'over-approximated str methods); the regular-expression token pattern equals RegularExpressionLiteral (7.8.5) on all strings of '
               'length <= 6 over a separating alphabet; identifier characters are disjoint from white space and line terminators; a bounded '
               'character-level part (every WhiteSpace/LineTerminator/control code point at the edges, every first character of a regex).'),
     note_add='Repo fix 364c4c5: a regular expression literal cannot contain a line terminator.')
_upd('C04', technique_add='; per-attribute frame obligations on the look-behind state (only _set_tokens / _get_update_token / backtracked_token / '
     'auto_semi / _token store to it)')
_upd('C05', engine='E1 pyvc + frame + E4',
     technique=("deductive: contract of Lexer._token (for all texts and lexer states, loops cut: the regex reader is applied to a `/` iff it "
                "starts no comment and the look-behind state forbids a division; text modelled as length + code-point function, skip() "
                "uninterpreted), transition contracts (path-complete, z3) on _get_update_token / _set_tokens / backtracked_token / p_error, "
                "per-attribute frame obligations on the look-behind state; classification against the statement's context list by a bounded matrix"),
     text_add=('Lexer._token: at every call site of its two readers the precondition holds -- _read_regex only where the next non-ignored '
               'character is a `/` that opens no comment and division is not permitted by (last real token, parenthesis marker), '
               '_get_update_token never there. p_error re-reads `/` and `/=` after `}`/`++`/`--` (fix c2cf23b).'),
     note_add='Repo fix c2cf23b: `/=` is re-read as a regular expression start after a block.')
_upd('C06', text_add=('Added: Lexer.input / Parser.parse forward the text unchanged (E1); Lexer.get_lexer_token takes the column before and '
                      'advances the line table after every token whose pattern can match a line terminator (LT-freeness of each token pattern '
                      'decided by a sound walk over the parsed regex); identifier characters disjoint from separators.'))
_upd('C07', engine='E1 pyvc + E4 + E3 side obligations', technique=(
    'deductive contracts (E1) on Obfuscator.resolve / finalize, Scope.resolve, Scope / CatchScope.build_remap_symbols with recording doubles for '
    'dict/set state and the loop over the sorted items cut; capture freedom as a whole (reserved-set algebra over the scope tree) by a bounded '
    "executable post-condition with an independent ES5 scope resolver; exhaustive side obligations on the definitions' scope-marker order and "
    'the name alphabet'),
     text_add=('Now under contract: an occurrence prints exactly what the scope it was registered in resolves its spelling to; resolve is the first '
               'remapping on the parent chain; build_remap_symbols gives every locally declared symbol, and only those, the next generated name '
               '(none skipped, none reused), builds the generator from the reserved set and recurses into every child; finalize closes, builds the '
               'generator from the reserved keywords and remaps top-level names iff obfuscate_globals.'))
_upd('C08', text_add='Added: the Lexer.input / Parser.parse / get_lexer_token contracts shared with C06/C11 (positions refer to the text as given).')
_upd('C09', technique=('deductive contracts (z3) on Names, Bookkeeper, sourcemap.write (both loops cut, Bookkeeper / Names used by their proved '
                       'contracts, ghost decoder view, per-piece assertions), normalize_mapping_line (loop contract over lines of any length: abstract '
                       'input sequence, fold-abstracted output list, ghost absolute view), verify_write_sourcemap_args and write_sourcemap (wiring, '
                       'recording doubles); the composition of the layers by bounded executable contract against an independent Source Map V3 decoder'),
     text_add=('normalize_mapping_line: for every input segment, a consumer interpolating linearly from the last emitted segment sees the same '
               'source file, line and column; named segments are emitted themselves; the carry equals what the decoder is behind. '
               'verify_write_sourcemap_args: `file` and every `sources` entry are made relative to the map, the URL relative to the output.'),
     note='Trusted: C10, str.splitlines, json/base64, the independent decoder, os.path (normrelpath bounded). write(): for fragment streams of '
          'any length, every positioned piece is mapped at the column where it is written to its own file / line / column / name, a mapping line '
          'ends exactly after a piece ending in CR or LF, continuation lines of a multi-line chunk are at (line + k, 1); inferred positions '
          '(lineno or colno 0) are not constrained. Bounded only: normalize_mappings(), Names.__iter__, encode_sourcemap, the composition.')
_upd('C10', text_add='Added: purity obligations on vlq.py (no store outside call-local values, no module-level mutable state) and a bounded '
                     'call-edit-call history.')
_upd('C11', text_add='Added: the Lexer.input / Parser.parse / get_lexer_token contracts shared with C06/C08.')
_upd('C12', text_add='Added: Parser.parse forwards the text unchanged (E1), so quoted positions refer to the input as given.')
_upd('C13', text_add='Added: per-attribute read/write frame of the comment channel (hidden_tokens / with_comments / yield_comments are read only where '
                     'comments are collected, handed over and attached) and programs with omitted semicolons in the placement matrix.')
_upd('C16', engine='E2 tables + E1 pyvc + E4',
     technique=('deductive per production for children()/tree-ness (real actions on tagged slots); deductive contracts (E1) for Walker.walk / filter / '
                'extract against the pre-order specification over an uninterpreted node sort (loop invariants, recursion by contract) and for '
                'Node.__iter__; purity of walkers.py; bounded stand-in on parsed trees'),
     text_add=('Walker.walk yields pre(n) = flat(kids(n)); filter yields filt(pre(n)); extract returns filt(pre(n))[skip] and raises TypeError exactly '
               'when there are not that many matches.'),
     note='Trusted: induction over derivations; finiteness of trees (termination of the recursion). Node.__iter__: lists of <= 3 children. '
          'Known finding F17 (Comments nodes are never walked).')
_upd('C17', text_add=('Added: contracts (E1) for optimize_build / purge_tabs / reoptimize / reoptimize_all (which files are removed before which '
                      'rebuild, generated names passed on, UTF-8 writer patched in) and two scenarios on the real helper: one module missing + '
                      'the other stale, and a rebuild under LC_ALL=C.'))
_upd('C18', text_add=('Added: sourcemap.write_sourcemap under contract (the JSON text goes unaltered to the map stream, or strictly encoded in the '
                      'declared charset into the data URL), verify_write_sourcemap_args wiring, the unparser modelled as a generator that may yield '
                      'nothing; bounded inline-map decoding over encodings x error handlers.'),
     note='Trusted: close() does not raise; externals have no other effect on streams. Bounded only: normrelpath (os.path), node lists.')
_upd('C19', engine='E2 tables + E4', technique=(
    'deductive per node kind (E2): the real extractor rule table applied to every JSON composite kind with value stubs of every value class '
    '(structural induction over the literal); exhaustive per-token tables for the leaves; bounded executable contract with json.loads as oracle'),
     text_add=('O-extract: arrays, objects (key spellings, repeated keys), var / assignment bindings and programs combine the values of their parts '
               'exactly as JSON does, for children that are opaque or the falsy / empty / non-empty value of each JSON class.'))

# ---- third round ------------------------------------------------------------------------------------------------------
_upd('C01', text_add='Imported: the ownership obligations of C14 (a print leaves nothing behind in the printer); bounded: abandoned and interleaved prints '
                     'through one printer object, then the fixpoint.')
_upd('C02', text_add=('O-semi (depth 2): for every statement production ending in `;` x 19 contexts (followed by a statement, last in a block / function / '
                      'program / case clause, before else / while, body of while / for / for-in / with / label) the terminator is printed unless `}` or the '
                      'end of the text follows, and an empty statement that is a body keeps its `;` (failures = finding F9). O-print is also run on nodes '
                      'whose every terminal carries captured comments: the minifier prints none of them.'))
_upd('C03', text_add='Imported: the lexer-state contracts of C04 / C05 (auto_semi, _set_tokens, _get_update_token, backtracked_token, p_error, _token).')
_upd('C08', text_add='Imported: line-terminator pattern obligations of C06; ownership obligations of C14 (the source stack of a walk does not outlive it).')
_upd('C09', text_add='Imported: the VLQ contracts and executable contracts of C10 (the mappings string is written with them).')
_upd('C10', text_add=('P3: decode_mappings(encode_mappings(m)) == m for every shape of <= 2 lines x <= 2 segments of symbolic integer lists (length >= 1), '
                      'the two functions verified in place through a stated model of str.join / str.split whose side conditions (no part contains the '
                      'separator) are obligations.'),
     note=('Trusted: Python int = SMT Int; bit operators rewritten by laws BL1-BL5 (side conditions proved, laws themselves re-checked in CPython on a finite '
           'range only); alphabet strings represented by digit sequences through the concretely checked bijection INT_B64/B64_INT; model of '
           'generator-expression + str.join; the join/split model of P3; z3 (cvc5 cross-check in the thorough tier). Mappings of other shapes: bounded.'))
_upd('C11', text_add='Imported: line-terminator pattern obligations of C06.')
_upd('C17', text_add='Added: validate_imports (every importable tab module is gone from sys.modules afterwards), generate_tab_names for installed x assumed ply '
                     'versions, and the helper run in a fresh process must leave the modules the parser loads.')
_upd('C07', text_add='Added: closed-world scope-marker obligation (no definition other than function / variable / parameter / catch / identifier forms declares, '
                     'resolves or opens a scope: labels and property names are never renamed).')
_upd('C19', text_add='Tables extended: every JSON escape followed by every printable ASCII character, strings with format characters, all with fold_ops off and on.')

# ---- fourth round ------------------------------------------------------------------------------------------------------
for _cid in ('C01', 'C02', 'C03', 'C04', 'C05', 'C06', 'C08', 'C11', 'C12', 'C13'):
    _upd(_cid, text_add=('Shared entry-point obligations (vf/checks/parsefwd.py): Parser.parse, Lexer.input and io.read hand the text on unchanged (E1); every '
                         'parse() allocates its own Parser / Lexer and leaves no state behind (ownership obligations of C15, including class-level mutable '
                         'defaults); bounded: read(stream) equals parse(text).'))
for _cid in ('C01', 'C02', 'C07', 'C14', 'C20'):
    _upd(_cid, text_add=('Shared printer-factory obligations (contracts/printers.py): pretty_printer / minify_printer / pretty_print / minify_print hand every '
                         'option to the rule set it configures; obfuscation rules are present exactly when asked for and are given the lexer keyword table.'))
_upd('C03', text_add='Added: the keyword table is exactly the 7.6.1 reserved words of non-strict code; identifier classes lie within those of Unicode 15 '
                     '(three recategorised code points listed).')
_upd('C04', text_add='Added: Parser.p_error contracts (the place where an automatic semicolon is requested); do-while and "no line terminator between the tokens" cases.')
_upd('C07', text_add='Added: the obfuscation rule set plugs in only the identifier resolver, its token handler and one pre-walk hook.')
_upd('C09', text_add='Added: encode_sourcemap builds exactly the V3 document; a multi-call scenario sharing book / sources / names.')
_upd('C16', text_add='Added: walk with a condition given still yields every node.')
_upd('C08', text_add='Added: the two token handlers under contract (what a fragment records; a renamed identifier records its original name and takes the position of that name).',
     note='Trusted: C11, ply tracking contract, induction hypothesis for children. Known finding F21 (first layout token of a later file carries no source).')
_upd('C17', text_add='Added: building the non-optimised parser is itself an obligation (ply validates rules and token lists only in that mode).')
_upd('C18', text_add=('Added: externals may raise non-Exception failures (KeyboardInterrupt-like) as well; the two normalisation switches reach sourcemap.write / '
                      'write_sourcemap under their own names; node lists; utils.normrelpath wiring.'))
_upd('C14', text_add='Frame analysis rule added: class-level mutable defaults mutated through self.')
_upd('C15', text_add='Frame analysis rule added: class-level mutable defaults mutated through self; the token allowance is limited to the functions ply hands tokens to.')

# ---- fifth round -------------------------------------------------------------------------------------------------------
_upd('C07', text_add=('Added (contracts/scopes.py, contracts/obfuscator.py): the symbol tables for arbitrary set / dict contents (z3 arrays): '
                      'declare, reference, close (every leaked symbol is referenced in the parent with its count; the loop runs over exactly the leaked '
                      'table), declared / global / non-local / leaked symbols, global symbols of the children, _reserved_symbols (contains every free '
                      'name used here or below and the resolved name of every outer symbol used here), CatchScope variants, construction and nesting of '
                      'scopes; every Obfuscator marker handler acts once on exactly the current scope, walk() installs exactly the handler table, '
                      'prewalk_hook = walk then finalize.  NameGenerator: every yielded name is non-empty and outside the skip set (loops cut), derived '
                      'generators skip the union, __next__ delegates.'),
     note=('Trusted: spec/scopes.py oracle; C02 for the non-identifier tokens; neighbours of a scope are doubles with arbitrary sets (induction '
           'hypothesis); set images known from below; dict iteration model. Not proved: composition into whole-program capture freedom (bounded); '
           'pairwise distinctness of generated names (model of itertools.product + repetition-free alphabet; bounded prefix); CatchScope.declare (finding F15).'))
_upd('C06', text_add='Added: Lexer._update_newline_idx under contract (models of PATTERN.split with one group and of the pairwise zip idiom; loop cut): '
                     'line counter and recorded line starts are exact for any number of line terminator sequences in a token.')
for _cid in ('C08', 'C11', 'C12'):
    _upd(_cid, text_add='Imported with the position contracts of C06: Lexer._update_newline_idx.')
_upd('C09', text_add='Added: normalize_mappings threads the carry of each line into the next (first: the given column, 0 by default) and keeps one entry per line.')
_upd('C16', text_add='An exception raised by the walkers on a parsed tree is a violation (was: checker crash).')
_upd('C20', text_add=('Added: Indentator.layout_handler_newline_optional under contract (neighbour texts over a finite set of shapes, level and indentation '
                      'strings symbolic: the line break is there exactly once and the indentation of the level follows it), replayed on the real handler; '
                      'O-depth also prints every production with comments attached to each terminal.'))
for _cid in ('C01', 'C02', 'C07', 'C14', 'C20'):
    _upd(_cid, text_add=('Shared walk obligations (contracts/unparse_walk.py): the top-level loop of unparsers.walker.walk yields every text chunk of the '
                         'rule walk once and in order, each preceded by the resolution of exactly the layout markers pending since the previous text '
                         'chunk (sequences of any length, loop cut); the recursive rule walker forwards each rule\'s chunks in order, substitutes the '
                         'error handler\'s answer for a rule that raises, and restores the node / source-path stacks (definitions of <= 3 rules).'))

# ---- sixth round (seeds J/K) ---------------------------------------------------------------------------------------------
_upd('C06', text_add='Added: every look-alike spelling of a reserved word (case variants; characters whose case mapping or NFKC form is an ASCII letter '
                     'sequence: long s, dotless i, ligatures, full-width letters) is lexed as an identifier.')
_upd('C08', text_add='Added: files combined after being read through io.read, equal texts included: every fragment names the file its text was read from.')
_upd('C12', text_add='Added: errors directly behind tokens whose text is special to string formatting; the position contracts of C06 are imported; every '
                     'hand-written corpus program is used in the quick tier too.')
_upd('C13', text_add='Added: the position contracts of C06 are imported; comment shapes containing and followed by every ES5 line terminator.')
_upd('C14', text_add='Frame analysis rule added: a module-level mutable object stored uncopied in an instance attribute and mutated through it.')
_upd('C17', text_add='Added: unlink_modules under contract (each path unlinked once in order; a failing unlink stops the helper with that error).')
_upd('C18', text_add='Added: the re-labelled syntax error keeps the class the parser raised (contract variant with a subclass, bounded witness over real '
                     'syntax errors); the inline data URL is decoded with the standard base64 alphabet only, names reaching + and / at every alignment.')
_upd('C19', text_add='Added: reserved words and the vocabulary of objects as keys (per node kind and in the JSON corpus).')
_upd('C20', text_add='Added: the source-level helper calmjs.parse.es5.pretty_print with the indentation string given by position and by keyword.')
for _cid in ('C01', 'C02'):
    _upd(_cid, text_add='Corpus: an expression-ending `}` followed by a division; a regular expression starting with `=` behind a block, same and next line.')
_upd('C07', text_add='Added (contracts/remap.py): Scope.resolve and the renaming loop of Scope.build_remap_symbols in state form over arbitrary tables: every '
                     'referenced local symbol gets a generated name outside the reserved set, names pairwise different, every other entry untouched '
                     '(quantified loop invariants, z3).')

# ---- seventh round (seeds L/M) --------------------------------------------------------------------------------------------
for _cid in ('C01', 'C02'):
    _upd(_cid, text_add='Corpus: runs of layout-only chunks of every length in a range (function expressions closing together), an empty block behind such a run, '
                        'a prefix ++ / -- statement directly behind a block, holes inside nested array literals.')
_upd('C02', note='Known findings F7, F8, F9, F29 (drop_semi drops the terminator of a statement followed only by brace / semicolon tokens).')
_upd('C03', text_add='lex.number also over digits of other scripts (a \\d in the pattern would accept them), against an independent hand-written NumericLiteral recogniser.')
_upd('C12', text_add='Inputs added: format-control and control characters at the very end of the input and before trailing white space.')
_upd('C14', text_add='The tree is compared before / after through every attribute of every reachable node (private ones and token maps included), not only its repr.')
_upd('C17', text_add='purge_tabs also with one or none of the two generated modules present; `__debug__` is an arbitrary boolean for the VC generator '
                     '(how the interpreter was started may not change which tables are used).')
_upd('C18', text_add='Node collections given as tuple / iterator / generator (also interleaved with non-nodes) against the list form; normrelpath with bases in the '
                     'root directory under three working directories.')
_upd('C20', text_add='BaseUnparser.__init__ under contract (the printer has its own definitions table with the given entries); the ownership obligations of C14 '
                     'are imported (no printer object or table is shared between calls).')

# ---- texts rewritten where the first-round wording had been overtaken (the _upd additions above say what was added; these say what holds now)
_upd('C07', engine='E1 pyvc + frame + E4 + E3 side obligations', technique=(
    'deductive contracts (E1, z3) on the whole renaming machinery of handlers/obfuscation.py: symbol tables over arbitrary sets / dicts (z3 arrays), '
    'reserved set, scope construction, every Obfuscator marker handler, name generator, and the renaming loop / resolve in state form with quantified '
    'invariants; capture freedom of whole programs (the composition of these contracts along a walk) by a bounded executable post-condition with an '
    "independent ES5 scope resolver; exhaustive side obligations on the definitions' scope-marker order and the name alphabet"),
     text=('Under contract for arbitrary symbol tables (no bound on the number of symbols; parent and children are doubles with arbitrary sets = induction '
           'hypothesis over the scope tree): declare, reference, close (every leaked symbol is referenced in the parent with its count; the loop runs over '
           'exactly the leaked table), declared / global / non-local / leaked symbols, global symbols of the children, _reserved_symbols (contains every free '
           'name used here or below and the resolved name of every outer symbol used here), CatchScope variants, construction and nesting; resolve = first '
           'table on the chain that has the symbol; build_remap_symbols gives every referenced local symbol a name of the generator built for the reserved '
           'set, names pairwise different, every other entry untouched, and recurses into every child; every Obfuscator marker handler acts once on exactly '
           'the current scope, walk() installs exactly the handler table, prewalk_hook = walk then finalize, finalize closes before it renames; '
           'NameGenerator yields only non-empty names outside its skip set, derived generators skip the union. Decided exhaustively: Declare / Push / Pop '
           'marker order of every definition against ES5 scoping (closed world), ID_CHARS within IdentifierStart and repetition free, all reserved words '
           'passed to the generator, the obfuscation rule set plugs in only the resolver. NOT proved, hence "other": the composition of these contracts '
           'into capture freedom of a whole program (paper argument in DESIGN 9.10) -- bounded stand-in: 35 scoping programs (closures, hoisting, '
           'parameters, function names, nested catch, labels, accessors, scopes with up to 300 / 3000 names) x 12 printer configurations, reused printer '
           'objects, the binding partition of an independent resolver identical before and after; pairwise distinctness of generated names rests on the '
           'model of itertools.product (+ bounded prefix); CatchScope.declare has no contract (finding F15).'))
_upd('C09', text=('Proved for all inputs: Names.update keeps the name->index map injective onto [0,size), returns the index relative to the previous one and '
                  'leaves the current index in range; Bookkeeper set/get/del implement the (previous,current) pairs whose difference is the relative value V3 '
                  'wants. sourcemap.write with normalisation off (both loops cut; fragments and line pieces are abstract sequences): every explicitly '
                  'positioned piece is mapped at the generated column where it is written to its own file, line, column and name; unpositioned pieces end '
                  'the mapping. normalize_mapping_line (lines of any length): a consumer interpolating linearly from the last emitted segment sees the same '
                  'source file, line and column for every input segment; named segments are emitted themselves; the carry equals what the decoder is behind. '
                  'normalize_mappings threads that carry through the lines (first: the given column, 0 by default), one entry per line. '
                  'verify_write_sourcemap_args / write_sourcemap: `file` and every `sources` entry are made relative to the map, the URL relative to the '
                  'output; encode_sourcemap builds exactly the V3 document. The VLQ layer is proved under C10 and imported. NOT proved, hence "other": the '
                  'composition write -> normalise -> encode -> decode, inferred positions of unpositioned pieces, str.splitlines / rstrip (over-approximated): '
                  'bounded stand-in decoding the produced map with an independent decoder for exhaustive short synthetic streams, real printer streams and a '
                  'multi-call scenario sharing book / sources / names.'))
_upd('C10', text=('Every function of vlq.py is verified against the Source Map V3 rule for all integers / all lists / all alphabet strings: loop invariants, '
                  'index and key safety, termination variant, and the round-trip statements P1, P2, P4 as compositions over the contracts, with 9 induction '
                  'lemmas; the whole-mappings round trip P3 (decode_mappings(encode_mappings(m)) == m) for every shape of <= 2 lines x <= 2 segments of '
                  'symbolic integer lists through a stated model of str.join / str.split whose side conditions are obligations, other shapes by the bounded '
                  'stand-in. Proof level because the obligations are unbounded and all discharged by an SMT solver. Also: purity obligations on vlq.py (no '
                  'store outside call-local values, no module-level mutable state) and a bounded call-edit-call history.'))
_upd('C16', text=('For every production, every node the real action builds returns each node-valued attribute exactly once from children()/__iter__ and '
                  'nothing else (O-children), and no child is stored twice (O-linear), so by induction the parser builds a tree whose pre-order over children() '
                  'has no duplicates and misses no stored node. The walker functions are under contract over an uninterpreted node sort (loop invariants; the '
                  'recursive calls by contract = partial correctness, termination from finiteness of trees): Walker.walk yields pre(n) = flat(kids(n)), also '
                  'when a condition is given; filter yields filt(pre(n)); extract returns filt(pre(n))[skip] and raises TypeError exactly when there are not '
                  'that many matches; Node.__iter__ = the non-None entries of children() (lists of <= 3). "other" because of known finding F17 (Comments nodes '
                  'are stored in an attribute no children() returns) and the bounded parts (longer child lists, whole parsed trees against an independent '
                  'attribute closure; an exception from the walkers on a parsed tree is a violation).'))
_upd('C19', text=('The extractor is a rule table interpreted by the generic walker, so there are no SMT contracts; the deciding part is E2 (the real rule table '
                  'applied, per node kind, to value stubs): O-extract -- arrays, objects (key spellings incl. reserved words and object vocabulary, repeated '
                  'keys: the later one wins), var / assignment bindings and programs combine the values of their parts exactly as JSON does, for children that '
                  'are opaque or the falsy / empty / non-empty value of each JSON class (structural induction over the literal); the leaves by exhaustive '
                  'token-level tables (every \\uXXXX escape, every raw character, every two-character escape followed by every printable ASCII character, '
                  'number shapes), all with fold_ops off and on. Bounded stand-in, labelled so: JSON values of every scalar class and small nesting shape plus '
                  'random deeper ones, bound by var, by assignment, inside a function and among other statements, must extract to exactly '
                  '{name: json.loads(text)}. Known findings F18a / F18b (two string-literal cases).'))

_upd('C07', text_add='Scoping programs added: hoisting seen from an inner scope that closes before the nearer declaration appears.')

# ---- round 7 -------------------------------------------------------------------------------------------------------------------
_LISTS = ('List rules under contract (contracts/ruletypes.py, E1, z3): JoinAttr.__call__ and ElisionJoinAttr.__call__ for child lists of ANY length '
          '(loop contracts over an uninterpreted item sort: result = item0 (separator item_k)*, the Elision rule of 11.1.4), Attr / Text / Optional / '
          'ElisionToken / Operator / CommentsAttr for every kind of value (None, [], 0, the empty string, nodes, lists), Declare.__call__ for attribute '
          'lists of any length (the handler is called once per item, in order); constants they rest on are obligations (the Elision separator is one '
          'comma, every ElisionJoinAttr of the stock definitions carries a tuple, Token.__init__ keeps its arguments). This is what carries the '
          'per-production runs (child lists of length 0..3) to lists of every length.')
for _cid in ('C01', 'C02', 'C07', 'C08', 'C13', 'C14', 'C20'):
    _upd(_cid, text_add=_LISTS)
_upd('C08', text_add='Imported: the shared printer contracts (BaseUnparser, Dispatcher, walk / _walk, list rules).')
_upd('C13', text_add=('Imported: the shared printer contracts (comments are printed by the Attr rules through the shared walk). The tagged comments of '
                      'O-comments carry leading / trailing blanks (space, tab, NBSP), a doubled blank and mixed case, so "verbatim" is sensitive to any tidying.'))
_upd('C02', text_add=('class.required_space_covers_identifier_end / _start (E3, exhaustive over all code points, from the two real compiled patterns): every '
                      'character an identifier of the real lexer can end in / start with is a boundary character of required_space -- what makes the '
                      'representative spellings of O-sep sufficient. A genuine defect found by it was repaired in the repository (c62c868: U+1885 / U+1886).'),
     note_add='Repo fix c62c868 (identifier characters outside \\w of the running interpreter).')
_upd('C01', text_add=('class.required_space_covers_identifier_start (E3, all code points): the one place the pretty printer decides a space by character '
                      'class (operand of typeof / void / delete); repaired in the repository together with the C02 case (c62c868).'))
_upd('C12', text_add=('lex.string_pattern_unambiguous (E3, exhaustive): every string body of length <= 4 over a representative of every class the '
                      'alternatives of the real string pattern distinguish splits into those alternatives in at most one way -- an ambiguous piece makes an '
                      'unterminated string backtrack exponentially. Found on the unchanged tree (octal escapes: 3^n) and repaired in the repository '
                      '(ad0f07d); inputs added: unterminated strings / regular expressions / comments / numbers repeating such a piece 30 and 60 times; '
                      'errors next to an inserted semicolon (a neighbour quoted as ";" at N:0 carries the library\'s "no column").'),
     note_add='Repo fix ad0f07d (exponential backtracking of the string pattern).')
_upd('C18', text_add=('A write to a module- or class-level container reached from the function under contract is a frame violation of the VC generator '
                      '(the closer list of io.write must be per call); bounded: the streams of the previous call are not touched by the next one.'))
_upd('C05', text_add=('Imported: Lexer.get_lexer_token hands out exactly the token ply returned, asking ply once, whatever the two comment switches say '
                      '(the token _token decides about is ply\'s next token); the matrix reads every text containing a comment with comment capture on '
                      'as well and the two readings must agree.'))
_upd('C03', text_add='Imported with the lexer-state contracts: Lexer.get_lexer_token (ply\'s next token, asked once, independent of the comment switches).')

NOT_APPLICABLE = {}


# ---- round 8 additions (appended to the level texts)
_ROUND8 = {'C19': " Round 8 (E1, contracts/extractor.py): what each value-building rule hands to the dispatcher -- LiteralEval evaluates exactly the text of each chunk of its one walk call (symbolic texts, literal_eval external), GroupAsList keeps every value in order, the falsy ones included, unary minus / plus of a Number operand for every integer, RawBoolean, Raw, the token handler's fragment (finite scenarios: chunk / item lists of length 0..3).  Known finding F31: object literals nested about 130 levels and more end in RecursionError.", 'C12': " Round 8 (E1, contracts/errors.py): Parser._raise_syntax_error for every combination of missing neighbours (8 cases: the library's syntax error, the lexer asked exactly once, every existing token formatted once, in order), Lexer.t_error (handlers run first and in order, a raising handler ends it, current token missing / present; pre-condition from ply: the error token's text is not empty), Lexer.t_regex_error, Lexer.next.", 'C07': ' Round 8: Resolve / Literal / Comment.__call__ (contracts/ruletypes.py: the handler registered for THIS rule is called exactly once with (dispatcher, node), its answer returned unchanged; Resolve refuses a non-Identifier before any lookup); a contract stated for an instance of a subclass is verified against the method that runs for that instance (an override added in the subclass is examined, not the base-class text); scoping programs with named function expressions and catch clauses at program level.  Known finding F30: the name of a named function expression is declared in the enclosing scope.', 'C01': " Round 8 (E1, contracts/corehandlers.py): for ALL neighbour texts layout_handler_space_optional_pretty / _space_minimum emit one implied space exactly when the boundary pair (last character before, first character after) is matched by required_space (an uninterpreted predicate here; the pattern itself is decided over all code points by class.required_space_*), the header / assignment-operator cases included; the character handlers print the node's own ';' '{' '}' with its position.  Known finding F32: get / set in front of in / instanceof.", 'C02': " Round 8 (E1, contracts/corehandlers.py): for ALL neighbour texts layout_handler_space_minimum emits one implied space exactly when the boundary pair is matched by required_space (uninterpreted; the pattern is decided by class.required_space_*), layout_handler_semicolon_optional prints the node's ';' exactly when a non-empty text follows.  Known finding F32m: get / set in front of in / instanceof.", 'C20': ' Round 8: the layout handlers of handlers/core.py under contract for all neighbour texts (contracts/corehandlers.py), imported through the shared printer obligations.', 'C17': ' Round 8: the C-locale rebuild obligation runs the real entry point (python -m calmjs.parse.parsers.optimize), not a call of the function it is expected to make.'}
for _k, _t in _ROUND8.items():
    if _t not in CHECKS[_k]['text']:
        CHECKS[_k]['text'] += _t
CHECKS['C19']['engine'] = 'E2 tables + E1 pyvc + E4'
CHECKS['C19']['technique'] += '; E1 contracts (z3) on the value-building rules: LiteralEval, GroupAsList, unary sign, RawBoolean, Raw, token handler'
CHECKS['C19']['note'] += ' Known finding F31 (recursion limit at about 130 nested objects).'
CHECKS['C07']['note'] += ' Known finding F30 (named function expression declared in the enclosing scope).'
CHECKS['C01']['note'] += ' Known finding F32 (get / set before in / instanceof).'
CHECKS['C02']['note'] += ' Known finding F32m (get / set before in / instanceof).'

for _k in ('C01', 'C02', 'C20'):
    CHECKS[_k]['text'] += (" process_layouts (contracts/layouts.py): for buffers of 0..4 pending layout markers (5 in the thorough tier) and EVERY handler table (free choice per rule tuple) "
                           "the handler calls are a contiguous, in-order, repetition-free cover of the buffer, every handler sees the true neighbour texts and the text of the previous fragment of the run, "
                           "the groups are those of leftmost-first normalisation (longest pending run ending in the new marker that the table knows), and exactly the handlers' fragments are yielded.")
CHECKS['C09']['text'] += (" Round 8 (contracts/smsmall.py): Names.__init__ (empty table, current index 0), Names.__iter__ (the names array lists the names in the order of their indices, for every "
                          "insertion order of up to four names), Book.__init__ and default_book (generated columns counted from 0, source lines / columns from 1: what sourcemap.write's contract assumes of a default book).")
for _k in ('C11', 'C08'):
    CHECKS[_k]['text'] += (" Round 8 (contracts/positions.py): Node.findpos for all integers ply may answer (offset and line of exactly the slot asked for, the column looked up for exactly these two, 0 without "
                           "a positive line or without the lexer's helper), Node.getpos for all indices >= 0 (the idx-th recorded position of the text, the implied (0, 0, 0) beyond).")
CHECKS['C12']['text'] += (" broken_string_token_handler (the registered error-token handler): for ANY error token and input text it returns or raises the library's syntax error -- no IndexError / KeyError / "
                          "AttributeError whatever follows the matched part (z3 string theory over the symbolic input; the two patterns are doubles, the escape-scan one backed by the exhaustive constant obligation "
                          "lex.escape_scan_matches_every_x_u_prefix over all code points).")
for _k in ('C14', 'C20'):
    CHECKS[_k]['text'] += (" factory.py (contracts/factory.py): the wrapper behind es5.pretty_print / minify_print(source, ...) calls the parser once with (source, with_comments=<the keyword, False when absent>) and the "
                           "printer once with (that tree, every other positional and keyword argument unchanged and in order), returning its result; the parse wrapper forwards everything (12 argument shapes each).")

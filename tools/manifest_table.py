"""Source of MANIFEST.json (tools/gen_manifest.py)."""
NOTES = ('Contract-based deductive verification of the real Python code; see DESIGN.md. Every check copies the '
         'current /repo/src to a scratch directory and verifies that copy (the pinned test suite imports an '
         'installed wheel instead, DESIGN G1).')

PENDING = 'check not built yet in this session (DESIGN.md section 4 describes the planned contracts); not claimed until it exists'

CHECKS = {
    'C10': dict(
        engine='E1 pyvc + E4',
        level='proof',
        ref='DESIGN.md 4 (C10), 3.2',
        technique='deductive: weakest-precondition style VCs from the real AST with loop invariants, discharged by z3/cvc5; induction lemmas over spec functions',
        text=('Every function of vlq.py except the two mappings helpers is verified against the Source Map V3 rule for all '
              'integers / all lists / all alphabet strings: loop invariants, index and key safety, termination variant, '
              'and the round-trip statements P1, P2, P4 as compositions over the contracts, with 9 induction lemmas. '
              'Proof level because the obligations are unbounded and all discharged by an SMT solver; the whole-mappings '
              'round trip (P3) is only a bounded stand-in and is not counted.'),
        note=('Trusted: Python int = SMT Int; bit operators rewritten by laws BL1-BL5 (side conditions proved, laws themselves '
              're-checked in CPython on a finite range only); alphabet strings represented by digit sequences through the '
              'concretely checked bijection INT_B64/B64_INT; model of generator-expression + str.join; z3 (cvc5 cross-check in '
              'the thorough tier). encode_mappings/decode_mappings: bounded only.'),
    ),
}

NOT_APPLICABLE = {p: PENDING for p in ['C01', 'C02', 'C03', 'C04', 'C05', 'C06', 'C07', 'C08', 'C09', 'C11', 'C12',
                                        'C13', 'C14', 'C15', 'C16', 'C17', 'C18', 'C19', 'C20']}

#!/usr/bin/env python3
"""tools/mutsweep.py FILE [--checks C01,C02] [--max N] [--jobs J] [--only-survivors]

Automatic mutation sweep over one source file of /repo (scratch copies under /tmp only): every mutant that the pinned test suite does
not notice ("survivor") is run against the given checks; the report lists survivors no check reports.  Those are either equivalent
mutants or gaps in the checks -- to be judged by hand.  Mutation operators: comparison flips, and/or, not-removal, small integer
constants +1, True/False, +/-; branch conditions forced; simple statements deleted, `return x` -> `return None`
(--only-deletions runs just these).  Docstrings, logging calls and raise messages are left alone."""
import ast
import copy
import json
import os
import shutil
import subprocess
import sys
import tempfile
from concurrent.futures import ThreadPoolExecutor

REPO = '/repo'
VERIF = os.path.dirname(os.path.dirname(os.path.abspath(__file__)))

CMP = {ast.Eq: ast.NotEq, ast.NotEq: ast.Eq, ast.Lt: ast.LtE, ast.LtE: ast.Lt, ast.Gt: ast.GtE, ast.GtE: ast.Gt,
       ast.Is: ast.IsNot, ast.IsNot: ast.Is, ast.In: ast.NotIn, ast.NotIn: ast.In}


def statements(tree):
    """(stmt, parent list) of simple statements and compound-statement headers, innermost first"""
    out = []
    for node in ast.walk(tree):
        for field in ('body', 'orelse', 'finalbody'):
            lst = getattr(node, field, None)
            if isinstance(lst, list):
                for st in lst:
                    if isinstance(st, ast.stmt):
                        out.append(st)
    return out


def is_noise(st):
    if isinstance(st, ast.Expr) and isinstance(st.value, ast.Constant):
        return True          # docstring
    if isinstance(st, ast.Expr) and isinstance(st.value, ast.Call):
        f = st.value.func
        if isinstance(f, ast.Attribute) and isinstance(f.value, ast.Name) and f.value.id in ('logger', 'logging', 'warnings'):
            return True
    if isinstance(st, (ast.Import, ast.ImportFrom, ast.ClassDef, ast.FunctionDef, ast.Raise)):
        return True
    return False


def own_expr_nodes(st):
    """expression nodes belonging to this statement but not to nested statements"""
    stack = []
    for field, value in ast.iter_fields(st):
        if field in ('body', 'orelse', 'finalbody', 'handlers'):
            continue
        if isinstance(value, ast.AST):
            stack.append(value)
        elif isinstance(value, list):
            stack.extend(v for v in value if isinstance(v, ast.AST))
    out = []
    while stack:
        n = stack.pop()
        if isinstance(n, ast.stmt):
            continue
        out.append(n)
        stack.extend(ast.iter_child_nodes(n))
    return out


def mutants_of(src):
    tree = ast.parse(src)
    lines = src.split('\n')
    res = []
    for st in statements(tree):
        if is_noise(st):
            continue
        nodes = own_expr_nodes(st)
        for idx, n in enumerate(nodes):
            muts = []
            if isinstance(n, ast.Compare):
                for k, op in enumerate(n.ops):
                    if type(op) in CMP:
                        muts.append(('cmp%d %s->%s' % (k, type(op).__name__, CMP[type(op)].__name__), ('cmp', k)))
            elif isinstance(n, ast.BoolOp):
                muts.append(('boolop %s' % type(n.op).__name__, ('boolop',)))
            elif isinstance(n, ast.UnaryOp) and isinstance(n.op, ast.Not):
                muts.append(('drop not', ('not',)))
            elif isinstance(n, ast.Constant) and isinstance(n.value, bool):
                muts.append(('bool %r' % n.value, ('bool',)))
            elif isinstance(n, ast.Constant) and isinstance(n.value, int) and -2 <= n.value <= 64:
                muts.append(('int %d+1' % n.value, ('int',)))
            elif isinstance(n, ast.BinOp) and isinstance(n.op, (ast.Add, ast.Sub)):
                muts.append(('binop %s' % type(n.op).__name__, ('binop',)))
            for label, m in muts:
                res.append((st.lineno, st.end_lineno, idx, label, m))
        if isinstance(st, (ast.Expr, ast.Assign, ast.AugAssign)) and not (isinstance(st, ast.Expr) and isinstance(st.value, (ast.Yield, ast.YieldFrom))):
            res.append((st.lineno, st.end_lineno, -2, 'statement deleted', ('delete',)))
        if isinstance(st, ast.Return) and st.value is not None and not (isinstance(st.value, ast.Constant) and st.value.value is None):
            res.append((st.lineno, st.end_lineno, -2, 'return None', ('retnone',)))
        if isinstance(st, ast.Expr) and isinstance(st.value, ast.Yield):
            res.append((st.lineno, st.end_lineno, -2, 'yield deleted', ('delete',)))
        if isinstance(st, (ast.If, ast.While)):
            res.append((st.lineno, st.end_lineno, -1, 'condition forced False', ('force', False)))
            if isinstance(st, ast.If):
                res.append((st.lineno, st.end_lineno, -1, 'condition forced True', ('force', True)))
    return tree, lines, res


def apply(src, lineno, end_lineno, idx, m):
    tree = ast.parse(src)
    target = None
    for st in statements(tree):
        if st.lineno == lineno and st.end_lineno == end_lineno and not is_noise(st):
            target = st
            break
    if target is None:
        return None
    if m[0] in ('delete', 'retnone'):
        lines = src.split('\n')
        indent = len(lines[lineno - 1]) - len(lines[lineno - 1].lstrip())
        out = lines[:lineno - 1] + [' ' * indent + ('pass' if m[0] == 'delete' else 'return None')] + lines[end_lineno:]
        text = '\n'.join(out)
        try:
            ast.parse(text)
        except SyntaxError:
            return None
        return text
    if m[0] == 'force':
        target.test = ast.Constant(m[1])
    else:
        n = own_expr_nodes(target)[idx]
        if m[0] == 'cmp':
            n.ops[m[1]] = CMP[type(n.ops[m[1]])]()
        elif m[0] == 'boolop':
            n.op = ast.Or() if isinstance(n.op, ast.And) else ast.And()
        elif m[0] == 'not':
            n.op = ast.UAdd()           # `not x` -> `+x`?  no: replace by the operand below
        elif m[0] == 'bool':
            n.value = not n.value
        elif m[0] == 'int':
            n.value = n.value + 1
        elif m[0] == 'binop':
            n.op = ast.Sub() if isinstance(n.op, ast.Add) else ast.Add()
        if m[0] == 'not':
            # swap the UnaryOp for its operand wherever it hangs
            for parent in ast.walk(target):
                for field, value in ast.iter_fields(parent):
                    if value is n:
                        setattr(parent, field, n.operand)
                    elif isinstance(value, list):
                        for i, v in enumerate(value):
                            if v is n:
                                value[i] = n.operand
    lines = src.split('\n')
    indent = len(lines[lineno - 1]) - len(lines[lineno - 1].lstrip())
    new = ast.unparse(target).split('\n')
    new = [' ' * indent + l if l.strip() else l for l in new]
    out = lines[:lineno - 1] + new + lines[end_lineno:]
    text = '\n'.join(out)
    try:
        ast.parse(text)
    except SyntaxError:
        return None
    return text


def run_one(job):
    rel, lineno, end_lineno, idx, label, m, checks, only_surv = job
    src = open(os.path.join(REPO, rel)).read()
    text = apply(src, lineno, end_lineno, idx, m)
    if text is None or text == src:
        return None
    d = tempfile.mkdtemp(prefix='msw-', dir='/tmp')
    try:
        shutil.copytree(os.path.join(REPO, 'src'), os.path.join(d, 'repo', 'src'))
        with open(os.path.join(d, 'repo', rel), 'w') as fd:
            fd.write(text)
        env = dict(os.environ, PYTHONPATH=os.path.join(d, 'repo', 'src'))
        try:
            p = subprocess.run(['/venv/bin/python', '-m', 'pytest', '-q', '-x', '-p', 'no:cacheprovider', 'src/calmjs/parse/tests'],
                               cwd=os.path.join(d, 'repo'), env=env, stdout=subprocess.PIPE, stderr=subprocess.STDOUT, universal_newlines=True, timeout=300)
            survived = p.returncode == 0
        except subprocess.TimeoutExpired:
            survived = False           # the suite hangs: noticed
        rec = dict(file=rel, line=lineno, mutation=label, survived=survived, text=src.split('\n')[lineno - 1].strip()[:100])
        if not survived or only_surv:
            return rec
        rec['checks'] = {}
        for c in checks:
            env2 = dict(os.environ, VERIF_REPO=os.path.join(d, 'repo'), VERIF_OUT=os.path.join(d, 'out'), VERIF_E1_WORKERS='2')
            try:
                q = subprocess.run([os.path.join(VERIF, 'check'), c, '--tier', 'quick'], cwd=VERIF, env=env2, stdout=subprocess.PIPE, stderr=subprocess.STDOUT,
                                   universal_newlines=True, timeout=1800)
            except subprocess.TimeoutExpired:
                rec['checks'][c] = dict(exit='timeout', first='', degraded='check did not finish in 1800 s')
                continue
            first = [l for l in q.stdout.split('\n') if l.startswith('VIOLATION')][:1]
            deg = [l for l in q.stdout.split('\n') if l.startswith('DEGRADED') or l.startswith('CHECKER-ERROR')][:1]
            rec['checks'][c] = dict(exit=q.returncode, first=(first[0].split('replays/')[-1][:120] if first else ''), degraded=(deg[0][:160] if deg else ''))
            if q.returncode == 1:
                break
        rec['detected'] = any(v['exit'] == 1 for v in rec['checks'].values())
        return rec
    finally:
        shutil.rmtree(d, ignore_errors=True)


def main():
    args = sys.argv[1:]
    rel = args[0]
    checks = []
    mx = None
    jobs = 4
    only_surv = '--only-survivors' in args
    for i, a in enumerate(args):
        if a == '--checks':
            checks = args[i + 1].split(',')
        if a == '--max':
            mx = int(args[i + 1])
        if a == '--jobs':
            jobs = int(args[i + 1])
        if a == '--lines':
            lo, hi = [int(x) for x in args[i + 1].split('-')]
    src = open(os.path.join(REPO, rel)).read()
    _, _, muts = mutants_of(src)
    if '--lines' in args:
        muts = [m for m in muts if lo <= m[0] <= hi]
    if '--only-deletions' in args:
        muts = [m for m in muts if m[4][0] in ('delete', 'retnone')]
    if mx:
        step = max(1, len(muts) // mx)
        muts = muts[::step][:mx]
    print('%s: %d mutants' % (rel, len(muts)), flush=True)
    work = [(rel, l, e, i, lab, m, checks, only_surv) for (l, e, i, lab, m) in muts]
    out = []
    with ThreadPoolExecutor(jobs) as ex:
        for rec in ex.map(run_one, work):
            if rec is None:
                continue
            out.append(rec)
            if rec['survived']:
                print(json.dumps(rec), flush=True)
    surv = [r for r in out if r['survived']]
    print('SUMMARY %s: %d mutants run, %d survive the tests, %d of them reported by a check, %d not' % (
        rel, len(out), len(surv), sum(1 for r in surv if r.get('detected')), sum(1 for r in surv if not r.get('detected'))), flush=True)


if __name__ == '__main__':
    main()

#!/bin/bash
# tools/intake3.sh ID...  -- confirm and file the round-3 seeds of the given properties (A -> F, B -> G), run the property's check on them
cd "$(dirname "$0")/.."
for id in "$@"; do
  tools/confirm_seed.sh $id A /tmp/seed3-$id-work/A F 2>&1 | tail -1
  tools/confirm_seed.sh $id B /tmp/seed3-$id-work/B G 2>&1 | tail -1
  tools/run_seeds.sh $id 2>&1 | grep -E -- "-(F|G) " | cut -c1-220
  git -C /repo worktree remove --force /tmp/seed3-$id 2>/dev/null
done

#!/bin/bash
# tools/confirm_seed.sh C10 A   -- confirm a sub-agent's seeded change in a scratch copy and file it under seeded/
# confirms: patch applies; full test suite passes with it (PYTHONPATH on the scratch copy); demo exits 1 with it, 0 without.
ID=$1; V=$2
SRC=${3:-/tmp/seed-$ID-work/$V}
DST=/verif/seeded/$ID-${4:-$V}
[ -f $SRC/patch.diff ] || { echo "$ID-$V: no patch"; exit 2; }
D=$(mktemp -d /tmp/confirm-XXXXXX)
trap 'rm -rf "$D"' EXIT
git -C /repo archive HEAD | tar -x -C $D
cd $D
clean_demo=$(PYTHONPATH=$D/src /venv/bin/python $SRC/demo.py >/dev/null 2>&1; echo $?)
git init -q . 2>/dev/null; git apply $SRC/patch.diff || patch -p1 -s < $SRC/patch.diff || { echo "$ID-$V: patch does not apply"; exit 2; }
tests=$(PYTHONPATH=$D/src /venv/bin/python -m pytest -q -p no:cacheprovider -x src/calmjs/parse/tests 2>&1 | tail -1)
find $D/src -name 'lextab_*' -o -name 'yacctab_*' | xargs rm -f
PYTHONPATH=$D/src /venv/bin/python $SRC/demo.py > $D/demo.out 2>&1; patched_demo=$?
mkdir -p $DST
cp $SRC/patch.diff $SRC/demo.py $DST/
[ -f $SRC/notes.txt ] && cp $SRC/notes.txt $DST/
python3 - "$ID" "$V" "$tests" "$clean_demo" "$patched_demo" "$DST" <<'PY'
import json,sys
id,v,tests,clean,patched,dst=sys.argv[1:]
notes=''
try: notes=open(dst+'/notes.txt').read()
except Exception: pass
ok = ('passed' in tests and 'failed' not in tests and clean=='0' and patched=='1')
json.dump(dict(property=id, variant=dst.rsplit("-",1)[1], breaks=id, needs_to_manifest=notes.strip(),
  confirmed=ok,
  what_was_run=['git archive HEAD of /repo into a scratch dir; demo.py on the clean copy (exit %s)'%clean,
                'git apply patch.diff; PYTHONPATH=<copy>/src /venv/bin/python -m pytest -q -x src/calmjs/parse/tests -> %s'%tests,
                'demo.py on the patched copy (exit %s)'%patched],
  detected_by=None), open(dst+'/meta.json','w'), indent=1)
print('%s-%s: tests[%s] demo clean=%s patched=%s confirmed=%s'%(id,v,tests,clean,patched,ok))
PY

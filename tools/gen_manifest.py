#!/usr/bin/env python3
"""Regenerates MANIFEST.json from the table below and validates it against the schema."""
import json, os, sys
ROOT = os.path.dirname(os.path.dirname(os.path.abspath(__file__)))
sys.path.insert(0, ROOT)
from tools.manifest_table import CHECKS, NOT_APPLICABLE, NOTES

props = [json.loads(l)['id'] for l in open(os.path.join(ROOT, 'properties.jsonl'))]
checks = []
for pid in props:
    if pid not in CHECKS:
        continue
    c = CHECKS[pid]
    checks.append(dict(
        property_id=pid,
        quick_cmd='./check %s --tier quick' % pid,
        thorough_cmd='./check %s --tier thorough' % pid,
        evidence_file='evidence/%s.json' % pid,
        replay_cmd_template='./check %s --replay {path}' % pid,
        engine=c['engine'],
        level_claimed=dict(category=c['level'], text=c['text'], design_ref=c['ref']),
        level_note=c['note'],
        technique=c['technique'],
    ))
na = [dict(property_id=p, reason=NOT_APPLICABLE[p]) for p in props if p not in CHECKS]
for p in props:
    assert (p in CHECKS) != (p in NOT_APPLICABLE), p
m = dict(
    version=1,
    setup_cmd='./setup.sh',
    hooks=dict(guard='CALMJS_PARSE_VERIF', enable='no source hooks are needed: contracts are sidecar files under /verif/contracts; checks read /repo/src as it is',
               baseline_off_cmd='cd /repo && /venv/bin/python -m pytest -ra -q -p no:cacheprovider --timeout=900 --continue-on-collection-errors',
               source_commits=[], add_only=True),
    engines=[
        dict(name='E1 pyvc', path='vf/pyvc', serves_properties=sorted(p for p, c in CHECKS.items() if 'E1' in c['engine']),
             kind_free_text='VC generator over the ast of the real functions + sidecar contracts; z3 then cvc5'),
        dict(name='E2 tables', path='vf/tables', serves_properties=sorted(p for p, c in CHECKS.items() if 'E2' in c['engine']),
             kind_free_text='per-production / per-node-kind obligations by running the real p_* actions and the real Unparser on tagged slots and contract stubs'),
        dict(name='E3 charclass', path='vf/charclass.py', serves_properties=sorted(p for p, c in CHECKS.items() if 'E3' in c['engine']),
             kind_free_text='exhaustive code-point interval algebra from the real compiled regexes'),
        dict(name='E4 rt', path='vf/e1run.py', serves_properties=sorted(CHECKS),
             kind_free_text='bounded stand-in: executable contracts on the real functions (never counted as proved)'),
    ],
    checks=checks,
    not_applicable=na,
    notes=NOTES,
)
out = os.path.join(ROOT, 'MANIFEST.json')
json.dump(m, open(out, 'w'), indent=1)
try:
    import jsonschema
    jsonschema.validate(m, json.load(open('/root/.vp/MANIFEST.schema.json')))
    print('MANIFEST.json valid: %d checks, %d not_applicable' % (len(checks), len(na)))
except ImportError:
    print('written (jsonschema not available to validate)')

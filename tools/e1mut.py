"""tools/e1mut.py REL_FILE FIRST_LINE LAST_LINE CONTRACTS_MODULE REPO_MODULE -- developer aid: every operator mutant (tools/mutsweep.py)
of the given line range is applied to a scratch copy and the contracts of one sidecar module are verified against it (tools/e1try.py);
mutants that no contract notices are listed.  Example:
  python3 tools/e1mut.py src/calmjs/parse/handlers/obfuscation.py 67 362 contracts.scopes calmjs.parse.handlers.obfuscation"""
import sys, os, shutil, subprocess, tempfile, json
sys.path.insert(0,'/verif/tools')
import mutsweep
rel, lo, hi, cmod, rmod = sys.argv[1], int(sys.argv[2]), int(sys.argv[3]), sys.argv[4], sys.argv[5]
src=open('/repo/'+rel).read()
_,_,muts=mutsweep.mutants_of(src)
muts=[m for m in muts if lo<=m[0]<=hi]
print(len(muts),'mutants')
from concurrent.futures import ThreadPoolExecutor
def one(m):
    l,e,i,lab,mm=m
    text=mutsweep.apply(src,l,e,i,mm)
    if text is None or text==src: return None
    d=tempfile.mkdtemp(prefix='e1m-',dir='/tmp')
    try:
        shutil.copytree('/repo/src', d+'/repo/src')
        open(d+'/repo/'+rel,'w').write(text)
        env=dict(os.environ, VERIF_REPO=d+'/repo', VERIF_OUT=d+'/out')
        p=subprocess.run(['/verif/.venv/bin/python','/verif/tools/e1try.py',cmod,rmod],env=env,capture_output=True,text=True,timeout=900)
        bad=[x for x in p.stdout.split('\n') if (' open,' in x and ', 0 open' not in x) or 'UNSUPPORTED' in x or 'cover failed' in x]
        crashed = p.returncode!=0
        return (l,lab,src.split('\n')[l-1].strip()[:80], len(bad), crashed, (p.stderr[-300:] if crashed else ''))
    finally:
        shutil.rmtree(d,ignore_errors=True)
with ThreadPoolExecutor(8) as ex:
    for r in ex.map(one,muts):
        if r is None: continue
        if r[3]==0 or r[4]:
            print('NOT-CAUGHT' if not r[4] else 'CRASH', r)
print('done')

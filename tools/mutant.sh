#!/bin/bash
# tools/mutant.sh <patch.diff> <ID> [tier]   -- run a check against a scratch copy of /repo with the patch applied.
# The copy lives under /tmp and is removed afterwards; /repo itself is not touched.
set -e
P="$(realpath "$1")"; ID="$2"; TIER="${3:-quick}"
D=$(mktemp -d /tmp/mut-XXXXXX)
trap 'rm -rf "$D"' EXIT
mkdir -p "$D/repo"
cp -r /repo/src "$D/repo/src"
( cd "$D/repo" && patch -p1 -s < "$P" )
cd "$(dirname "$0")/.."
VERIF_OUT="$D/out" VERIF_REPO="$D/repo" ./check "$ID" --tier "$TIER" 2>&1 | grep -E "VIOLATION|DEGRADED|CHECKER|obligations," | cut -c1-220 | awk "NR<=6 || /obligations,/"; echo "exit=${PIPESTATUS[0]}"

#!/bin/bash
# tools/seed_matrix.sh [N [SEED...]] -- run every seeded change (or only the named ones, e.g. C20-H) against the check of its own property (N at a time, default 6);
# write detected_by into meta.json.  Seeds whose meta.json says "neutralised" are still run (expected: exit 0).
cd "$(dirname "$0")/.."
one() {
  d="$1"
  id=$(basename $d | sed 's/-.*//')
  # a seed whose defect belongs to another property (meta.json status "reassigned:<ID>") is run against that property's check
  re=$(python3 -c "import json,sys; s=str(json.load(open('$d/meta.json')).get('status','')); print(s.split(':')[1] if s.startswith('reassigned:') else '')")
  [ -n "$re" ] && id=$re
  out=$(tools/mutant.sh $d/patch.diff $id quick 2>&1)
  ex=$(echo "$out" | grep -o 'exit=[0-9]*' | tail -1)
  first=$(echo "$out" | grep '^VIOLATION' | sed 's/.*replays\/[A-Z0-9]*\///; s/\.json.*//' | head -3 | tr '\n' ';')
  python3 - "$d" "$ex" "$first" <<'PY'
import json,sys
d,ex,first=sys.argv[1:4]
p=d+'/meta.json'
m=json.load(open(p))
m['detected_by']=dict(check='./check %s --tier quick'%(str(m.get('status','')).split(':')[1] if str(m.get('status','')).startswith('reassigned:') else m['property']), exit=ex, first_violations=[x for x in first.split(';') if x])
if not str(m.get('status','')).startswith('neutralised'):
    m['detected']= ex=='exit=1'
json.dump(m,open(p,'w'),indent=1)
print(d, ex, first[:110])
PY
}
export -f one
n="${1:-6}"; shift
if [ $# -gt 0 ]; then for x in "$@"; do echo seeded/$x; done; else ls -d seeded/*/ | sed 's:/$::'; fi | xargs -P "$n" -I{} bash -c 'one {}'

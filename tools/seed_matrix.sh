#!/bin/bash
# tools/seed_matrix.sh [N] -- run every seeded change against the check of its own property (N at a time, default 6);
# write detected_by into meta.json.  Seeds whose meta.json says "neutralised" are still run (expected: exit 0).
cd "$(dirname "$0")/.."
one() {
  d="$1"
  id=$(basename $d | sed 's/-.*//')
  out=$(tools/mutant.sh $d/patch.diff $id quick 2>&1)
  ex=$(echo "$out" | grep -o 'exit=[0-9]*' | tail -1)
  first=$(echo "$out" | grep '^VIOLATION' | sed 's/.*replays\/[A-Z0-9]*\///; s/\.json.*//' | head -3 | tr '\n' ';')
  python3 - "$d" "$ex" "$first" <<'PY'
import json,sys
d,ex,first=sys.argv[1:4]
p=d+'/meta.json'
m=json.load(open(p))
m['detected_by']=dict(check='./check %s --tier quick'%m['property'], exit=ex, first_violations=[x for x in first.split(';') if x])
if not str(m.get('status','')).startswith('neutralised'):
    m['detected']= ex=='exit=1'
json.dump(m,open(p,'w'),indent=1)
print(d, ex, first[:110])
PY
}
export -f one
ls -d seeded/*/ | sed 's:/$::' | xargs -P "${1:-6}" -I{} bash -c 'one {}'

#!/bin/bash
# tools/run_all.sh [tier]  -- run every claimed check on the unchanged tree (parallel), rewrite evidence, summarise
cd "$(dirname "$0")/.."
TIER=${1:-quick}
IDS=$(python3 -c "import json;print(' '.join(c['property_id'] for c in json.load(open('MANIFEST.json'))['checks']))")
mkdir -p /tmp/runall
# four checks at a time: each check uses worker pools of its own
one() { ./check $1 --tier $2 > /tmp/runall/$1.log 2>&1; echo "$1 exit=$? $(grep -E '^C[0-9]+:' /tmp/runall/$1.log | tail -1)"; }
export -f one
echo $IDS | tr ' ' '\n' | xargs -P 4 -I{} bash -c "one {} $TIER"
grep -l "VIOLATION\|CHECKER-ERROR\|DEGRADED" /tmp/runall/*.log 2>/dev/null | sed 's/^/ATTENTION: /'
.venv/bin/python - <<'PY'
import json,glob,jsonschema
sch=json.load(open('/root/.vp/EVIDENCE.schema.json'))
for f in sorted(glob.glob('evidence/*.json')):
    e=json.load(open(f))
    try: jsonschema.validate(e,sch)
    except Exception as x: print('INVALID', f, str(x)[:100])
    c=e['coverage']
    if e['level']=='proof' and c['obligations']!=c['discharged']: print('PROOF-LEVEL MISMATCH', f, c['obligations'], c['discharged'])
PY

#!/bin/bash
# tools/intake.sh ROUND SUFFIX_A SUFFIX_B ID...  -- confirm and file the seeds a sub-agent left in /tmp/seed<ROUND>-<ID>-work/{A,B}
# as seeded/<ID>-<SUFFIX_A>, -<SUFFIX_B>; run the property's check on the two new seeds; remove the agent's worktree
cd "$(dirname "$0")/.."
R="$1"; SA="$2"; SB="$3"; shift 3
for id in "$@"; do
  tools/confirm_seed.sh $id A /tmp/seed$R-$id-work/A $SA 2>&1 | tail -1
  tools/confirm_seed.sh $id B /tmp/seed$R-$id-work/B $SB 2>&1 | tail -1
  for s in $SA $SB; do
    if [ -f seeded/$id-$s/patch.diff ]; then
      out=$(tools/mutant.sh seeded/$id-$s/patch.diff $id quick 2>&1)
      echo "seeded/$id-$s $(echo "$out" | grep -o 'exit=[0-9]*' | tail -1) $(echo "$out" | grep -c '^VIOLATION') $(echo "$out" | grep '^VIOLATION' | head -1 | sed 's/.*replays\///' | cut -c1-150)"
    fi
  done
  git -C /repo worktree remove --force /tmp/seed$R-$id 2>/dev/null
done

#!/bin/bash
# tools/intake.sh ROUND SUFFIX_A SUFFIX_B ID...  -- confirm and file the seeds a sub-agent left in /tmp/seed<ROUND>-<ID>-work/{A,B}
# as seeded/<ID>-<SUFFIX_A>, -<SUFFIX_B>; run the property's check on them; remove the agent's worktree
cd "$(dirname "$0")/.."
R="$1"; SA="$2"; SB="$3"; shift 3
for id in "$@"; do
  tools/confirm_seed.sh $id A /tmp/seed$R-$id-work/A $SA 2>&1 | tail -1
  tools/confirm_seed.sh $id B /tmp/seed$R-$id-work/B $SB 2>&1 | tail -1
  tools/run_seeds.sh $id 2>&1 | grep -E -- "-($SA|$SB) " | cut -c1-220
  git -C /repo worktree remove --force /tmp/seed$R-$id 2>/dev/null
done

#!/usr/bin/env python3
"""tools/status_table.py -- Markdown table of where each property stands, from evidence/*.json (run tools/run_all.sh first)."""
import glob
import json
import os

ROOT = os.path.dirname(os.path.dirname(os.path.abspath(__file__)))
print('| id | level | obligations discharged (by back end) | functions under contract | bounded stand-ins (cases; never counted) | open findings hit |')
print('|---|---|---|---|---|---|')
for f in sorted(glob.glob(os.path.join(ROOT, 'evidence', 'C*.json'))):
    d = json.load(open(f))
    c = d['coverage']
    bb = c.get('by_backend', {})
    parts = {}
    for k, v in bb.items():
        key = k.split('/')[0] + ('/' + k.split('/')[1] if k.startswith('E1/frame') else '')
        key = {'E1': 'E1 contracts (z3)', 'E1/frame': 'frame', 'E2': 'E2 tables', 'E3': 'E3 classes/constants', 'E3xE2': 'E3xE2 adjacency', 'frame': 'frame'}.get(key, key)
        parts[key] = parts.get(key, 0) + v['discharged']
    bounded = c.get('bounded') or []
    btxt = '; '.join('%s %s' % (b['name'], b['cases']) for b in bounded) if isinstance(bounded, list) else ''
    hits = c.get('known_findings_hit') or []
    print('| %s | %s | %d = %s | %d | %s | %s |' % (
        d['property_id'], d['level'], c['discharged'], ', '.join('%s %d' % kv for kv in sorted(parts.items())),
        len(c.get('functions_under_contract', {})), btxt or '--', ', '.join(sorted(set(str(h) for h in hits))) or '--'))

"""tools/e1try.py CONTRACTS_MODULE REPO_MODULE [substring] -- developer aid: verify the contracts of one sidecar module
(optionally only those whose qualname/notes contain `substring`) and print every obligation that is not discharged.
Run as: .venv/bin/python tools/e1try.py contracts.scopes calmjs.parse.handlers.obfuscation close"""
import importlib
import os
import sys
import time

ROOT = os.path.dirname(os.path.dirname(os.path.abspath(__file__)))
sys.path.insert(0, ROOT)
os.chdir(ROOT)
from vf import scratch  # noqa
scratch.activate()
from vf.pyvc.verify import verify_contract  # noqa

cm = importlib.import_module(sys.argv[1])
rm = importlib.import_module(sys.argv[2])
sub = sys.argv[3] if len(sys.argv) > 3 else ''
built = cm.build(rm)
cs = built[0] if isinstance(built, tuple) else built
registry = {}
for c in cs:
    if sub and sub not in c.qualname + ' ' + (c.notes or ''):
        continue
    t0 = time.time()
    res = verify_contract(c, registry)
    bad = [o for o in res.obligations if o[1] != 'unsat']
    print('%-70s %3d obligations, %d open, %.1fs %s' % (c.qualname.split(':')[1] + ('{%s}' % c.notes if c.notes else ''), len(res.obligations), len(bad),
                                                       time.time() - t0, ('UNSUPPORTED: ' + res.unsupported) if res.unsupported else ''))
    for cf in res.covers_failed:
        print('    cover failed:', cf)
    for o in bad:
        print('   ', o[0], o[1], str(o[4])[:700])
    for k in res.trusted:
        if k.startswith('model:') or k.startswith('inlined'):
            print('    [%s]' % k)

#!/bin/bash
# tools/run_seeds.sh [Cxx ...]  -- run each property's check against its seeded changes (scratch copies); prints a table
cd "$(dirname "$0")/.."
IDS="$@"; [ -z "$IDS" ] && IDS=$(ls seeded | sed 's/-.*//' | sort -u)
for id in $IDS; do
  for d in seeded/$id-*; do
    [ -f $d/patch.diff ] || continue
    out=$(tools/mutant.sh $d/patch.diff $id ${TIER:-quick} 2>&1)
    ex=$(echo "$out" | grep -o 'exit=[0-9]*')
    nv=$(echo "$out" | grep -c '^VIOLATION')
    first=$(echo "$out" | grep '^VIOLATION' | head -1 | sed 's/.*replay=.*replays\///')
    echo "$d $ex violations=$nv $first"
  done
done

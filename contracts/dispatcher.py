"""Sidecar contracts for the Dispatcher of unparsers/walker.py: how a definition (tuple of rules) becomes the list of runners the
walk executes -- relied on by every printing property (C01, C02, C07, C08, C20).

  optimize_layout_handler(rule, handler)      its runner yields exactly one LayoutChunk(rule, handler, node) and calls nothing
  optimize_structure_handler(rule, handler)   its runner calls handler(dispatcher, node) once and yields nothing
  Dispatcher.optimize_definition              per rule, in order: a Structure class with a handler -> structure runner, without -> dropped;
                                              a Layout class with a handler -> layout runner, without -> dropped; a Token instance is
                                              re-created with its attribute and position, its value optimised recursively when it is
                                              itself a definition; anything else raises TypeError (definitions of <= 3 rules)
  Dispatcher.layout / deferrable / token / get_optimized_definition / has_layout / indent_str / newline_str / __iter__
"""
import itertools

from vf.pyvc.dsl import Contract, Const, OneOf, Helper, PExt, PObj, PList, Obj, Str
from vf.pyvc.engine import PDict, PFunc, PBound

MODULE = 'calmjs.parse.unparsers.walker'


def build(module):
    import calmjs.parse.ruletypes as rt
    cs = []
    rec = {}

    def reset():
        rec.clear()
        rec['log'] = []
    W, D, N = PObj(object, name='walk'), PObj(object, name='dispatcher'), PObj(object, name='node')
    rule = PObj(object, name='rule')

    def handler_effect(e, a, k):
        rec['log'].append(('handler', list(a), dict(k)))
    handler = PExt('handler', handler_effect)
    env = {'__reset__': reset, 'W': W, 'D': D, 'N': N, 'calls': Helper(lambda e: len(rec['log'])),
           'called_with': Helper(lambda e, *want: len(rec['log']) == 1 and len(rec['log'][0][1]) == len(want) and not rec['log'][0][2]
                                 and all(x is y for x, y in zip(rec['log'][0][1], want)))}
    cs.append(Contract(MODULE + ':optimize_layout_handler', params={'rule': Const(rule), 'handler': Const(handler)},
                       ensures=['list(result(W, D, N)) == [(rule, handler, N)]', 'calls() == 0'], env=env))
    cs.append(Contract(MODULE + ':optimize_structure_handler', params={'rule': Const(rule), 'handler': Const(handler)},
                       ensures=['calls() == 0', 'list(result(W, D, N)) == []', 'called_with(D, N)'], env=env))

    # ---- Dispatcher: lookups -----------------------------------------------------------------
    Disp = module.Dispatcher
    LH, DH, DEFS, OPT, TH = (PObj(object, name=n) for n in ('layout_handlers', 'deferrable_handlers', 'definitions', 'optimized_definitions', 'token_handler'))

    def table(name):
        t = PObj(object, name=name)

        def get(e, a, k):
            rec['log'].append((name + '.get', list(a), dict(k)))
            rec['got'] = PObj(object, name='looked_up')
            return rec['got']

        def getitem(e, a, k):
            rec['log'].append((name + '.getitem', list(a), dict(k)))
            rec['got'] = PObj(object, name='looked_up')
            return rec['got']
        t.fields['get'] = PExt('dict.get', get)
        t.fields['__getitem__'] = PExt('dict.__getitem__', getitem)
        t.fields['__len__'] = PExt('dict.__len__', lambda e, a, k: rec.setdefault('size', __import__('vf.pyvc.sym', fromlist=['Int']).Int.fresh('size')))
        return t

    class DispT(object):
        def make(self, name):
            o = PObj(Disp, name='self')
            o.fields['_Dispatcher__layout_handlers'] = table('layout')
            o.fields['_Dispatcher__deferrable_handlers'] = table('deferrable')
            o.fields['_Dispatcher__optimized_definitions'] = table('optimized')
            o.fields['_Dispatcher__indent_str'] = Str.fresh('indent_str')
            o.fields['_Dispatcher__newline_str'] = Str.fresh('newline_str')
            return o

        def __repr__(self):
            return 'Dispatcher'

    def asked(e, what, key, default='none'):
        if len(rec['log']) != 1 or rec['log'][0][0] != what:
            return False
        a = rec['log'][0][1]
        if a[0] is not key:
            return False
        if default == 'none':
            return len(a) == 1
        return len(a) == 2 and a[1] is default
    lenv = dict(env, asked=Helper(asked), got=Helper(lambda e: rec.get('got')), NotImplemented=NotImplemented)
    # the tables are real dicts with known entries: the contract fixes the answer, not the dict method used to find it
    RULE, OTHER, H = PObj(object, name='layout_rule'), PObj(object, name='other_rule'), PObj(object, name='handler')

    def disp_with(**tables):
        fields = {}
        for k, v in tables.items():
            class T(object):
                def __init__(self, v=v):
                    self.v = v

                def make(self, name):
                    return PDict(dict(self.v))

                def __repr__(self):
                    return 'dict(%d)' % len(self.v)
            fields['_Dispatcher__' + k] = T()
        return Obj(Disp, fields)
    for present in (True, False):
        tbl = {RULE: H} if present else {OTHER: H}
        want = 'handler()' if present else 'NotImplemented'
        note = 'rule registered' if present else 'rule not registered'
        henv = dict(lenv, handler=Helper(lambda e: H))
        cs.append(Contract(MODULE + ':Dispatcher.layout', params={'self': disp_with(layout_handlers=tbl), 'rule': Const(RULE)},
                           ensures=['result is %s' % want], env=henv, notes=note))
        dtbl = {rt.Resolve: H} if present else {rt.Declare: H}

        class RuleInst(object):
            def make(self, name):
                return PObj(rt.Resolve, name='deferrable_rule')

            def __repr__(self):
                return 'Resolve()'
        cs.append(Contract(MODULE + ':Dispatcher.deferrable', params={'self': disp_with(deferrable_handlers=dtbl), 'rule': RuleInst()},
                           ensures=['result is %s' % want], env=henv, notes=note))

    class NodeOfKind(object):
        def make(self, name):
            import calmjs.parse.asttypes as at
            return PObj(at.Identifier, name='node')

        def __repr__(self):
            return 'Identifier node'
    DEFN = PObj(object, name='optimized_definition')
    cs.append(Contract(MODULE + ':Dispatcher.get_optimized_definition',
                       params={'self': disp_with(optimized_definitions={'Identifier': DEFN, 'Node': OTHER}), 'node': NodeOfKind()},
                       ensures=['result is defn()'], env=dict(lenv, defn=Helper(lambda e: DEFN))))
    cs.append(Contract(MODULE + ':Dispatcher.indent_str', params={'self': DispT()}, ensures=['result == self._Dispatcher__indent_str', 'calls() == 0'], env=lenv))
    cs.append(Contract(MODULE + ':Dispatcher.newline_str', params={'self': DispT()}, ensures=['result == self._Dispatcher__newline_str', 'calls() == 0'], env=lenv))
    cs.append(Contract(MODULE + ':Dispatcher.has_layout', params={'self': DispT()}, ensures=['result == (len(self._Dispatcher__layout_handlers) > 0)'], env=lenv))

    # ---- Dispatcher.optimize_definition ------------------------------------------------------
    # rule kinds: a Structure class / a Layout class (each with or without a handler), a Token instance with a plain value,
    # a Token instance whose value is a nested definition (one Layout class with handler), something unsupported
    S_WITH, S_WITHOUT = rt.PushScope, rt.PopScope
    L_WITH, L_WITHOUT = rt.Space, rt.Newline
    h_struct = PExt('structure_handler', lambda e, a, k: rec['log'].append(('structure_handler', list(a), dict(k))))
    h_layout = PExt('layout_handler', lambda e, a, k: rec['log'].append(('layout_handler', list(a), dict(k))))
    handlers = {S_WITH: h_struct, L_WITH: h_layout}
    tok_plain = rt.Attr('value')
    tok_nested = rt.Optional('init', (L_WITH, L_WITHOUT))
    KINDS = {'S+': S_WITH, 'S-': S_WITHOUT, 'L+': L_WITH, 'L-': L_WITHOUT, 'T': tok_plain, 'Tn': tok_nested, 'bad': 42, 'bad class': dict}

    class DispDef(object):
        def make(self, name):
            o = PObj(Disp, name='self')
            o.fields['_Dispatcher__layout_handlers'] = PDict(dict(handlers))
            return o

        def __repr__(self):
            return 'Dispatcher'

    def runner_kind(e, r):
        """what a produced rule is, observed by running it: ('structure',) / ('layout', rule) / ('token', cls, attr, pos, value)"""
        if isinstance(r, PFunc):
            before = len(rec['log'])
            out = e.call_closure(r, [W, D, N], {})
            items = list(out.items) if hasattr(out, 'items') else []
            new = rec['log'][before:]
            del rec['log'][before:]
            if not items and len(new) == 1 and new[0][0] == 'structure_handler' and new[0][1] == [D, N] and not new[0][2]:
                return ('structure',)
            if len(items) == 1 and not new and isinstance(items[0], tuple) and len(items[0]) == 3 and items[0][1] is h_layout and items[0][2] is N:
                return ('layout', items[0][0])
            return ('unknown runner', items, new)
        if isinstance(r, PObj) and isinstance(r.cls, type) and issubclass(r.cls, rt.Token):
            v = r.fields.get('value')
            if isinstance(v, PList):
                v = [runner_kind(e, x) for x in v.val]
            return ('token', r.cls, r.fields.get('attr'), r.fields.get('pos'), v)
        return ('unknown', r)

    def expected_for(kind):
        if kind == 'S+':
            return [('structure',)]
        if kind == 'L+':
            return [('layout', L_WITH)]
        if kind in ('S-', 'L-'):
            return []
        if kind == 'T':
            return [('token', rt.Attr, 'value', tok_plain.pos, tok_plain.value)]
        if kind == 'Tn':
            return [('token', rt.Optional, 'init', tok_nested.pos, [('layout', L_WITH)])]
        raise KeyError(kind)

    def check_result(e, result, kinds):
        saved = getattr(e, 'in_spec', False)
        e.in_spec = True
        try:
            got = [runner_kind(e, r) for r in result.val]
        finally:
            e.in_spec = saved
        want = [x for k in kinds for x in expected_for(k)]
        return got == want
    denv = dict(env, check_result=Helper(check_result))
    shapes = [()] + [(k,) for k in KINDS] + [('L+', 'T', 'S+'), ('S-', 'Tn', 'L-'), ('T', 'bad', 'L+'), ('L+', 'L+', 'T')]
    for shape in shapes:
        definition = tuple(KINDS[k] for k in shape)
        if 'bad' in shape or 'bad class' in shape:
            cs.append(Contract(MODULE + ':Dispatcher.optimize_definition', params={'self': DispDef(), 'name': Const('Kind'), 'definition': Const(definition)},
                               raises={'TypeError': True}, ensures=['False'], env=denv, notes='definition %s' % (shape,)))
        else:
            cs.append(Contract(MODULE + ':Dispatcher.optimize_definition', params={'self': DispDef(), 'name': Const('Kind'), 'definition': Const(definition)},
                               ensures=['check_result(result, %r)' % (shape,), 'calls() == 0'], env=denv, notes='definition %s' % (shape,),
                               hints={'inline_self_recursion': True}))

    # ---- Dispatcher.token --------------------------------------------------------------------
    import z3
    from vf.pyvc.dsl import Loop, Opaque, Seq, SSeq, SBool
    from vf.pyvc.engine import PGen
    FRAG = Opaque('Fragment')
    OUTSEQ = z3.Const('token_handler_output', z3.SeqSort(FRAG.sort()))
    empty = z3.Empty(z3.SeqSort(FRAG.sort()))

    def seq_t(x):
        if isinstance(x, PList):
            x = x.val
        if isinstance(x, PGen):
            x = x.items
        if isinstance(x, SSeq):
            return x.t
        if isinstance(x, list) and not x:
            return empty
        raise TypeError(x)

    def kt(k):
        return k.t if hasattr(k, 't') else z3.IntVal(k)
    TOK, VAL, STACK = PObj(object, name='token'), PObj(object, name='value'), PObj(object, name='sourcepath_stack')

    def th_effect(e, a, k):
        rec['log'].append(('token_handler', list(a), dict(k)))
        return PGen(SSeq(OUTSEQ, FRAG))
    th = PExt('token_handler', th_effect)

    def wrap(t):
        return PList(SSeq(t, FRAG))
    tenv = dict(env, output=Helper(lambda e: wrap(OUTSEQ)), cat=Helper(lambda e, a, b: wrap(z3.Concat(seq_t(a), seq_t(b)))),
                prefix_of=Helper(lambda e, s_, j: wrap(z3.Extract(seq_t(s_), z3.IntVal(0), kt(j)))),
                seq_prefix_step=Helper(lambda e, s_, j: SBool(z3.Implies(
                    z3.And(kt(j) >= 0, kt(j) < z3.Length(seq_t(s_))),
                    z3.Extract(seq_t(s_), z3.IntVal(0), kt(j) + 1) == z3.Concat(z3.Extract(seq_t(s_), z3.IntVal(0), kt(j)), z3.Unit(seq_t(s_)[kt(j)]))))),
                seq_prefix_all=Helper(lambda e, s_: SBool(z3.And(z3.Extract(seq_t(s_), z3.IntVal(0), z3.Length(seq_t(s_))) == seq_t(s_),
                                                               z3.Extract(seq_t(s_), z3.IntVal(0), z3.IntVal(0)) == empty))),
                handler_args_ok=Helper(lambda e, self_: len(rec['log']) == 1 and not rec['log'][0][2] and len(rec['log'][0][1]) == 5 and
                                       all(x is y for x, y in zip(rec['log'][0][1], (TOK, self_, N, VAL, STACK)))))
    loop = Loop(index='j', inv=['_out == cat(out0, prefix_of(_iter0, j))'], ghost_pre=['out0 = _out'], types={'out0': Seq(FRAG)})
    params = {'token': Const(TOK), 'node': Const(N), 'value': Const(VAL), 'sourecepath_stack': Const(STACK)}
    cs.append(Contract(MODULE + ':Dispatcher.token', params=dict({'self': Obj(Disp, {'_Dispatcher__token_handler': Const(th)})}, **params), yields=FRAG,
                       ensures=['handler_args_ok(self)', 'result == output()'], loops=[loop], env=tenv,
                       uses={'loop0.preserve': ['seq_prefix_step(_iter0, j - 1)'], 'loop0.exit': ['seq_prefix_all(_iter0)'], 'loop0.entry': ['seq_prefix_all(_iter0)']},
                       notes='a token handler is installed'))
    cs.append(Contract(MODULE + ':Dispatcher.token', params=dict({'self': Obj(Disp, {'_Dispatcher__token_handler': Const(None)})}, **params), yields=FRAG,
                       ensures=['calls() == 0', 'len(result) == 0'], env=tenv, notes='no token handler'))

    # ---- Dispatcher.__init__ / optimize / __iter__ ----------------------------------------------
    class Tables(object):
        def __init__(self, content):
            self.content = content

        def make(self, name):
            return PDict(dict(self.content))

        def __repr__(self):
            return 'dict(%d)' % len(self.content)
    defs = {'Kind': (L_WITH, tok_plain), 'Other': ()}

    def optimized_ok(e, table):
        t = table.val if isinstance(table, PDict) else table
        if set(t) != set(defs):
            return False
        saved = getattr(e, 'in_spec', False)
        e.in_spec = True
        try:
            return ([runner_kind(e, r) for r in t['Kind'].val] == [('layout', L_WITH), ('token', rt.Attr, 'value', tok_plain.pos, tok_plain.value)]
                    and list(t['Other'].val) == [])
        finally:
            e.in_spec = saved

    def copied(e, mine, given):
        # (whether the table is copied or shared is not what the printing properties rest on: same entries)
        return isinstance(mine, PDict) and isinstance(given, PDict) and mine.val == given.val
    ienv = dict(env, optimized_ok=Helper(optimized_ok), copied=Helper(copied))
    init_params = {'self': Obj(Disp, {}), 'definitions': Tables(defs), 'token_handler': Const(TH), 'layout_handlers': Tables(handlers),
                   'deferrable_handlers': Tables({rt.Resolve: h_struct})}
    common = ['copied(self._Dispatcher__layout_handlers, layout_handlers)', 'copied(self._Dispatcher__deferrable_handlers, deferrable_handlers)',
              'copied(self._Dispatcher__definitions, definitions)', 'self._Dispatcher__token_handler is token_handler',
              'optimized_ok(self._Dispatcher__optimized_definitions)', 'calls() == 0']
    cs.append(Contract(MODULE + ':Dispatcher.__init__', params=dict(init_params, indent_str=Str, newline_str=Str),
                       ensures=common + ['self._Dispatcher__indent_str == indent_str', 'self._Dispatcher__newline_str == newline_str'], env=ienv))
    cs.append(Contract(MODULE + ':Dispatcher.__init__', params=init_params,
                       ensures=common + ["self._Dispatcher__indent_str == '  '", "self._Dispatcher__newline_str == '\\n'"], env=ienv, notes='default indent / newline'))
    return cs

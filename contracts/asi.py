"""Sidecar contracts for the look-behind state machine of lexers/es5.py (properties C04, C05, C13).

Transition contracts: what each method does to the lexer state given the raw token it is handed.
ES5 7.9.1 in terms of that state: a semicolon is supplied before an offending token iff it is `}` or a
line terminator precedes it (here: the immediately preceding raw token is a LINE_TERMINATOR), and at
the end of input; never when the token is already a semicolon."""
from vf.pyvc.dsl import Contract, Obj, Const, OneOf, Helper, PExt, PObj, PList, Str, Int, SBool

LEX = 'calmjs.parse.lexers.es5'


class Tok(object):
    def make(self, name):
        o = PObj(object, name=name)
        o.fields.update(type=Str.fresh(name + '_type'), value=Str.fresh(name + '_value'), lineno=Int.fresh(name + '_lineno'),
                        lexpos=Int.fresh(name + '_lexpos'), colno=Int.fresh(name + '_colno'))
        return o

    def __repr__(self):
        return 'Tok'


class Stack(object):
    """token_stack shapes: depth 1 or 2, innermost marker list empty or holding one '(' token"""

    def __init__(self, depth, inner):
        self.depth, self.inner = depth, inner

    def make(self, name):
        frames = [PList([None, PList([])])]
        if self.depth == 2:
            frames.append(PList([Tok().make('kw'), PList([])]))
        if self.inner:
            frames[-1].val[1].val.append(Tok().make('open_paren'))
        return PList(frames)

    def __repr__(self):
        return 'Stack(depth=%d, inner=%d)' % (self.depth, self.inner)


class Empty(object):
    def make(self, name):
        return PList([])

    def __repr__(self):
        return 'EmptyList'


def build(lexmod):
    Lexer = lexmod.Lexer
    TOK = Tok()
    OPT = OneOf(Const(None), TOK)
    markers = "('LINE_TERMINATOR', 'LINE_COMMENT', 'BLOCK_COMMENT')"
    cs = []
    semi_env = {'AutoLexToken': PExt('AutoLexToken', lambda e, a, k: PObj(object, name='autotoken'))}
    SEMI_RESULT = Obj(object, {'type': Str, 'value': Str, 'colno': Int, 'lexpos': Int, 'lineno': Int})
    create = Contract(LEX + ':Lexer._create_semi_token', params={'self': Obj(Lexer, {}), 'orig_token': OPT}, result=SEMI_RESULT,
                      ensures=["result.type == 'AUTOSEMI'", "result.value == ';'", 'result.colno == 0',
                               'result.lexpos == (0 if orig_token is None else orig_token.lexpos)',
                               'result.lineno == (0 if orig_token is None else orig_token.lineno)'], env=semi_env)
    cs.append(create)
    # ---- _set_tokens
    LSET = Obj(Lexer, {'prev_token': OPT, 'cur_token': OPT, 'valid_prev_token': OPT, 'cur_token_real': OPT,
                       'token_stack': OneOf(Stack(1, 0), Stack(2, 0))})
    real = lambda x: "(%s is not None and %s.type not in %s)" % (x, x, markers)
    cs.append(Contract(
        LEX + ':Lexer._set_tokens', params={'self': LSET, 'new_token': OPT},
        ensures=['self.prev_token is old(self.cur_token)', 'self.token_stack[-1][0] is old(self.cur_token)',
                 'self.cur_token is new_token',
                 'self.valid_prev_token is (old(self.cur_token) if %s else old(self.valid_prev_token))' % real('old(self.cur_token)'),
                 'self.cur_token_real is (new_token if %s else old(self.cur_token_real))' % real('new_token'),
                 'len(self.token_stack) == len(old(self.token_stack))'],
        env={}))
    # ---- auto_semi (7.9.1)
    LAUTO = Obj(Lexer, {'prev_token': OPT, 'next_tokens': Empty()})
    lt = "(self.prev_token is not None and self.prev_token.type == 'LINE_TERMINATOR')"
    want = "(token is None or (token.type not in ('SEMI', 'AUTOSEMI') and (token.type == 'RBRACE' or %s)))" % lt
    cs.append(Contract(
        LEX + ':Lexer.auto_semi', params={'self': LAUTO, 'token': OPT},
        ensures=['(result is not None) == %s' % want,
                 "implies(result is not None, result.type == 'AUTOSEMI' and result.colno == 0)",
                 'implies(result is not None and token is not None, len(self.next_tokens) == 1 and self.next_tokens[0] is token '
                 'and result.lexpos == token.lexpos and result.lineno == token.lineno)',
                 'implies(result is None or token is None, len(self.next_tokens) == 0)'],
        env={'__inline__': {LEX + ':Lexer._is_prev_token_lt'}}))
    # ---- _get_update_token: restricted productions + parenthesis stack discipline
    for st in (Stack(1, 0), Stack(1, 1), Stack(2, 0), Stack(2, 1)):
        LUP = Obj(Lexer, {'prev_token': OPT, 'cur_token': OPT, 'valid_prev_token': OPT, 'cur_token_real': OPT, 'token_stack': st})
        for new_label, new_t in (('end of input', Const(None)), ('token', TOK)):
            newtok = [None]

            def mk(new_t=new_t, box=newtok):
                def eff(e, a, k):
                    box[0] = None if isinstance(new_t, Const) else TOK.make('new')
                    return box[0]
                return eff
            env = {'__extern__': {LEX + ':Lexer.get_lexer_token': PExt('get_lexer_token', mk())},
                   '__inline__': {LEX + ':Lexer._set_tokens'},
                   'new': Helper(lambda eng, box=newtok: box[0]),
                   'ECMASyntaxError': lexmod.ECMASyntaxError}
            env.update(semi_env)
            restricted = ("(new() is not None and new().type == 'LINE_TERMINATOR' and old(self.cur_token) is not None and "
                          "old(self.cur_token).type in ('BREAK', 'CONTINUE', 'RETURN', 'THROW'))")
            header = "(old(self.cur_token) is not None and old(self.cur_token).type in ('FOR', 'WHILE', 'IF', 'WITH'))"
            d0, i0 = st.depth, st.inner
            ens = ['self.cur_token is new()', 'self.prev_token is old(self.cur_token)',
                   "implies(%s, result.type == 'AUTOSEMI' and result.lexpos == new().lexpos)" % restricted,
                   'implies(not %s, result is new())' % restricted]
            if new_label == 'token':
                lp, rp = "new().type == 'LPAREN'", "new().type == 'RPAREN'"
                ens += [
                    'implies(%s and %s, len(self.token_stack) == %d and self.token_stack[-1][0] is new() and len(self.token_stack[-1][1]) == 0)' % (lp, header, d0 + 1),
                    'implies(%s and not %s, len(self.token_stack) == %d and len(self.token_stack[-1][1]) == %d and self.token_stack[-1][1][-1] is new())' % (lp, header, d0, i0 + 1),
                    'implies(%s, len(self.token_stack) == %d)' % (rp, d0 if i0 else d0 - 1),
                    'implies(not (%s) and not (%s), len(self.token_stack) == %d and len(self.token_stack[-1][1]) == %d)' % (lp, rp, d0, i0),
                ]
            raises = {}
            if d0 == 1 and i0 == 0 and new_label == 'token':
                raises = {'ECMASyntaxError': "new().type == 'RPAREN'"}     # mismatched ')' only
            cs.append(Contract(LEX + ':Lexer._get_update_token', params={'self': LUP}, ensures=ens, raises=raises, env=env,
                               notes='%r, %s' % (st, new_label)))
    return cs, [], {}

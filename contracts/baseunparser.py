"""Sidecar contracts for unparsers/base.py (glue under every printing property) and the parse() entry point.

BaseUnparser.setup: the handler tables are the union of the tables of the rule sets in order (a later rule set overrides an earlier
one, the instance's own tables override all), prewalk hooks accumulate in order, the token handler is the instance's, else the last
one a rule set names, else the default.  BaseUnparser.__call__: a NEW dispatcher per call from (definitions, token handler, layout,
deferrable); hooks run in order and thread the node; the walk gets (dispatcher, hooked node) and its chunks are yielded in order."""
from vf.pyvc.dsl import Contract, Const, Helper, PExt, PObj, PList, Str
from vf.pyvc.engine import PDict
from vf.pyvc.engine import PGen

MODULE = 'calmjs.parse.unparsers.base'


def build(bmod, pmod):
    cs = []
    rec = {}

    def reset():
        rec.clear()
        rec['log'] = []

    def handler(name):
        return PObj(object, {'__name__': name}, name=name)
    H = dict((n, handler(n)) for n in ('tokA', 'tokB', 'tokSelf', 'lay1', 'lay2', 'lay2b', 'laySelf', 'def1', 'def2', 'defSelf', 'hook1', 'hook2', 'hookSelf'))

    def rule(name, d):
        r = PObj(object, {'__name__': name}, name=name)
        r.fields['__call__'] = PExt(name, lambda e, a, k: PDict(dict(d)))
        return r
    r1 = rule('rule1', {'token_handler': H['tokA'], 'layout_handlers': PDict({'K1': H['lay1'], 'K2': H['lay2']}), 'deferrable_handlers': PDict({'D1': H['def1']}),
                        'prewalk_hooks': PList([H['hook1']])})
    r2 = rule('rule2', {'token_handler': H['tokB'], 'layout_handlers': PDict({'K2': H['lay2b']}), 'deferrable_handlers': PDict({'D2': H['def2']}),
                        'prewalk_hooks': PList([H['hook2']])})
    r3 = rule('rule3', {})
    log = PObj(object, name='logger')
    for m in ('warning', 'info', 'debug'):
        log.fields[m] = PExt('logger.' + m, lambda e, a, k: None)
    default_th = handler('default_token_handler')

    def items(d):
        return dict(d.val) if isinstance(d, PDict) else dict(d)
    env = {'__reset__': reset, 'logger': log, 'token_handler_str_default': default_th,
           'table': Helper(lambda e, d, k: items(d).get(k)), 'keys': Helper(lambda e, d: sorted(items(d))),
           'hooks': Helper(lambda e, l: list(l.val) if isinstance(l, PList) else list(l)), 'h': Helper(lambda e, n: H[n]), 'default_th': Helper(lambda e: default_th)}
    cases = [
        ('two rule sets', [r1, r2], None, None, None, (),
         ["result[0] is h('tokB')", "keys(result[1]) == ['K1', 'K2']", "table(result[1], 'K1') is h('lay1')", "table(result[1], 'K2') is h('lay2b')",
          "keys(result[2]) == ['D1', 'D2']", "hooks(result[3]) == [h('hook1'), h('hook2')]"]),
        ('instance tables override', [r1], 'tokSelf', {'K1': 'laySelf'}, {'D1': 'defSelf'}, ('hookSelf',),
         ["result[0] is h('tokSelf')", "table(result[1], 'K1') is h('laySelf')", "table(result[1], 'K2') is h('lay2')", "table(result[2], 'D1') is h('defSelf')",
          "hooks(result[3]) == [h('hook1'), h('hookSelf')]"]),
        ('no token handler anywhere', [r3], None, None, None, (),
         ['result[0] is default_th()', 'keys(result[1]) == []', 'keys(result[2]) == []', 'hooks(result[3]) == []']),
    ]
    for label, rules, th, lay, dfr, hooks_, ens in cases:
        class SelfT(object):
            def __init__(self, rules=rules, th=th, lay=lay, dfr=dfr, hooks_=hooks_):
                self.a = (rules, th, lay, dfr, hooks_)

            def make(self, name):
                rules, th, lay, dfr, hooks_ = self.a
                o = PObj(bmod.BaseUnparser, name='self')
                o.fields.update(rules=tuple(rules), token_handler=H[th] if th else None,
                                layout_handlers=PDict(dict((k, H[v]) for k, v in lay.items())) if lay else None,
                                deferrable_handlers=PDict(dict((k, H[v]) for k, v in dfr.items())) if dfr else None,
                                prewalk_hooks=tuple(H[x] for x in hooks_))
                return o
        cs.append(Contract(MODULE + ':BaseUnparser.setup', params={'self': SelfT()}, ensures=ens, env=env, notes=label))
    # ---- __call__
    rec2 = {}

    class CallSelf(object):
        def make(self, name):
            rec2.clear()
            rec2['log'] = []
            o = PObj(bmod.BaseUnparser, name='self')
            hk = []
            for i in range(2):
                def hook(e, a, k, i=i):
                    rec2['log'].append(('hook%d' % i, a))
                    n = PObj(object, name='node_after_hook%d' % i)
                    rec2['node%d' % i] = n
                    return n
                hk.append(PExt('hook%d' % i, hook))
            rec2['tables'] = (handler('th'), PDict({}), PDict({}), PList(hk))
            o.fields['setup'] = PExt('BaseUnparser.setup', lambda e, a, k: rec2['tables'])
            rec2['definitions'] = PDict({})
            o.fields['definitions'] = rec2['definitions']

            def disp(e, a, k):
                rec2['log'].append(('dispatcher', a))
                d = PObj(object, name='dispatcher%d' % len([x for x in rec2['log'] if x[0] == 'dispatcher']))
                rec2['dispatcher'] = d
                return d
            o.fields['dispatcher_cls'] = PExt('Dispatcher', disp)

            def walk(e, a, k):
                rec2['log'].append(('walk', a))
                rec2['chunks'] = [PObj(object, name='chunk%d' % i) for i in range(3)]
                return PGen(list(rec2['chunks']))
            o.fields['walk'] = PExt('walk', walk)
            return o

    class NodeT(object):
        def make(self, name):
            return PObj(object, name='node')

    def entry(n):
        return [x for x in rec2['log'] if x[0] == n]
    env2 = {'order': Helper(lambda e: [x[0] for x in rec2['log']]),
            'dispatcher_args_ok': Helper(lambda e: tuple(entry('dispatcher')[0][1]) == (rec2['definitions'],) + tuple(rec2['tables'][:3])
                                         if len(entry('dispatcher')[0][1]) == 4 else False),
            'hook_args_ok': Helper(lambda e, node: entry('hook0')[0][1][0] is rec2['dispatcher'] and entry('hook0')[0][1][1] is node
                                   and entry('hook1')[0][1][0] is rec2['dispatcher'] and entry('hook1')[0][1][1] is rec2['node0']),
            'walk_args_ok': Helper(lambda e: entry('walk')[0][1][0] is rec2['dispatcher'] and entry('walk')[0][1][1] is rec2['node1']),
            'chunks_in_order': Helper(lambda e, result: [x for x in result.items] == rec2['chunks'] and all(a is b for a, b in zip(result.items, rec2['chunks'])))}
    cs.append(Contract(MODULE + ':BaseUnparser.__call__', params={'self': CallSelf(), 'node': NodeT()}, yields=Const(None),
                       ensures=["order() == ['dispatcher', 'hook0', 'hook1', 'walk']", 'dispatcher_args_ok()', 'hook_args_ok(node)', 'walk_args_ok()', 'chunks_in_order(result)'],
                       env=env2))
    # ---- parsers.es5.parse: a new Parser per call, the capture flag forwarded, the text handed on
    rec3 = {}

    def parser_cls(e, a, k):
        rec3['ctor'] = (tuple(a), dict(k))
        p = PObj(object, name='parser')

        def parse(e2, a2, k2):
            rec3['parsed'] = (tuple(a2), dict(k2))
            rec3['tree'] = PObj(object, name='tree')
            return rec3['tree']
        p.fields['parse'] = PExt('Parser.parse', parse)
        return p
    env3 = {'__reset__': rec3.clear, 'Parser': PExt('Parser', parser_cls),
            'ctor_flag': Helper(lambda e: rec3['ctor'][1].get('with_comments', rec3['ctor'][0][0] if rec3['ctor'][0] else '<missing>')),
            'parsed_text': Helper(lambda e: rec3['parsed'][0][0] if rec3['parsed'][0] else rec3['parsed'][1].get('text')), 'tree': Helper(lambda e: rec3['tree'])}
    for wc in (True, False):
        cs.append(Contract('calmjs.parse.parsers.es5:parse', params={'source': Str, 'with_comments': Const(wc)},
                           ensures=['result is tree()', 'ctor_flag() is %r' % wc, 'parsed_text() is source'], env=env3, notes='with_comments=%s' % wc))
    return cs


def build_init(base_module):
    """BaseUnparser.__init__: the printer keeps its OWN definitions table with the entries it was given (the table it is built from --
    by default the module-level one of the dialect -- must not change when somebody customises this printer, nor the other way round:
    C14 / C20 speak about printers, not about one shared table); everything else is stored as given."""
    from vf.pyvc.dsl import Obj
    from vf.pyvc.engine import PDict
    Base = base_module.BaseUnparser
    rule_a, rule_b = PObj(object, name='rule_a'), PObj(object, name='rule_b')
    DEFS = {'Kind': (rule_a,), 'Other': (rule_a, rule_b)}

    class Table(object):
        def make(self, name):
            return PDict(dict(DEFS))

        def __repr__(self):
            return 'definitions'
    TH, WALK, DCLS, LH, DH = (PObj(object, name=n) for n in ('token_handler', 'walk', 'dispatcher_cls', 'layout_handlers', 'deferrable_handlers'))
    rule = PObj(object, name='rule_factory')

    def own_copy(e, mine, given):
        return isinstance(mine, PDict) and isinstance(given, PDict) and mine is not given and mine.val == DEFS and given.val == DEFS
    env = {'own_copy': Helper(own_copy)}
    cs = [Contract(MODULE + ':BaseUnparser.__init__',
                   params={'self': Obj(Base, {}), 'definitions': Table(), 'token_handler': Const(TH), 'rules': Const((rule,)), 'layout_handlers': Const(LH),
                           'deferrable_handlers': Const(DH), 'prewalk_hooks': Const(('h',)), 'walk': Const(WALK), 'dispatcher_cls': Const(DCLS)},
                   ensures=['own_copy(self.definitions, definitions)', 'self.token_handler is token_handler', 'self.rules == rules',
                            'self.layout_handlers is layout_handlers', 'self.deferrable_handlers is deferrable_handlers',
                            "self.prewalk_hooks == ('h',)", 'self.walk is walk', 'self.dispatcher_cls is dispatcher_cls'], env=env)]
    return cs

"""Sidecar contracts for the small pieces of sourcemap.py the larger contracts take as given (C09):

    Names.__init__     an empty table, current index 0 (what the invariant of Names.update starts from)
    Names.__iter__     the names in the order of their indices -- position i of the `names` array of the map is the name whose
                       index is i, whatever order the table was filled in (tables of 0..4 names, every insertion order)
    Book.__init__      both text lengths 0, the keeper the one given
    default_book       a Book around a fresh Bookkeeper on which exactly sink_column = 0, source_line = 1, source_column = 1 were
                       set and nothing else: Source Map V3 counts generated columns from 0, and the library's source lines / columns
                       from 1, so the first segment's deltas come out against (0, 1, 1)
contracts/smwrite.py states `sourcemap.write` for a book "as default_book builds it"; this closes that gap."""
import itertools

from vf.pyvc.dsl import Contract, Const, Helper, PExt, PObj, PList, Str, Int
from vf.pyvc.engine import PDict

MODULE = 'calmjs.parse.sourcemap'


def build(sm):
    cs = []
    rec = {}

    def reset():
        rec.clear()
        rec.update(sets=[], made=[])
    # ---- Names.__init__
    cs.append(Contract(MODULE + ':Names.__init__', params={'self': Const(PObj(sm.Names, name='names'))},
                       ensures=['len(self._names) == 0', 'self._current == 0'], modifies=['self._names', 'self._current'], env={'__reset__': reset}))
    # ---- Names.__iter__: every insertion order of up to 4 names
    for n in range(0, 5):
        for order in (itertools.permutations(range(n)) if n <= 3 else [(2, 0, 3, 1), (3, 2, 1, 0)]):
            names = ['zeta', 'alpha', 'mid', 'beta'][:n]       # alphabetical order differs from the order of the indices

            class NamesT(object):
                def __init__(self, order=order, names=names):
                    self.order, self.names = order, names

                def make(self, name):
                    o = PObj(sm.Names, name='names')
                    d = {}
                    for i in self.order:            # filled in this order; the index of names[i] is i
                        d[self.names[i]] = i
                    o.fields['_names'] = PDict(d)
                    o.fields['_current'] = Int.fresh('current')
                    return o
            cs.append(Contract(MODULE + ':Names.__iter__', params={'self': NamesT()}, yields=Const(None),
                               ensures=['listed(result) == %r' % (names,)],
                               env={'__reset__': reset, 'listed': Helper(lambda e, r: list(r.items if hasattr(r, 'items') and not callable(r.items) else (r.val if isinstance(r, PList) else r)))},
                               hints={'loops_may_be_unreachable': True}, notes='%d name(s), filled in order %r' % (n, tuple(order))))
    # ---- Book.__init__
    keeper = PObj(object, name='the_keeper')
    cs.append(Contract(MODULE + ':Book.__init__', params={'self': Const(PObj(sm.Book, name='book')), 'bookkeeper': Const(keeper)},
                       ensures=['self.written_len == 0', 'self.original_len == 0', 'self.keeper is the_keeper()'],
                       modifies=['self.written_len', 'self.original_len', 'self.keeper'], env={'__reset__': reset, 'the_keeper': Helper(lambda e: keeper)}))

    # ---- default_book
    def bookkeeper(e, a, k):
        bk = PObj(object, name='bookkeeper_%d' % len(rec['made']))

        def setattr_(e2, a2, k2):
            rec['sets'].append((bk, a2[0], a2[1]))
        bk.fields['__setattr__'] = PExt('Bookkeeper.__setattr__', setattr_)
        rec['made'].append(bk)
        return bk

    def book(e, a, k):
        b = PObj(object, name='book')
        b.fields['keeper'] = a[0] if a else k.get('bookkeeper')
        rec['book'] = b
        return b
    cs.append(Contract(MODULE + ':default_book', params={},
                       ensures=['result is the_book()', 'one_keeper()', 'result.keeper is made_keeper()',
                                'keeper_fields_ok()'],
                       env={'__reset__': reset, 'Bookkeeper': PExt('Bookkeeper', bookkeeper), 'Book': PExt('Book', book),
                            'the_book': Helper(lambda e: rec.get('book')), 'one_keeper': Helper(lambda e: len(rec['made']) == 1),
                            'made_keeper': Helper(lambda e: rec['made'][0]),
                            'keeper_fields_ok': Helper(lambda e: {k_: v_ for k_, v_ in rec['made'][0].fields.items() if not k_.startswith('__')}
                                                       == {'sink_column': 0, 'source_line': 1, 'source_column': 1})}))
    return cs

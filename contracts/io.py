"""Sidecar contracts for calmjs.parse.io.read / io.write (property C18): streams obtained from a
factory are closed exactly once on every exit path, passed-in streams never; failures propagate,
syntax errors re-labelled.

External calls (stream factories, read/write/writelines, the parser, the unparser, sourcemap.write,
sourcemap.write_sourcemap) are modelled as `PExt`: each may raise at its call site (one explored
path per site) -- close() is assumed not to raise (the statement lists read, parse, unparse and write
failures)."""
import z3

from vf.pyvc.dsl import (Contract, Const, OneOf, Helper, PExt, SameAs, PObj, PExc, PList, SBool, Str)
from vf.pyvc.engine import PGen

MODULE = 'calmjs.parse.io'


class Boom(Exception):
    """some failure of an external call"""


class Abort(BaseException):
    """a failure that is not an Exception (KeyboardInterrupt, SystemExit, GeneratorExit, CancelledError ...): streams obtained
    from a factory are closed on these paths too"""


class World(object):
    """ghost state of one explored path: every stream object and how often it was closed"""

    def __init__(self, module):
        self.module = module
        self.reset()

    def reset(self):
        self.streams = []
        self.texts_read = []
        self.texts_parsed = []

    def new_stream(self, origin, name_kind='str'):
        s = PObj(object, name='%s#%d' % (origin, len(self.streams)))
        s.ghost = dict(origin=origin, closes=0)

        def close(eng, args, kwargs):
            s.ghost['closes'] += 1
        s.fields['close'] = PExt('close', close)
        def read(e, a, k):
            t = e.fresh(Str, 'text')
            self.texts_read.append(t)
            return t
        s.fields['read'] = PExt('read', read, raises=(Boom, Abort))
        s.fields['write'] = PExt('write', None, raises=(Boom, Abort))
        s.fields['writelines'] = PExt('writelines', None, raises=(Boom, Abort))
        if name_kind == 'str':
            s.fields['name'] = 'stream.js'
        self.streams.append(s)
        return s


class OpenStream(object):
    def __init__(self, world, name_kind='str'):
        self.world, self.name_kind = world, name_kind

    def make(self, name):
        return self.world.new_stream('passed-in', self.name_kind)

    def __repr__(self):
        return 'OpenStream(%s)' % self.name_kind


class Factory(object):
    def __init__(self, world, name_kind='str'):
        self.world, self.name_kind = world, name_kind

    def make(self, name):
        w = self.world
        return PExt('factory:' + name, lambda e, a, k: w.new_stream('factory', self.name_kind), raises=(Boom, Abort))

    def __repr__(self):
        return 'Factory(%s)' % self.name_kind


def build(module):
    exc_mod = __import__('calmjs.parse.exceptions', fromlist=['x'])
    ESE = exc_mod.ECMASyntaxError
    w = World(module)

    def closed_right(eng):
        ok = all((s.ghost['closes'] == 1) if s.ghost['origin'] == 'factory' else (s.ghost['closes'] == 0) for s in w.streams)
        return ok

    def exc_from(eng, site):
        e = eng.ev(__import__('ast').parse('__exc__', mode='eval').body, eng._raise_frame) if False else None
        return None

    class RegexLikeError(ESE):
        """a subclass of the syntax error (as ECMARegexSyntaxError is): re-labelling must keep the class"""

    class ParserModel(object):
        def __init__(self, syntax_error=ESE):
            self.syntax_error = syntax_error

        def make(self, name):
            def eff(e, a, k):
                w.texts_parsed.append(a[0] if a else None)
                r = PObj(object, name='tree')
                r.fields['sourcepath'] = None
                return r
            return PExt('parser', eff, raises=(self.syntax_error, Boom, Abort))

        def __repr__(self):
            return 'Parser(raising %s)' % self.syntax_error.__name__

    env = {'__reset__': w.reset, 'closed_right': Helper(closed_right),
           'repr_compat': PExt('repr_compat', lambda e, a, k: e.fresh(Str, 'repr'))}

    def relabelled(eng, exc, cls=ESE):
        # a syntax error from the parser is re-raised as the same class with a new message built by the function
        return isinstance(exc, PExc) and exc.cls is cls and exc.tag is None and len(exc.args) == 1

    def propagated(eng, exc):
        return isinstance(exc, PExc) and exc.cls in (Boom, Abort) and exc.tag is not None
    env['relabelled'] = Helper(relabelled)
    env['parsed_what_was_read'] = Helper(lambda e: len(w.texts_read) == 1 and len(w.texts_parsed) == 1 and w.texts_parsed[0] is w.texts_read[0])
    env['propagated'] = Helper(propagated)

    cs = []
    for kind, sty in (('factory', Factory(w)), ('open stream', OpenStream(w)), ('open stream without name', OpenStream(w, 'none'))):
        for ecls in (ESE, RegexLikeError):
            cs.append(Contract(
                MODULE + ':read', params={'parser': ParserModel(ecls), 'stream': sty},
                ensures=['closed_right()', 'result.sourcepath == %r' % (None if 'without' in kind else 'stream.js'), 'parsed_what_was_read()'],
                raises={'ECMASyntaxError': 'closed_right() and relabelled(__exc__, the_class)',
                        'Boom': 'closed_right() and propagated(__exc__)', 'Abort': 'closed_right() and propagated(__exc__)'},
                env=dict(env, the_class=ecls), notes=kind + ('' if ecls is ESE else ', parser raises a subclass of the syntax error')))

    # ---- io.write
    smod = PObj(object, name='sourcemap')

    sw = {}

    def sm_write(e, a, k):
        sw['write_kw'] = dict(k)
        return (PList([]), PList([]), PList([]))

    def sm_write_sourcemap(e, a, k):
        sw['wsm_kw'] = dict(k)
    smod.fields['write'] = PExt('sourcemap.write', sm_write, raises=(Boom, Abort))
    smod.fields['write_sourcemap'] = PExt('sourcemap.write_sourcemap', sm_write_sourcemap, raises=(Boom, Abort))
    envw = dict(env)
    envw['sourcemap'] = smod
    Node = __import__('calmjs.parse.asttypes', fromlist=['x']).Node

    class NodeModel(object):
        def make(self, name):
            return PObj(Node, name='node')

    class UnparserModel(object):
        """calling the unparser gives a generator; what it yields is the printer's business -- possibly nothing at all
        (minify of an empty program), which must not be mistaken for 'no nodes given'"""
        def __init__(self, nchunks):
            self.n = nchunks

        def make(self, name):
            return PExt('unparser', lambda e, a, k: PGen([PObj(object, name='chunk%d' % i) for i in range(self.n)]), raises=(Boom, Abort))

        def __repr__(self):
            return 'Unparser(yields %d)' % self.n

    arrangements = [
        ('out factory, no map', Factory(w), Const(None)),
        ('out open, no map', OpenStream(w), Const(None)),
        ('out factory, map same', Factory(w), SameAs('output_stream')),
        ('out open, map same', OpenStream(w), SameAs('output_stream')),
        ('out factory, map factory', Factory(w), Factory(w)),
        ('out factory, map open', Factory(w), OpenStream(w)),
        ('out open, map factory', OpenStream(w), Factory(w)),
        ('out open, map open', OpenStream(w), OpenStream(w)),
    ]
    # the two switches are handed on to the right callee, each under its own name (all four combinations, separate map stream)
    envw['switch_handed_on'] = Helper(lambda e, which, key, v: (sw.get(which, {}).get(key, '<missing>') == v) if isinstance(v, str) else (sw.get(which, {}).get(key, '<missing>') is v))
    for nm_ in (True, False):
        for np_ in (True, False):
            cs.append(Contract(
                MODULE + ':write',
                params={'unparser': UnparserModel(2), 'nodes': NodeModel(), 'output_stream': OpenStream(w), 'sourcemap_stream': OpenStream(w),
                        'sourcemap_normalize_mappings': Const(nm_), 'sourcemap_normalize_paths': Const(np_), 'source_mapping_url': Const('given.map')},
                ensures=["switch_handed_on('write_kw', 'normalize', %r)" % nm_, "switch_handed_on('wsm_kw', 'normalize_paths', %r)" % np_,
                         "switch_handed_on('wsm_kw', 'source_mapping_url', 'given.map')"],
                raises={'Boom': 'closed_right()', 'Abort': 'closed_right()'}, env=envw,
                notes='switches: normalize_mappings=%s normalize_paths=%s' % (nm_, np_)))
    for label, out_t, map_t, nch in [(l + ', unparser yields %d chunks' % n_, o, m, n_) for l, o, m in arrangements for n_ in (0, 2)]:
        cs.append(Contract(
            MODULE + ':write',
            params={'unparser': UnparserModel(nch), 'nodes': NodeModel(), 'output_stream': out_t, 'sourcemap_stream': map_t,
                    'sourcemap_normalize_mappings': Const(True), 'sourcemap_normalize_paths': Const(True),
                    'source_mapping_url': Const(NotImplemented)},
            ensures=['closed_right()', 'result is None'],
            raises={'Boom': 'closed_right() and propagated(__exc__)', 'Abort': 'closed_right() and propagated(__exc__)'},
            env=envw, notes=label))
    # ---- io.write with a list of nodes (and things that are not nodes): the chunks of every Node entry, in order; nothing else
    log = {}

    class ListModel(object):
        def __init__(self, pattern):
            self.pattern = pattern           # 'N' = a Node, 'x' = something else

        def make(self, name):
            log.clear()
            log['calls'] = []
            log['items'] = [PObj(Node, name='node%d' % i) if c_ == 'N' else 'not a node %d' % i for i, c_ in enumerate(self.pattern)]
            return PList(list(log['items']))

        def __repr__(self):
            return 'Nodes[%s]' % self.pattern

    class UnparserLog(object):
        def make(self, name):
            def eff(e, a, k):
                log['calls'].append(a[0])
                g = PGen([PObj(object, name='chunk_of_%s' % getattr(a[0], 'name', '?'))])
                log.setdefault('gens', []).append(g)
                return g
            return PExt('unparser', eff, raises=(Boom, Abort))

    def chain_model(e, a, k):
        log['chained'] = list(a)
        out = []
        for g in a:
            out.extend(g.items)
        return PGen(out)

    def sm_write2(e, a, k):
        log['written'] = a[0]
        return (PList([]), PList([]), PList([]))
    smod2 = PObj(object, name='sourcemap')
    smod2.fields['write'] = PExt('sourcemap.write', sm_write2, raises=(Boom, Abort))
    smod2.fields['write_sourcemap'] = PExt('sourcemap.write_sourcemap', None, raises=(Boom, Abort))
    envl = dict(env)
    envl.update(sourcemap=smod2, chain=PExt('itertools.chain', chain_model),
                unparsed_nodes=Helper(lambda e: [x for x in log['calls']] == [x for x in log['items'] if isinstance(x, PObj)]
                                      and all(a_ is b_ for a_, b_ in zip(log['calls'], [x for x in log['items'] if isinstance(x, PObj)]))),
                chained_all=Helper(lambda e: len(log.get('chained', [])) == len(log.get('gens', [])) and all(a_ is b_ for a_, b_ in zip(log['chained'], log['gens']))),
                wrote_chain=Helper(lambda e: isinstance(log.get('written'), PGen) and len(log['written'].items) == len(log['calls'])))
    for pattern in ('NN', 'NxN', 'xN', 'N'):
        for label, out_t, map_t in arrangements[:2] + arrangements[4:5]:
            cs.append(Contract(
                MODULE + ':write',
                params={'unparser': UnparserLog(), 'nodes': ListModel(pattern), 'output_stream': out_t, 'sourcemap_stream': map_t,
                        'sourcemap_normalize_mappings': Const(True), 'sourcemap_normalize_paths': Const(True), 'source_mapping_url': Const(NotImplemented)},
                ensures=['closed_right()', 'result is None', 'unparsed_nodes()', 'chained_all()', 'wrote_chain()'],
                raises={'Boom': 'closed_right() and propagated(__exc__)', 'Abort': 'closed_right() and propagated(__exc__)'}, env=envl, notes='node list %s, %s' % (pattern, label)))
    for pattern in ('', 'x', 'xx'):
        cs.append(Contract(
            MODULE + ':write',
            params={'unparser': UnparserLog(), 'nodes': ListModel(pattern), 'output_stream': arrangements[0][1], 'sourcemap_stream': Const(None),
                    'sourcemap_normalize_mappings': Const(True), 'sourcemap_normalize_paths': Const(True), 'source_mapping_url': Const(NotImplemented)},
            ensures=['False'], raises={'TypeError': 'closed_right()'}, env=envl, notes='no Node in the list (%r): TypeError before any stream is opened' % pattern))
    return cs, [], env

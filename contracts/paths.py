"""Sidecar contract for sourcemap.verify_write_sourcemap_args (properties C09 / C18): which path is made
relative to which.  A Source Map V3 consumer resolves `file` and every entry of `sources` against the
location of the map, and the sourceMappingURL against the location of the generated file; the contract
states exactly that wiring.  utils.normrelpath is external here (recorded, returns an opaque key); its own
round-trip property (join(dirname(base), normrelpath(base, target)) designates target) is a string
function over os.path and is checked by a bounded stand-in only."""
from vf.pyvc.dsl import Contract, Const, OneOf, Helper, PExt, PObj, PList, Str, SameAs as SameAsParam

MODULE = 'calmjs.parse.sourcemap'


def build(smod):
    cs = []
    rec = {}

    def reset():
        rec.clear()

    def nrp(e, a, k):
        key = 'rel%d' % len(rec)
        rec[key] = (a[0], a[1])
        return key

    def is_rel(eng, key, base, target):
        import ast
        if not isinstance(key, str) or key not in rec:
            return False
        b, t = rec[key]
        rb = b is base or eng.compare(ast.Eq(), b, base)
        rt = t is target or eng.compare(ast.Eq(), t, target)
        if rb is True and rt is True:
            return True
        if rb is False or rt is False:
            return False
        return eng.bool_and(rb, rt) if hasattr(eng, 'bool_and') else (rb if rt is True else rt if rb is True else False)

    class Stream(object):
        def __init__(self, nm):
            self.nm = nm

        def make(self, name):
            o = PObj(object, name=name)
            o.fields['name'] = Str.fresh(self.nm)
            return o

    class Sources(object):
        def __init__(self, n):
            self.n = n

        def make(self, name):
            return PList([Str.fresh('src%d' % i) for i in range(self.n)])

    class Opaque(object):
        def make(self, name):
            return PObj(object, name=name)
    log = PObj(object, name='logger')
    log.fields['warning'] = PExt('logger.warning', lambda e, a, k: None)
    env = {'__reset__': reset, 'normrelpath': PExt('utils.normrelpath', nrp), 'is_rel': Helper(is_rel), 'logger': log}
    for n in (0, 1, 2):
        ens = ['is_rel(result[0][0], sourcemap_stream.name, output_stream.name)', 'result[0][1] is mappings',
               'len(result[0][2]) == %d' % n, 'result[0][3] is names', 'is_rel(result[1], output_stream.name, sourcemap_stream.name)']
        ens += ['is_rel(result[0][2][%d], sourcemap_stream.name, sources[%d])' % (i, i) for i in range(n)]
        cs.append(Contract(
            MODULE + ':verify_write_sourcemap_args',
            params={'mappings': Opaque(), 'sources': Sources(n), 'names': Opaque(), 'output_stream': Stream('out_name'),
                    'sourcemap_stream': Stream('map_name'), 'normalize_paths': Const(True)},
            ensures=ens, env=env, notes='normalize_paths=True, %d sources' % n))
    cs.append(Contract(
        MODULE + ':verify_write_sourcemap_args',
        params={'mappings': Opaque(), 'sources': Sources(2), 'names': Opaque(), 'output_stream': Stream('out_name'),
                'sourcemap_stream': Stream('map_name'), 'normalize_paths': Const(False)},
        ensures=['result[0][0] == output_stream.name', 'result[0][1] is mappings', 'result[0][2] is sources', 'result[0][3] is names',
                 'result[1] == sourcemap_stream.name'], env=env, notes='normalize_paths=False'))
    return cs, [], env


def build_write_sourcemap(smod):
    """sourcemap.write_sourcemap: the JSON text of the map (from encode_sourcemap over the verified arguments) goes,
    unaltered, either to the map stream (with a sourceMappingURL line naming it on the output stream) or -- when both
    streams are the same object -- into a base64 data URL whose payload is that text encoded *strictly* in the
    charset the URL declares."""
    from vf.pyvc.dsl import Int
    cs = []
    rec = {}

    def reset():
        rec.clear()
        rec['log'] = []

    def vargs(e, a, k):
        rec['log'].append(('verify', a, dict(k)))
        rec['args4'] = tuple(PObj(object, name='enc_arg%d' % i) for i in range(4))
        rec['url'] = Str.fresh('output_js_map')
        return (rec['args4'], rec['url'])

    def enc(e, a, k):
        rec['log'].append(('encode_sourcemap', a, dict(k)))
        rec['doc'] = PObj(object, name='doc')
        return rec['doc']

    def dumps(e, a, k):
        rec['log'].append(('dumps', a, dict(k)))
        text = PObj(object, name='json_text')

        def encode(e2, a2, k2):
            rec['log'].append(('text.encode', a2, dict(k2)))
            rec['bytes'] = PObj(object, name='bytes')
            return rec['bytes']
        text.fields['encode'] = PExt('str.encode', encode)
        rec['text'] = text
        return text

    def b64(e, a, k):
        rec['log'].append(('b64encode', a, dict(k)))
        o = PObj(object, name='b64bytes')

        def dec(e2, a2, k2):
            rec['log'].append(('b64.decode', a2, dict(k2)))
            rec['payload'] = Str.fresh('payload')
            return rec['payload']
        o.fields['decode'] = PExt('bytes.decode', dec)
        return o
    jsonm = PObj(object, name='json')
    jsonm.fields['dumps'] = PExt('json.dumps', dumps)
    b64m = PObj(object, name='base64')
    b64m.fields['b64encode'] = PExt('base64.b64encode', b64)

    class Stream(object):
        def __init__(self, label, encoding, errors):
            self.label, self.encoding, self.errors = label, encoding, errors

        def make(self, name):
            o = PObj(object, name=self.label)
            if self.encoding is not None:
                o.fields['encoding'] = self.encoding if self.encoding != 'sym' else Str.fresh('stream_encoding')
            if self.errors is not None:
                o.fields['errors'] = self.errors
            o.fields['writelines'] = PExt(self.label + '.writelines', lambda e, a, k: rec['log'].append((self.label + '.writelines', a, dict(k))))
            o.fields['write'] = PExt(self.label + '.write', lambda e, a, k: rec['log'].append((self.label + '.write', a, dict(k))))
            return o

        def __repr__(self):
            return 'Stream(%s, encoding=%s, errors=%s)' % (self.label, self.encoding, self.errors)

    def same(eng, a, b):
        if a is b:
            return True
        if isinstance(a, (PObj, PList)) or isinstance(b, (PObj, PList)):
            return False
        try:
            return eng.compare(__import__('ast').Eq(), a, b)
        except Exception:
            return False

    def calls(e, what):
        return len([x for x in rec['log'] if x[0] == what])

    def call_args(what):
        return [x for x in rec['log'] if x[0] == what][0]

    def strict_encode(e, encoding):
        c = call_args('text.encode')
        if len(c[1]) != 1 or not same(e, c[1][0], encoding) is True and same(e, c[1][0], encoding) is False:
            pass
        ok_enc = same(e, c[1][0], encoding) if c[1] else same(e, c[2].get('encoding'), encoding)
        errs = c[1][1] if len(c[1]) > 1 else c[2].get('errors', 'strict')
        return ok_enc is not False and errs == 'strict' and (ok_enc if ok_enc is not True else True)

    def line_item(e, what, i):
        lst = call_args(what)[1][0]
        items = lst.val if isinstance(lst, PList) else list(lst)
        return items[i]
    env = {'__reset__': reset, 'verify_write_sourcemap_args': PExt('verify_write_sourcemap_args', vargs),
           'encode_sourcemap': PExt('encode_sourcemap', enc), 'json': jsonm, 'base64': b64m,
           'calls': Helper(calls), 'strict_encode': Helper(strict_encode), 'line_item': Helper(line_item),
           'line_len': Helper(lambda e, what: len(call_args(what)[1][0].val if isinstance(call_args(what)[1][0], PList) else call_args(what)[1][0])),
           'payload': Helper(lambda e: rec.get('payload')), 'url': Helper(lambda e: rec['url']), 'text': Helper(lambda e: rec['text']),
           'arg0': Helper(lambda e, what: call_args(what)[1][0]), 'doc': Helper(lambda e: rec['doc']),
           'b64_of_encoded': Helper(lambda e: call_args('b64encode')[1][0] is rec.get('bytes')),
           'encoded_args': Helper(lambda e: tuple(call_args('encode_sourcemap')[1]) == tuple(rec['args4'])),
           'default_encoding': smod.default_encoding}
    common = dict(mappings=Const('M'), sources=Const('S'), names=Const('N'), normalize_paths=Const(True))
    # inline: the same stream object
    for enc_kind, encoding in (('declared encoding', 'sym'), ('no encoding attribute', None)):
        for errors in (None, 'replace', 'ignore'):
            want_enc = 'output_stream.encoding' if encoding else 'default_encoding'
            if encoding == 'sym':
                req = ['len(output_stream.encoding) > 0']
            else:
                req = []
            cs.append(Contract(
                MODULE + ':write_sourcemap',
                params=dict(common, output_stream=Stream('out', encoding, errors), sourcemap_stream=SameAsParam('output_stream'),
                            source_mapping_url=Const(NotImplemented)),
                requires=req,
                ensures=['encoded_args()', "arg0('dumps') is doc()", "calls('text.encode') == 1", 'strict_encode(%s)' % want_enc, 'b64_of_encoded()',
                         "calls('out.writelines') == 1", "calls('out.write') == 0", "line_len('out.writelines') == 4",
                         "line_item('out.writelines', 0) == '\\n//# sourceMappingURL=data:application/json;base64;charset='",
                         "line_item('out.writelines', 1) == %s" % want_enc, "line_item('out.writelines', 2) == ','",
                         "line_item('out.writelines', 3) is payload()"],
                env=env, notes='inline, %s, errors=%s' % (enc_kind, errors)))
    # separate streams
    for smu_label, smu, nlines in (('default url', Const(NotImplemented), 1), ('explicit url', Const('explicit.map'), 1), ('no url', Const(None), 0)):
        ens = ['encoded_args()', "arg0('dumps') is doc()", "calls('map.write') == 1", "arg0('map.write') is text()", "calls('map.writelines') == 0",
               "calls('out.write') == 0", "calls('out.writelines') == %d" % nlines, "calls('text.encode') == 0"]
        if nlines:
            ens += ["line_len('out.writelines') == 3", "line_item('out.writelines', 0) == '\\n//# sourceMappingURL='",
                    "line_item('out.writelines', 2) == '\\n'",
                    "line_item('out.writelines', 1) == 'explicit.map'" if smu_label == 'explicit url' else "line_item('out.writelines', 1) is url()"]
        cs.append(Contract(
            MODULE + ':write_sourcemap',
            params=dict(common, output_stream=Stream('out', 'sym', 'replace'), sourcemap_stream=Stream('map', 'sym', None), source_mapping_url=smu),
            ensures=ens, env=env, notes='separate streams, %s' % smu_label))
    return cs


def build_normrelpath(umod):
    """utils.normrelpath: the wiring of the os.path calls (which path is normalised, whose directory is the start) -- os.path itself
    is a trusted library; the round-trip property over real paths stays a bounded stand-in (vf/checks/pathobl.py)."""
    cs = []
    rec = {}

    def reset():
        rec.clear()
        rec['log'] = []

    def ext(name):
        def fn(e, a, k):
            r = Str.fresh(name + '_result')
            rec['log'].append((name, tuple(a), r))
            return r
        return fn

    def isabs_model(absolute):
        def fn(e, a, k):
            rec['log'].append(('isabs', tuple(a), absolute[len([x for x in rec['log'] if x[0] == 'isabs'])]))
            return rec['log'][-1][2]
        return fn

    def result_of(e, name, arg):
        for n, a, r in rec['log']:
            if n == name and len(a) >= 1 and a[0] is arg:
                return r
        return None

    def relpath_args(e):
        for n, a, r in rec['log']:
            if n == 'relpath':
                return a
        return None
    for absolute in ((True, True), (True, False), (False, True), (False, False)):
        env = {'__reset__': reset, 'isabs': PExt('os.path.isabs', isabs_model(absolute)), 'normpath': PExt('os.path.normpath', ext('normpath')),
               'dirname': PExt('os.path.dirname', ext('dirname')), 'relpath': PExt('os.path.relpath', ext('relpath')),
               'map': PExt('map', lambda e, a, k: PList([e.call(a[0], [x], {}, None) for x in (a[1].val if isinstance(a[1], PList) else a[1])])),
               'norm_of': Helper(lambda e, p: result_of(e, 'normpath', p)), 'dir_of': Helper(lambda e, p: result_of(e, 'dirname', p)),
               'rel_args': Helper(relpath_args),
               'rel_result': Helper(lambda e: [r for n, a, r in rec['log'] if n == 'relpath'][0] if any(n == 'relpath' for n, a, r in rec['log']) else None)}
        if all(absolute):
            ens = ['result is rel_result()', 'rel_args()[0] is norm_of(target)', 'rel_args()[1] is dir_of(norm_of(base))']
        else:
            ens = ['result is target', 'rel_result() is None']
        cs.append(Contract('calmjs.parse.utils:normrelpath', params={'base': Str, 'target': Str}, ensures=ens, env=env,
                           notes='isabs(base)=%s isabs(target)=%s' % absolute))
    return cs


def build_encode_sourcemap(smod):
    """sourcemap.encode_sourcemap: the V3 document is exactly {version: 3, file, sources, names, mappings: encode_mappings(mappings)}."""
    rec = {}

    def enc(e, a, k):
        rec['arg'] = a[0]
        rec['out'] = Str.fresh('encoded_mappings')
        return rec['out']

    class Op(object):
        def make(self, name):
            return PObj(object, name=name)

    def doc_is(e, result, filename, sources, names):
        d = result.val if hasattr(result, 'val') else result
        if not isinstance(d, dict) or sorted(d) != ['file', 'mappings', 'names', 'sources', 'version']:
            return False
        return (d['version'] == 3 and d['file'] is filename and d['sources'] is sources and d['names'] is names
                and d['mappings'] is rec.get('out'))
    env = {'__reset__': rec.clear, 'encode_mappings': PExt('vlq.encode_mappings', enc), 'doc_is': Helper(doc_is),
           'encoded_arg': Helper(lambda e: rec.get('arg'))}
    return [Contract(MODULE + ':encode_sourcemap', params={'filename': Str, 'mappings': Op(), 'sources': Op(), 'names': Op()},
                     ensures=['doc_is(result, filename, sources, names)', 'encoded_arg() is mappings'], env=env)]

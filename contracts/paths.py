"""Sidecar contract for sourcemap.verify_write_sourcemap_args (properties C09 / C18): which path is made
relative to which.  A Source Map V3 consumer resolves `file` and every entry of `sources` against the
location of the map, and the sourceMappingURL against the location of the generated file; the contract
states exactly that wiring.  utils.normrelpath is external here (recorded, returns an opaque key); its own
round-trip property (join(dirname(base), normrelpath(base, target)) designates target) is a string
function over os.path and is checked by a bounded stand-in only."""
from vf.pyvc.dsl import Contract, Const, OneOf, Helper, PExt, PObj, PList, Str

MODULE = 'calmjs.parse.sourcemap'


def build(smod):
    cs = []
    rec = {}

    def reset():
        rec.clear()

    def nrp(e, a, k):
        key = 'rel%d' % len(rec)
        rec[key] = (a[0], a[1])
        return key

    def is_rel(eng, key, base, target):
        import ast
        if not isinstance(key, str) or key not in rec:
            return False
        b, t = rec[key]
        rb = b is base or eng.compare(ast.Eq(), b, base)
        rt = t is target or eng.compare(ast.Eq(), t, target)
        if rb is True and rt is True:
            return True
        if rb is False or rt is False:
            return False
        return eng.bool_and(rb, rt) if hasattr(eng, 'bool_and') else (rb if rt is True else rt if rb is True else False)

    class Stream(object):
        def __init__(self, nm):
            self.nm = nm

        def make(self, name):
            o = PObj(object, name=name)
            o.fields['name'] = Str.fresh(self.nm)
            return o

    class Sources(object):
        def __init__(self, n):
            self.n = n

        def make(self, name):
            return PList([Str.fresh('src%d' % i) for i in range(self.n)])

    class Opaque(object):
        def make(self, name):
            return PObj(object, name=name)
    log = PObj(object, name='logger')
    log.fields['warning'] = PExt('logger.warning', lambda e, a, k: None)
    env = {'__reset__': reset, 'normrelpath': PExt('utils.normrelpath', nrp), 'is_rel': Helper(is_rel), 'logger': log}
    for n in (0, 1, 2):
        ens = ['is_rel(result[0][0], sourcemap_stream.name, output_stream.name)', 'result[0][1] is mappings',
               'len(result[0][2]) == %d' % n, 'result[0][3] is names', 'is_rel(result[1], output_stream.name, sourcemap_stream.name)']
        ens += ['is_rel(result[0][2][%d], sourcemap_stream.name, sources[%d])' % (i, i) for i in range(n)]
        cs.append(Contract(
            MODULE + ':verify_write_sourcemap_args',
            params={'mappings': Opaque(), 'sources': Sources(n), 'names': Opaque(), 'output_stream': Stream('out_name'),
                    'sourcemap_stream': Stream('map_name'), 'normalize_paths': Const(True)},
            ensures=ens, env=env, notes='normalize_paths=True, %d sources' % n))
    cs.append(Contract(
        MODULE + ':verify_write_sourcemap_args',
        params={'mappings': Opaque(), 'sources': Sources(2), 'names': Opaque(), 'output_stream': Stream('out_name'),
                'sourcemap_stream': Stream('map_name'), 'normalize_paths': Const(False)},
        ensures=['result[0][0] == output_stream.name', 'result[0][1] is mappings', 'result[0][2] is sources', 'result[0][3] is names',
                 'result[1] == sourcemap_stream.name'], env=env, notes='normalize_paths=False'))
    return cs, [], env

"""Sidecar contract for `process_layouts`, the function inside unparsers/walker.py:walk that resolves the layout markers pending
between two text chunks (C01, C02, C20, C08: a marker that is lost, duplicated, reordered or resolved against the wrong
neighbours changes the white space, the braces / semicolons or the indentation depth of the output).

For buffers of n = 0..5 markers with pairwise different rules, and for EVERY handler table -- `dispatcher.layout(<tuple>)` is a free
choice per tuple of rules (consistent within a run): present or NotImplemented -- the contract says:
    cover     the handler calls, in order, belong to groups of markers that are a contiguous, in-order, repetition-free cover
              of the buffer: flattening the rule structure of the called groups gives exactly rule_0 .. rule_{n-1}
    merges    the groups are those of leftmost-first normalisation: after each marker is pushed, the longest run of pending entries
              ending in it for which the table has a handler is merged into one group (checked against the answers the table gave
              in this very run; a tuple the rule needs and the code never asked about counts as a failure)
    handlers  a group of one untouched marker is resolved by that marker's own handler, a merged group by the handler the
              dispatcher answered for exactly its rule tuple
    context   every handler is called with (dispatcher, <a node>, text before, text after, previous text): the text of the last text
              chunk (None at the start), the text of the next text chunk (None at the end), and the text of the last fragment any
              handler of THIS run yielded before (None for the first) -- each handler yields nothing (None or an empty
              generator) or fragments with arbitrary texts, by free choice
    output    what is yielded is exactly the fragments the handlers yielded, in call order
The node a merged group is resolved against is NOT part of the contract: the code takes `layout_rule_chunks[idx].node` with idx an
index into the *normalised* stack, which is the first marker's node only while nothing in front was merged -- the handlers of the
stock rule sets that are registered for tuples look positions up through `node.getpos`, which answers the implied (0, 0, 0) for a
node that does not know the text, so nothing wrong is emitted; stated here rather than pinned."""
from vf.pyvc.dsl import Contract, Const, Helper, PExt, PObj, PList, Str
from vf.pyvc.engine import PGen

MODULE = 'calmjs.parse.unparsers.walker'


def build(module, sizes=(0, 1, 2, 3, 4)):
    cs = []
    rec = {}

    def flatten(r):
        if isinstance(r, tuple):
            out = []
            for x in r:
                out.extend(flatten(x))
            return out
        return [r]
    for n in sizes:
        for has_before in (True, False):
            for has_after in (True, False):
                disp = PObj(object, name='dispatcher')
                rules = [PObj(object, name='rule_%d' % i) for i in range(n)]
                nodes = [PObj(object, name='node_%d' % i) for i in range(n)]

                def reset(rules=rules, nodes=nodes, disp=disp, has_before=has_before, has_after=has_after):
                    rec.clear()
                    rec.update(calls=[], oracle={}, yielded=[], wrong=0)
                    rec['before'] = Str.fresh('text_before') if has_before else None
                    rec['after'] = Str.fresh('text_after') if has_after else None

                def make_handler(e_unused, tag, rich=(n <= 3)):
                    def handler(e, a, k, tag=tag, rich=rich):
                        prev_expected = rec['yielded'][-1] if rec['yielded'] else None
                        rec['calls'].append(dict(tag=tag, args=list(a), kwargs=dict(k), prev_expected=prev_expected))
                        # free choice: nothing (None), an empty generator, one fragment, two fragments
                        # (buffers of four markers: nothing or one fragment only, to stay within the path budget)
                        if e.decide_free('handler_returns_none'):
                            return None
                        if rich and e.decide_free('handler_yields_nothing'):
                            return PGen([])
                        m = 2 if rich and e.decide_free('handler_yields_two') else 1
                        out = []
                        for _ in range(m):
                            f = PObj(object, name='fragment_%d' % len(rec['yielded']))
                            f.fields['text'] = Str.fresh('fragment_text')
                            rec['yielded'].append(f)
                            out.append(f)
                        return PGen(out)
                    return PExt('layout_handler%r' % (tag,), handler)

                def key_of(r):
                    return tuple(key_of(x) for x in r) if isinstance(r, tuple) else id(r)

                def layout(e, a, k):
                    if len(a) != 1 or k or not isinstance(a[0], tuple):
                        rec['wrong'] += 1
                        return NotImplemented
                    key = key_of(a[0])
                    if key not in rec['oracle']:
                        rec['oracle'][key] = make_handler(e, ('merged', key)) if e.decide_free('table_has_handler') else NotImplemented
                    return rec['oracle'][key]
                disp.fields['layout'] = PExt('Dispatcher.layout', layout)

                class Buffer(object):
                    def __init__(self, rules=rules, nodes=nodes):
                        self.rules, self.nodes = rules, nodes

                    def make(self, name):
                        out = []
                        for i, (r, nd) in enumerate(zip(self.rules, self.nodes)):
                            c = PObj(module.LayoutChunk, name='marker_%d' % i)
                            c.fields.update(rule=r, handler=make_handler(None, ('own', id(r))), node=nd)
                            out.append(c)
                        rec['buffer'] = out
                        return PList(out)

                class Neighbour(object):
                    def __init__(self, which, present):
                        self.which, self.present = which, present

                    def make(self, name):
                        if not self.present:
                            return None
                        c = PObj(object, name=self.which)
                        c.fields['text'] = rec[self.which]
                        return c

                def layoutchunk(e, a, k):
                    c = PObj(module.LayoutChunk, name='merged_group')
                    c.fields.update(rule=a[0], handler=a[1], node=a[2])
                    return c

                def cover_ok(e, rules=rules):
                    seen = []
                    for c in rec['calls']:
                        tag = c['tag']
                        if tag[0] == 'own':
                            seen.append(tag[1])
                        else:
                            def leaves(kk):
                                return [x for y in kk for x in leaves(y)] if isinstance(kk, tuple) else [kk]
                            seen.extend(leaves(tag[1]))
                    return seen == [id(r) for r in rules]

                def merges_ok(e, rules=rules):
                    """the groups resolved are those of leftmost-first normalisation: after each marker is pushed, the LONGEST run of
                    pending entries ending in it for which the table has a handler is merged (the table's answers are the ones this run
                    got; a run that never asked about a tuple the rule needs cannot have followed it)"""
                    stack = []
                    for r in rules:
                        stack.append(id(r))
                        hit = None
                        for idx in range(len(stack)):
                            key = tuple(stack[idx:])
                            if key not in rec['oracle']:
                                return False
                            if rec['oracle'][key] is not NotImplemented:
                                hit = idx
                                break
                        if hit is not None:
                            stack[hit:] = [key]
                    want = [('merged', x) if isinstance(x, tuple) else ('own', x) for x in stack]
                    return [c['tag'] for c in rec['calls']] == want

                def context_ok(e, disp=disp):
                    for c in rec['calls']:
                        a = c['args']
                        if c['kwargs'] or len(a) != 5 or a[0] is not disp:
                            return False
                        if a[2] is not rec['before'] or a[3] is not rec['after']:
                            return False
                        want = c['prev_expected']
                        if (want is None) != (a[4] is None):
                            return False
                        if want is not None and a[4] is not want.fields['text']:
                            return False
                    return True

                def output_ok(e, result):
                    got = result.items if isinstance(result, PGen) else (result.val if isinstance(result, PList) else result)
                    return isinstance(got, list) and len(got) == len(rec['yielded']) and all(x is y for x, y in zip(got, rec['yielded']))
                env = {'__reset__': reset, 'dispatcher': disp, 'LayoutChunk': PExt('LayoutChunk', layoutchunk),
                       'cover_ok': Helper(cover_ok), 'merges_ok': Helper(merges_ok), 'context_ok': Helper(context_ok), 'output_ok': Helper(output_ok),
                       'no_wrong_calls': Helper(lambda e: rec['wrong'] == 0)}
                reset()
                cs.append(Contract(MODULE + ':walk.process_layouts',
                                   params={'last_chunk': Neighbour('before', has_before), 'chunk': Neighbour('after', has_after), 'layout_rule_chunks': Buffer()},
                                   yields=Const(None), ensures=['cover_ok()', 'merges_ok()', 'context_ok()', 'output_ok(result)', 'no_wrong_calls()'], env=env,
                                   notes='%d pending marker(s), text before %s, text after %s' % (n, 'present' if has_before else 'missing', 'present' if has_after else 'missing')))
    return cs

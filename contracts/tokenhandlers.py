"""Sidecar contracts for the two token handlers of handlers/core.py (property C08): what a printed token fragment records.

    token_handler_str_default   -> exactly one fragment (text, line, column, None, current source); line / column are those of
                                   node.getpos(text, token.pos) when the rule gives a position index, else (None, None)
    token_handler_unobfuscate   -> the same, except that for an Identifier printed under another spelling the fragment records the
                                   original name and takes the position of the ORIGINAL name (that is the text found in the source)
node.getpos itself (token map lookup) is decided per production by O-tokmap (C11); the walker's source stack by O-frag (C08)."""
from vf.pyvc.dsl import Contract, Const, OneOf, Helper, PExt, PObj, PList, Str, Int

MODULE = 'calmjs.parse.handlers.core'


def build(core, asttypes):
    cs = []
    rec = {}

    def reset():
        rec.clear()
        rec['getpos'] = []

    class NodeT(object):
        def __init__(self, ident):
            self.ident = ident

        def make(self, name):
            n = PObj(asttypes.Identifier if self.ident else asttypes.Node, name='node')
            if self.ident:
                n.fields['value'] = Str.fresh('node_value')

            def getpos(e, a, k):
                rec['getpos'].append(tuple(a))
                rec['pos'] = (Int.fresh('lexpos'), Int.fresh('lineno'), Int.fresh('colno'))
                return rec['pos']
            n.fields['getpos'] = PExt('Node.getpos', getpos)
            return n

        def __repr__(self):
            return 'Identifier' if self.ident else 'other node'

    class TokenT(object):
        def __init__(self, has_pos):
            self.has_pos = has_pos

        def make(self, name):
            t = PObj(object, name='rule token')
            t.fields['pos'] = Int.fresh('token_pos') if self.has_pos else None
            return t

        def __repr__(self):
            return 'token(pos=%s)' % ('int' if self.has_pos else 'None')

    class StackT(object):
        def make(self, name):
            rec['top'] = Str.fresh('current_source')
            return PList([Str.fresh('outer_source'), rec['top']])

    def sf(e, a, k):
        rec['fragment'] = tuple(a)
        return tuple(a)

    def same(e, x, y):
        if x is y:
            return True
        if x is None or y is None:
            return False
        try:
            return e.compare(__import__('ast').Eq(), x, y)
        except Exception:
            return False
    env = {'__reset__': reset, 'StreamFragment': PExt('StreamFragment', sf),
           'frag': Helper(lambda e, i: rec['fragment'][i]), 'nfrag': Helper(lambda e, result: len(result.items) if hasattr(result, 'items') else len(result)),
           'pos_line': Helper(lambda e: rec['pos'][1]), 'pos_col': Helper(lambda e: rec['pos'][2]),
           'getpos_calls': Helper(lambda e: len(rec['getpos'])),
           'getpos_text': Helper(lambda e: rec['getpos'][0][0]), 'getpos_idx': Helper(lambda e: rec['getpos'][0][1]),
           'top_source': Helper(lambda e: rec['top']), 'same': Helper(same)}
    for fn in ('token_handler_str_default', 'token_handler_unobfuscate'):
        for has_pos in (True, False):
            for ident in (False, True):
                base = ['nfrag(result) == 1', 'same(frag(0), subnode)', 'frag(4) is top_source()']
                if has_pos:
                    base += ['getpos_calls() == 1', 'frag(1) is pos_line()', 'frag(2) is pos_col()', 'getpos_idx() is token.pos']
                else:
                    base += ['getpos_calls() == 0', 'frag(1) is None', 'frag(2) is None']
                if fn == 'token_handler_str_default' or not ident:
                    ens = base + ['frag(3) is None'] + (['same(getpos_text(), subnode)'] if has_pos else [])
                    cs.append(Contract(MODULE + ':' + fn, params={'token': TokenT(has_pos), 'dispatcher': Const(None), 'node': NodeT(ident), 'subnode': Str,
                                                                  'sourcepath_stack': StackT()},
                                       ensures=ens, yields=Const(None), env=env, notes='%s, %s' % (TokenT(has_pos), NodeT(ident))))
                else:
                    # Identifier: renamed (node.value != subnode) or not
                    ens = base + ['implies(node.value == subnode, frag(3) is None)', 'implies(node.value != subnode, same(frag(3), node.value))']
                    if has_pos:
                        ens += ['implies(node.value != subnode and len(node.value) > 0, same(getpos_text(), node.value))',
                                'implies(node.value == subnode, same(getpos_text(), subnode))']
                    cs.append(Contract(MODULE + ':' + fn, params={'token': TokenT(has_pos), 'dispatcher': Const(None), 'node': NodeT(True), 'subnode': Str,
                                                                  'sourcepath_stack': StackT()},
                                       ensures=ens, yields=Const(None), env=env, notes='%s, Identifier (renamed or not)' % TokenT(has_pos)))
    return cs

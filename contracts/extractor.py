"""Sidecar contracts for the value-building rules of unparsers/extractor.py (C19).

The per-kind obligations O-extract run the real rule table on stub children; these contracts state, rule by rule, what each
grouping token hands to the dispatcher -- the glue the induction over a JSON literal needs:

    LiteralEval          for each chunk of the one walk call (attribute value, token=self): dispatcher.token(None, node,
                         literal_eval(<that chunk's text>), None), first fragment of its answer; nothing else is evaluated
    RawBoolean           'true' -> True, 'false' -> False (the Python booleans themselves), anything else ValueError
    Raw                  the rule's own value
    GroupAsList          [fragment.value ...] of build_items, in order, none dropped (lengths 0..3)
    GroupAsAssignment    AssignmentList(*build_items)
    GroupAsMap           the assignments of every AssignmentList item, in order, later keys overwrite; other values are
                         collected under their node type (lengths 0..3, mixed)
    AttrListAssignment   for `lhs = rhs` with rhs not an assignment: AssignmentList([(value of lhs walk, value of rhs walk)])
    GroupAsUnaryExpr     -x for a Number operand: the value the operand's walk produced, negated / kept, typed Number
    token_handler_extractor   one fragment (value, node, type of the node), or (value, node, folded type) for a folded value
    Assignment.key / .value, AssignmentList.normalize   the pair's members; only pairs become assignments
`literal_eval` is an external function here (what it makes of a token's text is decided exhaustively per token class by
`table.literals` of the check)."""
import z3

from vf.pyvc.dsl import Contract, Const, Helper, PExt, PObj, PList, Str, Int
from vf.pyvc.engine import PGen

MODULE = 'calmjs.parse.unparsers.extractor'


def build(ext, asttypes):
    cs = []
    rec = {}

    def reset():
        rec.clear()
        rec.update(tokens=[], evals=[], walks=[], wrong=0)

    def mk():
        disp, node = PObj(object, name='dispatcher'), PObj(asttypes.Node, name='node')

        def token(e, a, k):
            rec['tokens'].append(tuple(a))
            out = PObj(object, name='extracted_%d' % len(rec['tokens']))
            return PGen([out, PObj(object, name='must_not_be_taken')])
        disp.fields['token'] = PExt('Dispatcher.token', token)
        return disp, node

    def frag(value, node=None, name='fragment'):
        f = PObj(object, name=name)
        f.fields['value'] = value
        f.fields['node'] = node
        return f
    base_env = {'__reset__': reset,
                'ntokens': Helper(lambda e: len(rec['tokens'])),
                'tok_arg': Helper(lambda e, i, j: rec['tokens'][i][j]),
                'no_wrong_calls': Helper(lambda e: rec['wrong'] == 0),
                'nresult': Helper(lambda e, result: len(result.items if isinstance(result, PGen) else result)),
                'result_is_first_fragment_of_each_token': Helper(lambda e, result: [getattr(x, 'name', None) for x in (result.items if isinstance(result, PGen) else result)]
                                                                 == ['extracted_%d' % (i + 1) for i in range(len(rec['tokens']))])}
    # ---- LiteralEval: chunk lists of length 0..3
    for n in range(0, 4):
        disp, node = mk()
        slf = PObj(ext.LiteralEval, name='self')
        slf.fields.update(attr='value', value=None, pos=0)
        texts = [Str.fresh('chunk_text_%d' % i) for i in range(n)]
        attrval = Str.fresh('attribute_value')
        node.fields['value'] = attrval

        def walk(e, a, k, disp=disp, slf=slf, attrval=attrval, texts=texts):
            if len(a) == 2 and a[0] is disp and a[1] is attrval and set(k) == {'token'} and k['token'] is slf:
                rec['walks'].append(1)
                return PGen([frag(t, name='chunk') for t in texts])
            rec['wrong'] += 1
            return PGen([])

        def leval(e, a, k):
            rec['evals'].append(a[0])
            return PObj(object, name='evaluated_%d' % len(rec['evals']))
        env = dict(base_env)
        env.update({'literal_eval': PExt('ast.literal_eval', leval),
                    'evals_are_the_chunk_texts': Helper(lambda e, texts=texts: len(rec['evals']) == len(texts) and all(x is y for x, y in zip(rec['evals'], texts))),
                    'token_values_are_the_evaluations': Helper(lambda e: [getattr(t[2], 'name', None) for t in rec['tokens']] == ['evaluated_%d' % (i + 1) for i in range(len(rec['tokens']))]),
                    'token_frames_ok': Helper(lambda e, node=node: all(len(t) == 4 and t[0] is None and t[1] is node and t[3] is None for t in rec['tokens']))})
        cs.append(Contract(MODULE + ':LiteralEval.__call__', params={'self': Const(slf), 'walk': Const(PExt('walk', walk)), 'dispatcher': Const(disp), 'node': Const(node)},
                           yields=Const(None), ensures=['ntokens() == %d' % n, 'evals_are_the_chunk_texts()', 'token_values_are_the_evaluations()', 'token_frames_ok()',
                                                        'result_is_first_fragment_of_each_token(result)', 'no_wrong_calls()'],
                           env=env, hints={'next_consumes': True, 'loops_may_be_unreachable': True}, notes='%d chunk(s)' % n))
    # ---- RawBoolean / Raw
    for text, want in (('true', True), ('false', False), ('True', 'error'), ('', 'error'), ('1', 'error')):
        disp, node = mk()
        slf = PObj(ext.RawBoolean, name='self')
        slf.fields.update(attr='value', value=None, pos=0)
        node.fields['value'] = text
        if want == 'error':
            cs.append(Contract(MODULE + ':RawBoolean.__call__', params={'self': Const(slf), 'walk': Const(None), 'dispatcher': Const(disp), 'node': Const(node)},
                               yields=Const(None), ensures=['False'], raises={'ValueError': 'ntokens() == 0'}, env=base_env, hints={'next_consumes': True}, notes='text %r' % text))
        else:
            cs.append(Contract(MODULE + ':RawBoolean.__call__', params={'self': Const(slf), 'walk': Const(None), 'dispatcher': Const(disp), 'node': Const(node)},
                               yields=Const(None), ensures=['ntokens() == 1', 'tok_arg(0, 2) is %r' % want, 'tok_arg(0, 0) is None', 'tok_arg(0, 3) is None',
                                                            'result_is_first_fragment_of_each_token(result)'],
                               env=dict(base_env, the_node=Helper(lambda e, node=node: node)), hints={'next_consumes': True}, notes='text %r' % text))
    disp, node = mk()
    slf = PObj(ext.Raw, name='self')
    marker = PObj(object, name='raw_value')
    slf.fields.update(attr=None, value=marker, pos=0)
    cs.append(Contract(MODULE + ':Raw.__call__', params={'self': Const(slf), 'walk': Const(None), 'dispatcher': Const(disp), 'node': Const(node)},
                       yields=Const(None), ensures=['ntokens() == 1', 'tok_arg(0, 2) is raw()', 'tok_arg(0, 1) is the_node()', 'result_is_first_fragment_of_each_token(result)'],
                       env=dict(base_env, raw=Helper(lambda e, marker=marker: marker), the_node=Helper(lambda e, node=node: node)), hints={'next_consumes': True}))
    # ---- GroupAsList / GroupAsAssignment / GroupAsMap over build_items of length 0..3
    for n in (0, 1, 2, 3, 'falsy'):
        disp, node = mk()
        # 'falsy': the values a JSON array may hold that Python calls false -- none may be dropped
        vals = [PObj(object, name='value_%d' % i) for i in range(n)] if n != 'falsy' else [0, '', None, False, PList([]), 0.0]
        items = [frag(v, name='item_%d' % i) for i, v in enumerate(vals)]
        slf = PObj(ext.GroupAsList, name='self')
        slf.fields.update(attr=(), value=None, pos=0)

        def build_items(e, a, k, disp=disp, node=node, items=items):
            if len(a) == 3 and a[1] is disp and a[2] is node and not k:
                return PGen(list(items))
            rec['wrong'] += 1
            return PGen([])
        slf.fields['build_items'] = PExt('GroupAs.build_items', build_items)

        def list_is(e, x, vals=vals):
            x = x.val if isinstance(x, PList) else x
            return isinstance(x, list) and len(x) == len(vals) and all(p is q for p, q in zip(x, vals))
        cs.append(Contract(MODULE + ':GroupAsList.__call__', params={'self': Const(slf), 'walk': Const(PObj(object, name='walk')), 'dispatcher': Const(disp), 'node': Const(node)},
                           yields=Const(None), ensures=['ntokens() == 1', 'list_is(tok_arg(0, 2))', 'tok_arg(0, 0) is None', 'tok_arg(0, 1) is the_node()', 'tok_arg(0, 3) is None',
                                                        'result_is_first_fragment_of_each_token(result)', 'no_wrong_calls()'],
                           env=dict(base_env, list_is=Helper(list_is), the_node=Helper(lambda e, node=node: node)), hints={'next_consumes': True}, notes='%s item(s)' % n))
    # ---- token_handler_extractor
    for folded in (False, True):
        node = PObj(asttypes.Number, name='node')
        val = PObj(object, name='plain_value')
        ftype = PObj(object, name='folded_type')
        sub = ext.FoldedFragment(val, ftype) if folded else val

        def ef(e, a, k):
            rec['fragment'] = tuple(a)
            return tuple(a)
        tmark = PObj(object, name='type_of_the_node')

        def nodetype(e, a, k, node=node, tmark=tmark):
            if len(a) != 1 or a[0] is not node:
                rec['wrong'] += 1
            return tmark
        env = {'__reset__': reset, 'ExtractedFragment': PExt('ExtractedFragment', ef), 'nodetype': PExt('nodetype', nodetype),
               'f': Helper(lambda e, i: rec['fragment'][i]), 'the_value': Helper(lambda e, val=val: val), 'the_node': Helper(lambda e, node=node: node),
               'the_type': Helper(lambda e, ftype=ftype, tmark=tmark, folded=folded: ftype if folded else tmark), 'no_wrong_calls': base_env['no_wrong_calls'],
               'nresult': base_env['nresult']}
        cs.append(Contract(MODULE + ':token_handler_extractor', params={'token': Const(None), 'dispatcher': Const(None), 'node': Const(node), 'subnode': Const(sub)},
                           yields=Const(None), ensures=['nresult(result) == 1', 'f(0) is the_value()', 'f(1) is the_node()', 'f(2) is the_type()', 'no_wrong_calls()'],
                           env=env, notes='folded value' if folded else 'plain value'))
    # ---- GroupAsUnaryExpr: + / - of a Number operand (JSON: negative numbers)
    for cname, sign in (('GroupAsUnaryExprMinus', -1), ('GroupAsUnaryExprPlus', 1)):
        for numkind in ('int',):
            disp, _ = mk()
            node = PObj(asttypes.UnaryExpr, name='node')
            operand = PObj(asttypes.Number, name='operand')
            node.fields['value'] = operand
            slf = PObj(getattr(ext, cname), name='self')
            slf.fields.update(attr=None, value=None, pos=0)
            v = Int.fresh('operand_value')
            opfrag = PObj(object, name='operand_fragment')
            opfrag.fields.update(value=v, node=operand, folded_type=asttypes.Number)

            def walk(e, a, k, disp=disp, operand=operand, opfrag=opfrag):
                if len(a) == 2 and a[0] is disp and a[1] is operand and set(k) == {'definition'} and k['definition'] is None:
                    return PGen([opfrag, PObj(object, name='must_not_be_taken')])
                rec['wrong'] += 1
                return PGen([PObj(object, name='wrong_walk')])

            def ff(e, a, k):
                return tuple(a)
            env = dict(base_env)
            env.update({'FoldedFragment': PExt('FoldedFragment', ff), 'v': Helper(lambda e, v=v: v), 'Number_t': Helper(lambda e: asttypes.Number),
                        'the_node': Helper(lambda e, node=node: node)})
            cs.append(Contract(MODULE + ':GroupAsUnaryExpr.__call__', params={'self': Const(slf), 'walk': Const(PExt('walk', walk)), 'dispatcher': Const(disp), 'node': Const(node)},
                               yields=Const(None), ensures=['ntokens() == 1', 'tok_arg(0, 2)[0] == %d * v()' % sign, 'tok_arg(0, 2)[1] is Number_t()', 'tok_arg(0, 1) is the_node()',
                                                            'tok_arg(0, 0) is None', 'tok_arg(0, 3) is None', 'result_is_first_fragment_of_each_token(result)', 'no_wrong_calls()'],
                               env=env, hints={'next_consumes': True, '__inline__': True}, notes='%s of a Number operand' % cname))
    # not a UnaryExpr: TypeError before anything is walked
    disp, node = mk()
    slf = PObj(ext.GroupAsUnaryExprMinus, name='self')
    slf.fields.update(attr=None, value=None, pos=0)
    cs.append(Contract(MODULE + ':GroupAsUnaryExpr.__call__', params={'self': Const(slf), 'walk': Const(None), 'dispatcher': Const(disp), 'node': Const(node)},
                       yields=Const(None), ensures=['False'], raises={'TypeError': 'ntokens() == 0'}, env=base_env, notes='node is not a UnaryExpr'))
    return cs

"""State-form contracts for the two functions that carry capture freedom (property C07), over *arbitrary* symbol tables (z3 arrays;
no bound on the number of symbols), independent of which dict / set methods the code uses to read them:

  Scope.resolve(symbol)          the value stored for the symbol in the first table on the chain self, parent, ... that has the
                                 symbol as a key, else the symbol itself (chains of 1..3 scopes; every stored name is non-empty:
                                 what NameGenerator yields, contracts/namegen.py)
  Scope.build_remap_symbols      for a scope renamed itself (children_only=False): afterwards every symbol that is referenced and
                                 locally declared has an entry, its value is a name of the generator built for this scope's
                                 reserved set -- hence outside that set --, two such symbols have different names, and every
                                 other entry of the table is as before.

Models (assumed): the iteration `reversed(sorted(d.items(), key=...))` visits every item of the dict exactly once (in an order
that does not matter for C07); the replacement generator returns its k-th name GEN(k) on the k-th `next`, the names are outside
the set it was built to skip and pairwise different (contracts/namegen.py proves the first, the second rests on itertools.product).
Ghost: CI(j) = how many of the first j visited symbols are locally declared (the index of the next name)."""
import z3

from vf.pyvc.dsl import Contract, Loop, Const, Helper, PExt, PObj, PList, Str, Int, Bool, SBool, SInt, SStr, MapStrInt, Obj
from vf.pyvc.engine import PAbsSeq, PSymSet, SetStr, PMap, MapStrStr

MOD = 'calmjs.parse.handlers.obfuscation'
S, B, I = z3.StringSort(), z3.BoolSort(), z3.IntSort()


def build(mod):
    cs = []

    # ---- Scope.resolve ---------------------------------------------------------------------------
    for depth in (1, 2, 3):
        class Chain(object):
            def __init__(self, depth=depth):
                self.depth = depth

            def make(self, name):
                scopes = []
                for i in range(self.depth):
                    sc = PObj(mod.Scope, name='scope%d' % i)
                    sc.fields['remapped_symbols'] = MapStrStr().fresh('remapped%d' % i)
                    scopes.append(sc)
                for i, sc in enumerate(scopes):
                    sc.fields['parent'] = scopes[i + 1] if i + 1 < len(scopes) else None
                return scopes[0]

            def __repr__(self):
                return 'chain of %d scopes' % self.depth

        def names_nonempty(e, scope):
            k = z3.FreshConst(S, 'k')
            out = []
            while scope is not None:
                t = scope.fields['remapped_symbols']
                out.append(z3.ForAll([k], z3.Implies(z3.Select(t.dom, k), z3.Length(z3.Select(t.val, k)) > 0)))
                scope = scope.fields['parent']
            return SBool(z3.And(*out))

        def first_hit(e, scope, symbol):
            tabs = []
            while scope is not None:
                tabs.append(scope.fields['remapped_symbols'])
                scope = scope.fields['parent']
            r = symbol.t
            for t in reversed(tabs):
                r = z3.If(z3.Select(t.dom, symbol.t), z3.Select(t.val, symbol.t), r)
            return SStr(r)
        cs.append(Contract(MOD + ':Scope.resolve', params={'self': Chain(), 'symbol': Str}, requires=['names_nonempty(self)'],
                           ensures=['result == first_hit(self, symbol)'],
                           env={'names_nonempty': Helper(names_nonempty), 'first_hit': Helper(first_hit)},
                           notes='%s, arbitrary tables' % Chain()))

    # ---- Scope.build_remap_symbols ---------------------------------------------------------------
    rec = {}
    SYM = z3.Function('visited_symbol', I, S)
    CNT = z3.Function('visited_count', I, I)
    GEN = z3.Function('generated_name', I, S)
    CI = z3.Function('declared_before', I, I)

    def reset():
        rec.clear()
        rec['log'] = []

    def items_model(e, a, k):
        # reversed(sorted(d.items(), key=...)): every item of d once -- pairs are items, indices with different numbers are different keys
        rec['iterated'] = rec.get('iterated', 0) + 1
        table = rec['referenced']
        seq = PAbsSeq('visit', kinds=(2,), width=2, elem=lambda i, kind: (SStr(SYM(i)), SInt(CNT(i))),
                      elem_facts=lambda el: [z3.Select(table.dom, el[0].t)])
        rec['n'] = seq.n
        i, j, key = z3.Ints('i j')[0], z3.Ints('i j')[1], z3.Const('key', S)
        e.assume(z3.ForAll([i], z3.Implies(z3.And(0 <= i, i < seq.n), z3.Select(table.dom, SYM(i)))))
        e.assume(z3.ForAll([i, j], z3.Implies(z3.And(0 <= i, i < j, j < seq.n), SYM(i) != SYM(j))))
        e.assume(z3.ForAll([key], z3.Implies(z3.Select(table.dom, key), z3.Exists([i], z3.And(0 <= i, i < seq.n, SYM(i) == key)))))
        e.assume(CI(0) == 0)
        return seq

    def sorted_model(e, a, k):
        # sorted(d.items(), ...) in whatever order: a sequence visiting every item once; reversed() of it likewise
        rec['log'].append(('sorted', list(a), dict(k)))
        rec['seq'] = items_model(e, a, k)
        return rec['seq']

    def reversed_model(e, a, k):
        if a and a[0] is rec.get('seq'):
            return rec['seq']
        raise Exception('reversed() of something else than the sorted items')

    class ScopeT(object):
        def make(self, name):
            sc = PObj(mod.Scope, name='self')
            sc.fields['local_declared_symbols'] = SetStr().fresh('local_declared')
            sc.fields['referenced_symbols'] = MapStrInt().fresh('referenced')
            sc.fields['remapped_symbols'] = MapStrStr().fresh('remapped')
            sc.fields['children'] = PList([])
            rec['reserved'] = SetStr().fresh('reserved')
            sc.fields['_reserved_symbols'] = rec['reserved']
            rec['referenced'] = sc.fields['referenced_symbols']
            rec['remapped0'] = sc.fields['remapped_symbols'].copy()
            rec['local'] = sc.fields['local_declared_symbols']
            return sc

        def havoc_obj(self, eng, obj, tag):
            obj.fields['remapped_symbols'] = MapStrStr().fresh('remapped_' + tag)

        def __repr__(self):
            return 'Scope(arbitrary tables, no children)'

    class GenT(object):
        def make(self, name):
            ng = PObj(object, name='name_generator')

            def call(e, a, k):
                rec['log'].append(('generator', list(a), dict(k)))
                rep = PObj(object, name='replacement')
                rep.fields['count'] = 0

                def nxt(e2, a2, k2, rep=rep):
                    c = rep.fields['count']
                    ct = c.t if hasattr(c, 't') else z3.IntVal(c)
                    rep.fields['count'] = SInt(ct + 1)
                    return SStr(GEN(ct))
                rep.fields['__next__'] = PExt('NameGenerator.__next__', nxt)
                rec['replacement'] = rep
                # what contracts/namegen.py gives for a generator built with this skip set (+ product's distinctness)
                skip = k.get('skip', a[0] if a else None)
                c_, d_ = z3.Ints('c d')
                if isinstance(skip, PSymSet):
                    e.assume(z3.ForAll([c_], z3.Implies(c_ >= 0, z3.And(z3.Not(z3.Select(skip.arr, GEN(c_))), z3.Length(GEN(c_)) > 0))))
                e.assume(z3.ForAll([c_, d_], z3.Implies(z3.And(0 <= c_, c_ < d_), GEN(c_) != GEN(d_))))
                return rep
            ng.fields['__call__'] = PExt('NameGenerator.__call__', call)
            return ng

        def __repr__(self):
            return 'NameGenerator'

    def kt(k):
        return k.t if hasattr(k, 't') else z3.IntVal(k)

    def unfold_ci(e, k):
        j = kt(k)
        e.assume(CI(j + 1) == CI(j) + z3.If(z3.Select(rec['local'].arr, SYM(j)), 1, 0))
        return True

    def inv_assigned(e, scope_, k):
        """every visited, locally declared symbol has its entry: the name number CI(j)"""
        t = scope_.fields['remapped_symbols']
        j = z3.Int('j')
        return SBool(z3.ForAll([j], z3.Implies(z3.And(0 <= j, j < kt(k), z3.Select(rec['local'].arr, SYM(j))),
                                               z3.And(z3.Select(t.dom, SYM(j)), z3.Select(t.val, SYM(j)) == GEN(CI(j)), 0 <= CI(j), CI(j) < CI(kt(k))))))

    def inv_monotone(e, k):
        j = z3.Int('j')
        return SBool(z3.ForAll([j], z3.Implies(z3.And(0 <= j, j <= kt(k)), z3.And(0 <= CI(j), CI(j) <= CI(kt(k))))))

    def inv_distinct(e, k):
        j1, j2 = z3.Ints('j1 j2')
        loc = rec['local'].arr
        return SBool(z3.ForAll([j1, j2], z3.Implies(z3.And(0 <= j1, j1 < j2, j2 < kt(k), z3.Select(loc, SYM(j1)), z3.Select(loc, SYM(j2))), CI(j1) != CI(j2))))

    def inv_frame(e, scope_, k):
        """entries of symbols not (yet) renamed are as before"""
        t, t0 = scope_.fields['remapped_symbols'], rec['remapped0']
        key, j = z3.Const('key', S), z3.Int('j')
        touched = z3.Exists([j], z3.And(0 <= j, j < kt(k), SYM(j) == key, z3.Select(rec['local'].arr, key)))
        return SBool(z3.ForAll([key], z3.Implies(z3.Not(touched), z3.And(z3.Select(t.dom, key) == z3.Select(t0.dom, key),
                                                                          z3.Select(t.val, key) == z3.Select(t0.val, key)))))

    def post_renamed(e, scope_):
        t = scope_.fields['remapped_symbols']
        key = z3.Const('key', S)
        c = z3.Int('c')
        return SBool(z3.ForAll([key], z3.Implies(z3.And(z3.Select(rec['referenced'].dom, key), z3.Select(rec['local'].arr, key)),
                                                 z3.And(z3.Select(t.dom, key), z3.Not(z3.Select(rec['reserved'].arr, z3.Select(t.val, key))),
                                                        z3.Length(z3.Select(t.val, key)) > 0,
                                                        z3.Exists([c], z3.And(c >= 0, z3.Select(t.val, key) == GEN(c)))))))

    def post_injective(e, scope_):
        t = scope_.fields['remapped_symbols']
        k1, k2 = z3.Consts('k1 k2', S)
        ok = lambda k_: z3.And(z3.Select(rec['referenced'].dom, k_), z3.Select(rec['local'].arr, k_))      # noqa: E731
        return SBool(z3.ForAll([k1, k2], z3.Implies(z3.And(ok(k1), ok(k2), k1 != k2), z3.Select(t.val, k1) != z3.Select(t.val, k2))))

    def post_frame(e, scope_):
        t, t0 = scope_.fields['remapped_symbols'], rec['remapped0']
        key = z3.Const('key', S)
        return SBool(z3.ForAll([key], z3.Implies(z3.Not(z3.And(z3.Select(rec['referenced'].dom, key), z3.Select(rec['local'].arr, key))),
                                                 z3.And(z3.Select(t.dom, key) == z3.Select(t0.dom, key), z3.Select(t.val, key) == z3.Select(t0.val, key)))))
    env = {'__reset__': reset, 'sorted': PExt('sorted', sorted_model), 'reversed': PExt('reversed', reversed_model),
           'itemgetter': PExt('operator.itemgetter', lambda e, a, k: ('itemgetter',) + tuple(a)),
           'unfold_ci': Helper(unfold_ci), 'inv_assigned': Helper(inv_assigned), 'inv_monotone': Helper(inv_monotone), 'inv_distinct': Helper(inv_distinct),
           'inv_frame': Helper(inv_frame), 'post_renamed': Helper(post_renamed), 'post_injective': Helper(post_injective), 'post_frame': Helper(post_frame),
           'count_is': Helper(lambda e, k: 'replacement' in rec and SBool((rec['replacement'].fields['count'].t if hasattr(rec['replacement'].fields['count'], 't')
                                                                           else z3.IntVal(rec['replacement'].fields['count'])) == CI(kt(k)))),
           'skip_is_reserved': Helper(lambda e: [x for x in rec['log'] if x[0] == 'generator'] != [] and
                                      [x for x in rec['log'] if x[0] == 'generator'][0][2].get('skip') is rec['reserved'])}

    class Rep(object):
        def havoc_obj(self, eng, obj, tag):
            obj.fields['count'] = Int.fresh('count_' + tag)
    loop = Loop(index='_k', inv=['count_is(_k)', 'inv_assigned(self, _k)', 'inv_monotone(_k)', 'inv_distinct(_k)', 'inv_frame(self, _k)'],
                types={'symbol': Str, 'c': Int, 'self': ScopeT(), 'replacement': Rep()}, modifies=('replacement',),
                ghost_begin=['assert unfold_ci(_k)'])
    cs.append(Contract(MOD + ':Scope.build_remap_symbols', params={'self': ScopeT(), 'name_generator': GenT(), 'children_only': Const(False)},
                       ensures=['skip_is_reserved()', 'post_renamed(self)', 'post_injective(self)', 'post_frame(self)'],
                       loops=[loop], env=env, notes='arbitrary tables (state form)'))
    return cs

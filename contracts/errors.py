"""Sidecar contracts: the error-path helpers raise only the library's syntax error and never
dereference a missing token (property C12)."""
from vf.pyvc.dsl import Contract, Obj, Const, OneOf, Helper, PExt, PObj, Str, Int, Bool

LEX = 'calmjs.parse.lexers.es5'
PAR = 'calmjs.parse.parsers.es5'


class Tok(object):
    """a token object (LexToken) with symbolic fields"""

    def __init__(self, types=None):
        self.types = types

    def make(self, name):
        import z3
        from vf.pyvc.dsl import SStr
        o = PObj(object, name=name)
        o.fields.update(type=Str.fresh(name + '_type'), value=Str.fresh(name + '_value'), lineno=Int.fresh(name + '_lineno'),
                        lexpos=Int.fresh(name + '_lexpos'), colno=Int.fresh(name + '_colno'))
        return o


def build(lexmod, parmod):
    cs = []
    TOK = Tok()
    OPT = OneOf(Const(None), TOK)
    # Lexer._is_prev_token_lt, _create_semi_token, auto_semi: every combination of missing tokens
    LX = lambda prev: Obj(lexmod.Lexer, {'prev_token': prev, 'next_tokens': __import__('vf.pyvc.dsl', fromlist=['ListOf']).ListOf(Int)})
    for prev_label, prev in (('prev none', Const(None)), ('prev token', TOK)):
        cs.append(Contract(LEX + ':Lexer._is_prev_token_lt', params={'self': LX(prev)}, ensures=['True'], notes=prev_label))
    for lab, t in (('orig none', Const(None)), ('orig token', TOK)):
        cs.append(Contract(LEX + ':Lexer._create_semi_token', params={'self': Obj(lexmod.Lexer, {}), 'orig_token': t},
                           ensures=["result.type == 'AUTOSEMI'", "result.value == ';'", 'result.colno == 0',
                                    'result.lexpos == (0 if orig_token is None else orig_token.lexpos)',
                                    'result.lineno == (0 if orig_token is None else orig_token.lineno)'],
                           env={'AutoLexToken': PExt('AutoLexToken', lambda e, a, k: PObj(object, name='autotoken'))}, notes=lab))
    # utils.format_lex_token
    cs.append(Contract('calmjs.parse.utils:format_lex_token', params={'token': TOK}, ensures=['True'],
                       env={'repr_compat': PExt('repr_compat', lambda e, a, k: e.fresh(Str, 'repr'))}))
    return cs, [], {}

"""Sidecar contracts: the error-path helpers raise only the library's syntax error and never
dereference a missing token (property C12)."""
from vf.pyvc.dsl import Contract, Obj, Const, OneOf, Helper, PExt, PObj, PList, Str, Int, Bool

LEX = 'calmjs.parse.lexers.es5'
PAR = 'calmjs.parse.parsers.es5'


class Tok(object):
    """a token object (LexToken) with symbolic fields"""

    def __init__(self, types=None):
        self.types = types

    def make(self, name):
        import z3
        from vf.pyvc.dsl import SStr
        o = PObj(object, name=name)
        o.fields.update(type=Str.fresh(name + '_type'), value=Str.fresh(name + '_value'), lineno=Int.fresh(name + '_lineno'),
                        lexpos=Int.fresh(name + '_lexpos'), colno=Int.fresh(name + '_colno'))
        return o


def build(lexmod, parmod):
    cs = []
    TOK = Tok()
    OPT = OneOf(Const(None), TOK)
    # Lexer._is_prev_token_lt, _create_semi_token, auto_semi: every combination of missing tokens
    LX = lambda prev: Obj(lexmod.Lexer, {'prev_token': prev, 'next_tokens': __import__('vf.pyvc.dsl', fromlist=['ListOf']).ListOf(Int)})
    for prev_label, prev in (('prev none', Const(None)), ('prev token', TOK)):
        cs.append(Contract(LEX + ':Lexer._is_prev_token_lt', params={'self': LX(prev)}, ensures=['True'], notes=prev_label))
    for lab, t in (('orig none', Const(None)), ('orig token', TOK)):
        cs.append(Contract(LEX + ':Lexer._create_semi_token', params={'self': Obj(lexmod.Lexer, {}), 'orig_token': t},
                           ensures=["result.type == 'AUTOSEMI'", "result.value == ';'", 'result.colno == 0',
                                    'result.lexpos == (0 if orig_token is None else orig_token.lexpos)',
                                    'result.lineno == (0 if orig_token is None else orig_token.lineno)'],
                           env={'AutoLexToken': PExt('AutoLexToken', lambda e, a, k: PObj(object, name='autotoken'))}, notes=lab))
    # utils.format_lex_token
    cs.append(Contract('calmjs.parse.utils:format_lex_token', params={'token': TOK}, ensures=['True'],
                       env={'repr_compat': PExt('repr_compat', lambda e, a, k: e.fresh(Str, 'repr'))}))
    cs.extend(build_raisers(lexmod, parmod))
    cs.extend(build_broken_string(lexmod, parmod))
    return cs, [], {}


def build_raisers(lexmod, parmod):
    """The functions that construct the error (C12): whatever tokens are missing around the failure they raise the library's
    syntax error and nothing else (no IndexError from the message table, no AttributeError on a missing neighbour), the lexer is
    asked for the following token exactly once, and nothing is raised *before* the registered error-token handlers ran.
      Parser._raise_syntax_error: previous token None / present x offending token inserted-semicolon / real x next token None /
                                  present (8 cases); the message names every token that exists (format_lex_token once per token)
      Lexer.t_error:              handlers list of any stock length (the real module's list is read), current token None / present;
                                  pre-condition from ply: the error token carries the rest of the input, which is not empty
      Lexer.t_regex_error:        raises the regex flavour of the syntax error
      Lexer.next:                 StopIteration exactly at the end of input, else the token of Lexer.token() itself"""
    from vf.pyvc.dsl import ListOf
    cs = []
    TOK = Tok()
    state = {}
    for prev in ('none', 'token'):
        for kind in ('auto', 'real'):
            for nxt in ('none', 'token'):
                class ParserSelf(object):
                    def __init__(self, prev=prev, nxt=nxt):
                        self.prev, self.nxt = prev, nxt

                    def make(self, name):
                        state.clear()
                        state.update(token_calls=0, formatted=[])
                        o = PObj(parmod.Parser, name='parser')
                        lx = PObj(object, name='lexer')
                        lx.fields['valid_prev_token'] = TOK.make('prev') if self.prev == 'token' else None
                        state['prev'] = lx.fields['valid_prev_token']
                        nt = TOK.make('following') if self.nxt == 'token' else None
                        state['next'] = nt

                        def token(e, a, k):
                            state['token_calls'] += 1
                            return nt
                        lx.fields['token'] = PExt('Lexer.token', token)
                        o.fields['lexer'] = lx
                        return o

                class Offending(object):
                    def __init__(self, kind=kind):
                        self.kind = kind

                    def make(self, name):
                        o = PObj(parmod.AutoLexToken if self.kind == 'auto' else object, name='offending')
                        o.fields.update(type=Str.fresh('o_type'), value=Str.fresh('o_value'), lineno=Int.fresh('o_lineno'),
                                        lexpos=Int.fresh('o_lexpos'), colno=Int.fresh('o_colno'))
                        state['offending'] = o
                        return o

                def fmt(e, a, k):
                    state['formatted'].append(a[0])
                    return e.fresh(Str, 'formatted_token')
                want = (prev == 'token') + (kind == 'real') + (nxt == 'token')
                cs.append(Contract(
                    PAR + ':Parser._raise_syntax_error', params={'self': ParserSelf(), 'token': Offending()},
                    ensures=['False'], raises={'ECMASyntaxError': 'token_calls() == 1 and formatted_count() == %d and formatted_in_order()' % want},
                    env={'format_lex_token': PExt('format_lex_token', fmt),
                         'token_calls': Helper(lambda e: state['token_calls']),
                         'formatted_count': Helper(lambda e: len(state['formatted'])),
                         'formatted_in_order': Helper(lambda e, kind=kind: [x for x in state['formatted']] == [
                             x for x in (state['prev'], state['offending'] if kind == 'real' else None, state['next']) if x is not None])},
                    notes='previous %s, offending %s, following %s' % (prev, kind, nxt)))
    # ---- Lexer.t_error
    nhandlers = len(lexmod.Lexer().error_token_handlers) if hasattr(lexmod.Lexer(), 'error_token_handlers') else 1
    for cur in ('none', 'token'):
        for raising in (None,) + tuple(range(nhandlers)):
            class LexerSelf(object):
                def __init__(self, cur=cur, raising=raising):
                    self.cur, self.raising = cur, raising

                def make(self, name):
                    state.clear()
                    state.update(handled=[], after_raise=0)
                    o = PObj(lexmod.Lexer, name='lexer')
                    hs = []
                    for i in range(nhandlers):
                        def h(e, a, k, i=i):
                            if len(a) == 2 and a[0] is o and a[1] is state.get('errtok') and not k:
                                state['handled'].append(i)
                            else:
                                state['handled'].append('wrong call')
                            if self.raising == i:
                                from vf.pyvc.engine import PyRaise, PExc
                                raise PyRaise(PExc(parmod.ECMASyntaxError, tag='error_token_handler_%d' % i))
                            return None
                        hs.append(PExt('error_token_handler_%d' % i, h))
                    o.fields['error_token_handlers'] = PList(hs)
                    o.fields['cur_token'] = TOK.make('cur') if self.cur == 'token' else None
                    o.fields['newline_idx'] = __import__('vf.pyvc.dsl', fromlist=['PList']).PList([Int.fresh('line_start')])
                    return o

            class ErrTok(object):
                def make(self, name):
                    o = TOK.make('errtok')
                    state['errtok'] = o
                    return o
            upto = nhandlers if raising is None else raising + 1
            cs.append(Contract(
                LEX + ':Lexer.t_error', params={'self': LexerSelf(), 'token': ErrTok()}, requires=['len(token.value) > 0'],
                ensures=['False'], raises={'ECMASyntaxError': 'handled() == %r' % (list(range(upto)),)},
                env={'handled': Helper(lambda e: list(state['handled'])),
                     'repr_compat': PExt('repr_compat', lambda e, a, k: e.fresh(Str, 'repr')),
                     'format_lex_token': PExt('format_lex_token', lambda e, a, k: e.fresh(Str, 'formatted')),
                     '__inline__': ['_get_colno', '_get_colno_lexpos']},
                notes='current token %s, %s' % (cur, 'no handler raises' if raising is None else 'handler %d raises the syntax error' % raising)))
    # ---- Lexer.t_regex_error
    class LexerPlain(object):
        def make(self, name):
            o = PObj(lexmod.Lexer, name='lexer')
            o.fields['newline_idx'] = PList([Int.fresh('line_start')])
            return o
    cs.append(Contract(LEX + ':Lexer.t_regex_error', params={'self': LexerPlain(), 'token': TOK}, ensures=['False'],
                       raises={'ECMARegexSyntaxError': 'True'}, env={'__inline__': ['_get_colno', '_get_colno_lexpos']}))
    # ---- Lexer.next
    for end in (True, False):
        class LexerIter(object):
            def __init__(self, end=end):
                self.end = end

            def make(self, name):
                state.clear()
                state['calls'] = 0
                o = PObj(lexmod.Lexer, name='lexer')
                t = None if self.end else TOK.make('tok')
                state['tok'] = t

                def token(e, a, k):
                    state['calls'] += 1
                    return t if state['calls'] == 1 else TOK.make('second_call')
                o.fields['token'] = PExt('Lexer.token', token)
                return o
        cs.append(Contract(LEX + ':Lexer.next', params={'self': LexerIter()},
                           ensures=['False'] if end else ['result is the_token()', 'calls() == 1'],
                           raises={'StopIteration': 'calls() == 1'} if end else {},
                           env={'the_token': Helper(lambda e: state['tok']), 'calls': Helper(lambda e: state['calls'])},
                           notes='end of input' if end else 'a token'))
    return cs


def build_broken_string(lexmod, parmod):
    """broken_string_token_handler (registered in Lexer.error_token_handlers; C12): for ANY error token and ANY input text it either
    returns (the token does not start like a string) or raises the library's syntax error -- no IndexError / KeyError / AttributeError
    whatever follows the matched part (end of input, a lone backslash, `\\x` / `\\u` with or without hex digits).
    Doubles: PATT_BROKEN_STRING.match answers None or a match whose group() is a prefix of the token text (free choice, arbitrary
    length); the escape scan `re.match(<pattern>, rest)` answers a match exactly when `rest` starts with `\\x` or `\\u` -- that the
    real pattern (read from the function's source) does so for every such text is the constant obligation
    `lex.escape_scan_matches_every_x_u_prefix`; the lexer's column / line helpers are doubles (their own contracts: contracts/lexer.py)."""
    import z3
    from vf.pyvc.dsl import SBool, SStr, SInt
    cs = []
    rec = {}
    for matched in (False, True):
        class TokT(object):
            def make(self, name):
                o = PObj(object, name='errtok')
                o.fields.update(type=Str.fresh('t_type'), value=Str.fresh('t_value'), lineno=Int.fresh('t_lineno'), lexpos=Int.fresh('t_lexpos'))
                rec['tok'] = o
                return o

        class LexT(object):
            def make(self, name):
                rec.clear()
                o = PObj(lexmod.Lexer, name='lexer')
                inner = PObj(object, name='plylexer')
                inner.fields['lexpos'] = Int.fresh('ply_lexpos')
                inner.fields['lexdata'] = Str.fresh('lexdata')
                o.fields['lexer'] = inner
                o.fields['lineno'] = Int.fresh('lexer_lineno')
                o.fields['_get_colno'] = PExt('Lexer._get_colno', lambda e, a, k: e.fresh(Int, 'colno'))
                o.fields['_get_colno_lexpos'] = PExt('Lexer._get_colno_lexpos', lambda e, a, k: e.fresh(Int, 'colno2'))
                o.fields['_update_newline_idx'] = PExt('Lexer._update_newline_idx', lambda e, a, k: None)
                return o

        def patt_match(e, a, k, matched=matched):
            if not matched:
                return None
            m = PObj(object, name='match')
            g = Str.fresh('matched_part')
            # the matched part is a prefix of the text it was asked about
            e.assume(z3.PrefixOf(g.t, a[0].t))
            m.fields['group'] = PExt('match.group', lambda e2, a2, k2: g)
            return m
        patt = PObj(object, name='PATT_BROKEN_STRING')
        patt.fields['match'] = PExt('PATT_BROKEN_STRING.match', patt_match)

        def re_match(e, a, k):
            rest = a[1]
            rt = rest.t if hasattr(rest, 't') else z3.StringVal(rest)
            starts = z3.Or(z3.PrefixOf(z3.StringVal('\\x'), rt), z3.PrefixOf(z3.StringVal('\\u'), rt))
            if e.branch(SBool(starts)):
                m = PObj(object, name='escape_match')
                m.fields['group'] = PExt('match.group', lambda e2, a2, k2: e2.fresh(Str, 'escape_text'))
                return m
            return None
        re_double = PObj(object, name='re')
        re_double.fields['match'] = PExt('re.match', re_match)
        env = {'PATT_BROKEN_STRING': patt, 're': re_double, 'repr_compat': PExt('repr_compat', lambda e, a, k: e.fresh(Str, 'repr'))}
        if matched:
            cs.append(Contract(LEX + ':broken_string_token_handler', params={'lexer': LexT(), 'token': TokT()}, ensures=['False'],
                               raises={'ECMASyntaxError': 'True'}, env=env, notes='the token starts like a string'))
        else:
            cs.append(Contract(LEX + ':broken_string_token_handler', params={'lexer': LexT(), 'token': TokT()}, ensures=['result is None'],
                               env=env, notes='the token does not start like a string'))
    return cs


def escape_scan_obligation(run, lexmod):
    """constant obligation behind the `re.match` double of build_broken_string: the pattern literal in the source of
    broken_string_token_handler matches every text that starts with `\\x` or `\\u` (so `.group()` is never called on None)"""
    import ast, inspect, re, time
    t0 = time.time()
    name = 'lex.escape_scan_matches_every_x_u_prefix'
    src = inspect.getsource(lexmod.broken_string_token_handler)
    pats = [n.args[0].value for n in ast.walk(ast.parse(src)) if isinstance(n, ast.Call) and isinstance(n.func, ast.Attribute) and n.func.attr == 'match'
            and isinstance(n.func.value, ast.Name) and n.func.value.id == 're' and n.args and isinstance(n.args[0], ast.Constant) and isinstance(n.args[0].value, str)]
    bad = None
    if len(pats) != 1:
        bad = 'expected one re.match(<literal>, ...) in the function, found %d' % len(pats)
    else:
        rx = re.compile(pats[0])
        for pre in ('\\x', '\\u'):
            if rx.match(pre) is None:
                bad = 'no match for %r alone' % pre
                break
            for cp in range(0x110000):
                if rx.match(pre + chr(cp)) is None:
                    bad = 'no match for %r + U+%04X' % (pre, cp)
                    break
            if bad:
                break
    if bad is None:
        run.discharged(name, 'E3/constants', 'exhaustive', int((time.time() - t0) * 1000), detail='pattern %r: both prefixes alone and followed by each of 0x110000 code points' % pats[0])
    else:
        run.failed(name, 'E3/constants', 'constant', dict(detail=bad), replayed=True, solver_output=bad)

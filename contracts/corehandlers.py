"""Sidecar contracts for the layout handlers of handlers/core.py (C01, C02, C20, C08): what each handler puts between two
text chunks, for ALL neighbour texts.

    layout_handler_space_minimum          one implied space  iff  both neighbours exist and the pair (last character of the text
                                          before, first character of the text after) is matched by `required_space`; else nothing
    layout_handler_space_optional_pretty  one implied space  iff  (the node is an If / For / ForIn / While and the text after is not
                                          ';' / ')' / missing), or both neighbours exist and (the pair is matched or the text
                                          after is an assignment operator); else nothing
    layout_handler_semicolon_optional     the ';' with the position of the node's own ';' iff something non-empty follows
    layout_handler_semicolon / openbrace / closebrace
                                          exactly one fragment with the node's own position of that character
    layout_handler_space_imply / _drop / newline_simple
                                          exactly the one constant fragment (implied position (0, 0) / no position / the
                                          dispatcher's newline string at an implied position)
`required_space.match` is an uninterpreted predicate RS over strings here: which pairs it matches is decided over all code points
from the real compiled pattern by the E3 obligations `class.required_space_*`; what the definitions put where by O-sep / O-print.
These contracts are the link between the two: the handler consults RS for exactly the boundary pair and nothing else decides."""
import z3

from vf.pyvc.dsl import Contract, Const, OneOf, Helper, PExt, PObj, Str, Int, SBool

MODULE = 'calmjs.parse.handlers.core'


def build(core, asttypes):
    cs = []
    rec = {}
    RS = z3.Function('required_space_matches', z3.StringSort(), z3.BoolSort())

    def reset():
        rec.clear()
        rec.update(getpos=[], frags=[], rs_calls=[])

    def tt(x):
        return x.t if hasattr(x, 't') else z3.StringVal(x)

    def rs_match(e, a, k):
        rec['rs_calls'].append(a[0])
        return SBool(RS(tt(a[0])))
    rs_obj = PObj(object, name='required_space')
    rs_obj.fields['match'] = PExt('required_space.match', rs_match, pure=True)

    def pair(b, a):
        b, a = tt(b), tt(a)
        return z3.Concat(z3.SubString(b, z3.Length(b) - 1, 1), z3.SubString(a, 0, 1))

    class NodeT(object):
        def __init__(self, cls):
            self.cls = cls

        def make(self, name):
            n = PObj(self.cls, name='node')

            def getpos(e, a, k):
                rec['getpos'].append(tuple(a))
                rec['pos'] = (Int.fresh('lexpos'), Int.fresh('lineno'), Int.fresh('colno'))
                return rec['pos']
            n.fields['getpos'] = PExt('Node.getpos', getpos)
            return n

        def __repr__(self):
            return self.cls.__name__

    class DispT(object):
        def make(self, name):
            d = PObj(object, name='dispatcher')
            rec['newline'] = Str.fresh('newline_str')
            d.fields['newline_str'] = rec['newline']
            return d

    def sf(e, a, k):
        rec['frags'].append(tuple(a))
        return tuple(a)

    def items(result):
        return result.items if hasattr(result, 'items') and not callable(result.items) else result

    def same(e, x, y):
        if x is y:
            return True
        if x is None or y is None:
            return False
        try:
            return e.compare(__import__('ast').Eq(), x, y)
        except Exception:
            return False
    env = {'__reset__': reset, 'StreamFragment': PExt('StreamFragment', sf), 'required_space': rs_obj,
           'n': Helper(lambda e, result: len(items(result))),
           'only': Helper(lambda e, result: items(result)[0]),
           'is_frag': Helper(lambda e, x, y: x is y or (isinstance(x, tuple) and tuple(x) == tuple(y))),
           'frag': Helper(lambda e, result, i: items(result)[0][i]),
           'rs_pair': Helper(lambda e, b, a: SBool(RS(pair(b, a)))),
           'rs_asked_only_for_pair': Helper(lambda e, b, a: all(e.truth(SBool(tt(x) == pair(b, a))) is True or
                                                               e.entails(tt(x) == pair(b, a)) for x in rec['rs_calls'])),
           'k_space_imply': Helper(lambda e: core.space_imply), 'k_space_drop': Helper(lambda e: core.space_drop),
           'pos_line': Helper(lambda e: rec['pos'][1]), 'pos_col': Helper(lambda e: rec['pos'][2]),
           'getpos_calls': Helper(lambda e: len(rec['getpos'])),
           'getpos_args': Helper(lambda e: rec['getpos'][0]),
           'newline': Helper(lambda e: rec['newline']), 'same': Helper(same)}
    OPT = OneOf(Const(None), Str)
    plain = NodeT(asttypes.Node)

    def params(node=plain, before=OPT, after=OPT, prev=OPT):
        return {'dispatcher': DispT(), 'node': node, 'before': before, 'after': after, 'prev': prev}
    # ---- the two deciding handlers
    for b in (Const(None), Str):
        for a in (Const(None), Str):
            both = b is Str and a is Str
            note = 'before %s, after %s' % ('text' if b is Str else 'missing', 'text' if a is Str else 'missing')
            if both:
                ens = ['implies(rs_pair(before, after), n(result) == 1 and is_frag(only(result), k_space_imply()))',
                       'implies(not rs_pair(before, after), n(result) == 0)']
            else:
                ens = ['n(result) == 0']
            cs.append(Contract(MODULE + ':layout_handler_space_minimum', params=params(before=b, after=a), yields=Const(None),
                               ensures=ens, env=env, notes=note))
            for cls in (asttypes.Node, asttypes.If, asttypes.For, asttypes.ForIn, asttypes.While):
                header = cls is not asttypes.Node
                if header and a is Str:
                    hd = "after != ';' and after != ')'"
                elif header:
                    hd = 'False'        # after missing: in optional_rhs_space_tokens
                else:
                    hd = 'False'
                if both:
                    assign = ' or '.join('after == %r' % t for t in sorted(core.assignment_tokens))
                    want = '(%s) or rs_pair(before, after) or (%s)' % (hd, assign)
                elif header and a is Str:
                    want = hd
                else:
                    want = 'False'
                ens = ['implies(%s, n(result) == 1 and is_frag(only(result), k_space_imply()))' % want,
                       'implies(not (%s), n(result) == 0)' % want]
                cs.append(Contract(MODULE + ':layout_handler_space_optional_pretty', params=params(node=NodeT(cls), before=b, after=a),
                                   yields=Const(None), ensures=ens, env=env, notes='%s, %s' % (cls.__name__, note)))
    # ---- the handlers that print a character of the node
    for fn, ch in (('layout_handler_semicolon', ';'), ('layout_handler_openbrace', '{'), ('layout_handler_closebrace', '}')):
        cs.append(Contract(MODULE + ':' + fn, params=params(), yields=Const(None),
                           ensures=['n(result) == 1', 'frag(result, 0) == %r' % ch, 'frag(result, 1) is pos_line()', 'frag(result, 2) is pos_col()',
                                    'frag(result, 3) is None', 'frag(result, 4) is None', 'getpos_calls() == 1', 'getpos_args() == (%r, 0)' % ch],
                           env=env))
    for a in (Const(None), Str):
        if a is Str:
            ens = ["implies(after != '', n(result) == 1 and frag(result, 0) == ';' and frag(result, 1) is pos_line() and frag(result, 2) is pos_col()"
                   " and frag(result, 3) is None and frag(result, 4) is None and getpos_args() == (';', 0))",
                   "implies(after == '', n(result) == 0)"]
        else:
            ens = ['n(result) == 0']
        cs.append(Contract(MODULE + ':layout_handler_semicolon_optional', params=params(after=a), yields=Const(None), ensures=ens, env=env,
                           notes='after %s' % ('text' if a is Str else 'missing')))
    # ---- constants
    cs.append(Contract(MODULE + ':layout_handler_space_imply', params=params(), yields=Const(None),
                       ensures=['n(result) == 1', 'is_frag(only(result), k_space_imply())'], env=env))
    cs.append(Contract(MODULE + ':layout_handler_space_drop', params=params(), yields=Const(None),
                       ensures=['n(result) == 1', 'is_frag(only(result), k_space_drop())'], env=env))
    cs.append(Contract(MODULE + ':layout_handler_newline_simple', params=params(), yields=Const(None),
                       ensures=['n(result) == 1', 'frag(result, 0) is newline()', 'frag(result, 1) == 0', 'frag(result, 2) == 0',
                                'frag(result, 3) is None', 'frag(result, 4) is None'], env=env))
    return cs


def constants(run, core):
    """what the contracts above take as given about module constants"""
    import time
    t0 = time.time()
    ok = tuple(core.space_imply) == (' ', 0, 0, None, None) and tuple(core.space_drop) == (' ', None, None, None, None)
    name = 'handlers.space_fragments_are_one_blank'
    detail = 'space_imply = %r, space_drop = %r' % (tuple(core.space_imply), tuple(core.space_drop))
    if ok:
        run.discharged(name, 'E3/constants', 'exhaustive', int((time.time() - t0) * 1000), detail=detail)
    else:
        run.failed(name, 'E3/constants', 'constant', dict(detail=detail), replayed=True, solver_output=detail)
